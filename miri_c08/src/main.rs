//! C08 Miri stage: load one small multi-object-stream file on a 3-thread rayon pool under Miri
//! (undefined-behaviour checks + data-race detector + randomised scheduler via -Zmiri-many-seeds)
//! and print a digest of the loaded document. The driver compares the digests of all seeds.
use lopdf::{Document, Object};

fn fnv(h: &mut u64, b: &[u8]) {
    for x in b {
        *h ^= *x as u64;
        *h = h.wrapping_mul(0x1000_0000_01b3);
    }
}

fn digest_obj(h: &mut u64, o: &Object) {
    match o {
        Object::Null => fnv(h, b"n"),
        Object::Boolean(b) => fnv(h, &[b'b', *b as u8]),
        Object::Integer(i) => fnv(h, &i.to_le_bytes()),
        Object::Real(r) => fnv(h, &r.to_bits().to_le_bytes()),
        Object::Name(n) => {
            fnv(h, b"/");
            fnv(h, n)
        }
        Object::String(s, _) => {
            fnv(h, b"(");
            fnv(h, s)
        }
        Object::Array(a) => {
            fnv(h, b"[");
            a.iter().for_each(|x| digest_obj(h, x));
            fnv(h, b"]")
        }
        Object::Dictionary(d) => {
            fnv(h, b"<");
            for (k, v) in d.iter() {
                fnv(h, k);
                digest_obj(h, v);
            }
            fnv(h, b">")
        }
        Object::Stream(s) => {
            fnv(h, b"s");
            for (k, v) in s.dict.iter() {
                fnv(h, k);
                digest_obj(h, v);
            }
            fnv(h, &s.content)
        }
        Object::Reference(id) => {
            fnv(h, &id.0.to_le_bytes());
            fnv(h, &id.1.to_le_bytes())
        }
    }
}

/// smallest file that exercises the shared accumulator: two object streams that both hold
/// object 3 (as after an incremental update), an uncompressed cross-reference stream naming the
/// second container, everything else as short as the syntax allows
fn tiny_file() -> Vec<u8> {
    let mut out = b"%PDF-1.5\n".to_vec();
    let mut offs = vec![];
    for (n, body) in [(1u32, "3 0 (A)"), (2, "3 0 (B)")] {
        offs.push(out.len());
        out.extend_from_slice(format!("{} 0 obj<</Type/ObjStm/N 1/First 4/Length {}>>stream\n{}\nendstream endobj\n", n, body.len(), body).as_bytes());
    }
    let xoff = out.len();
    // entries 0..=4, W = [1 2 1]
    let mut data: Vec<u8> = vec![0, 0, 0, 255];
    for o in &offs {
        data.extend_from_slice(&[1, (*o >> 8) as u8, *o as u8, 0]);
    }
    data.extend_from_slice(&[2, 0, 2, 0]); // object 3: container 2, index 0
    data.extend_from_slice(&[1, (xoff >> 8) as u8, xoff as u8, 0]);
    out.extend_from_slice(format!("4 0 obj<</Type/XRef/Size 5/W[1 2 1]/Root 3 0 R/Length {}>>stream\n", data.len()).as_bytes());
    out.extend_from_slice(&data);
    out.extend_from_slice(format!("\nendstream endobj\nstartxref\n{}\n%%EOF", xoff).as_bytes());
    out
}

fn main() {
    let bytes = match std::env::args().nth(1) {
        Some(path) => std::fs::read(path).expect("read"),
        None => tiny_file(),
    };
    let pool = rayon::ThreadPoolBuilder::new().num_threads(3).build().expect("pool");
    let doc = pool.install(|| Document::load_mem(&bytes)).expect("load");
    let mut h = 0xcbf2_9ce4_8422_2325u64;
    for (id, o) in &doc.objects {
        fnv(&mut h, &id.0.to_le_bytes());
        fnv(&mut h, &id.1.to_le_bytes());
        digest_obj(&mut h, o);
    }
    fnv(&mut h, b"trailer");
    for (k, v) in doc.trailer.iter() {
        fnv(&mut h, k);
        digest_obj(&mut h, v);
    }
    fnv(&mut h, &doc.max_id.to_le_bytes());
    fnv(&mut h, doc.version.as_bytes());
    let obj3 = match doc.objects.get(&(3, 0)) {
        Some(Object::String(s, _)) => String::from_utf8_lossy(s).to_string(),
        other => format!("{:?}", other),
    };
    println!("digest={:016x} objects={} obj3={}", h, doc.objects.len(), obj3);
}
