//! Deterministic PRNG (splitmix64 seeding + xoshiro256**). No external RNG crate so that
//! every workload is a pure function of (VERIF_SEED, property, shard, case index).

#[derive(Clone, Debug)]
pub struct Rng {
    s: [u64; 4],
}

pub fn splitmix64(x: &mut u64) -> u64 {
    *x = x.wrapping_add(0x9E37_79B9_7F4A_7C15);
    let mut z = *x;
    z = (z ^ (z >> 30)).wrapping_mul(0xBF58_476D_1CE4_E5B9);
    z = (z ^ (z >> 27)).wrapping_mul(0x94D0_49BB_1331_11EB);
    z ^ (z >> 31)
}

pub fn fnv(s: &str) -> u64 {
    let mut h = 0xcbf2_9ce4_8422_2325u64;
    for b in s.bytes() {
        h ^= b as u64;
        h = h.wrapping_mul(0x1000_0000_01b3);
    }
    h
}

pub fn fnv_bytes(s: &[u8]) -> u64 {
    let mut h = 0xcbf2_9ce4_8422_2325u64;
    for &b in s {
        h ^= b as u64;
        h = h.wrapping_mul(0x1000_0000_01b3);
    }
    h
}

impl Rng {
    pub fn new(seed: u64) -> Rng {
        let mut x = seed;
        let s = [splitmix64(&mut x), splitmix64(&mut x), splitmix64(&mut x), splitmix64(&mut x)];
        Rng { s }
    }
    /// The generator's state, so that a witness can store the point a workload had reached.
    pub fn state(&self) -> [u64; 4] {
        self.s
    }
    pub fn from_state(s: [u64; 4]) -> Rng {
        Rng { s }
    }
    /// RNG of one case: a pure function of (seed, property/stream tag, shard, index).
    pub fn for_case(seed: u64, tag: &str, shard: u64, index: u64) -> Rng {
        let mut x = seed ^ fnv(tag).rotate_left(17) ^ shard.wrapping_mul(0xA24B_AED4_963E_E407) ^ index.wrapping_mul(0x9FB2_1C65_1E98_DF25);
        let a = splitmix64(&mut x);
        Rng::new(a ^ index)
    }
    pub fn next_u64(&mut self) -> u64 {
        let r = self.s[1].wrapping_mul(5).rotate_left(7).wrapping_mul(9);
        let t = self.s[1] << 17;
        self.s[2] ^= self.s[0];
        self.s[3] ^= self.s[1];
        self.s[1] ^= self.s[2];
        self.s[0] ^= self.s[3];
        self.s[2] ^= t;
        self.s[3] = self.s[3].rotate_left(45);
        r
    }
    pub fn u32(&mut self) -> u32 {
        (self.next_u64() >> 32) as u32
    }
    pub fn u8(&mut self) -> u8 {
        (self.next_u64() >> 56) as u8
    }
    /// uniform in 0..n (n >= 1)
    pub fn below(&mut self, n: u64) -> u64 {
        if n <= 1 {
            return 0;
        }
        // multiply-shift; bias is irrelevant for workload generation
        ((self.next_u64() as u128 * n as u128) >> 64) as u64
    }
    pub fn usize_below(&mut self, n: usize) -> usize {
        self.below(n as u64) as usize
    }
    /// inclusive range
    pub fn range(&mut self, lo: i64, hi: i64) -> i64 {
        lo + self.below((hi - lo + 1) as u64) as i64
    }
    pub fn chance(&mut self, num: u64, den: u64) -> bool {
        self.below(den) < num
    }
    pub fn bool(&mut self) -> bool {
        self.next_u64() & 1 == 1
    }
    pub fn pick<'a, T>(&mut self, xs: &'a [T]) -> &'a T {
        &xs[self.usize_below(xs.len())]
    }
    pub fn bytes(&mut self, n: usize) -> Vec<u8> {
        (0..n).map(|_| self.u8()).collect()
    }
    pub fn shuffle<T>(&mut self, xs: &mut [T]) {
        for i in (1..xs.len()).rev() {
            let j = self.usize_below(i + 1);
            xs.swap(i, j);
        }
    }
}


impl crate::refimpl::codecs::Choice for Rng {
    fn below(&mut self, n: u32) -> u32 {
        Rng::below(self, n as u64) as u32
    }
}
