//! Process-level monitors: counting global allocator, worker protocol (status file + JSONL log),
//! supervisor (liveness, signals, CPU-time budget from /proc, gdb stack triage).

use crate::util::*;
use serde_json::{json, Value};
use std::alloc::{GlobalAlloc, Layout, System};
use std::cell::Cell;
use std::collections::BTreeSet;
use std::io::Write;
use std::path::{Path, PathBuf};
use std::process::{Command, Stdio};
use std::sync::atomic::{AtomicBool, AtomicUsize, Ordering};
use std::sync::Mutex;
use std::time::{Duration, Instant};

// ---------------------------------------------------------------------------- allocator

pub struct CountingAlloc;

static LIVE: AtomicUsize = AtomicUsize::new(0);
static PEAK: AtomicUsize = AtomicUsize::new(0);
static MAX_REQ: AtomicUsize = AtomicUsize::new(0);
static ARMED: AtomicBool = AtomicBool::new(false);
/// a single successful request above this size is recorded with a backtrace while armed
static REQ_LIMIT: AtomicUsize = AtomicUsize::new(usize::MAX);
static BIG: Mutex<Option<(usize, String)>> = Mutex::new(None);

thread_local! {
    static IN_HOOK: Cell<bool> = const { Cell::new(false) };
}

unsafe impl GlobalAlloc for CountingAlloc {
    unsafe fn alloc(&self, l: Layout) -> *mut u8 {
        let p = System.alloc(l);
        if !p.is_null() {
            note_alloc(l.size());
        }
        p
    }
    unsafe fn alloc_zeroed(&self, l: Layout) -> *mut u8 {
        let p = System.alloc_zeroed(l);
        if !p.is_null() {
            note_alloc(l.size());
        }
        p
    }
    unsafe fn dealloc(&self, p: *mut u8, l: Layout) {
        System.dealloc(p, l);
        LIVE.fetch_sub(l.size(), Ordering::Relaxed);
    }
    unsafe fn realloc(&self, p: *mut u8, l: Layout, new: usize) -> *mut u8 {
        let q = System.realloc(p, l, new);
        if !q.is_null() {
            if new >= l.size() {
                note_alloc(new - l.size());
                if new > MAX_REQ.load(Ordering::Relaxed) {
                    MAX_REQ.fetch_max(new, Ordering::Relaxed);
                    big_request(new);
                }
            } else {
                LIVE.fetch_sub(l.size() - new, Ordering::Relaxed);
            }
        }
        q
    }
}

#[inline]
fn note_alloc(n: usize) {
    let live = LIVE.fetch_add(n, Ordering::Relaxed) + n;
    PEAK.fetch_max(live, Ordering::Relaxed);
    if n > MAX_REQ.load(Ordering::Relaxed) {
        MAX_REQ.fetch_max(n, Ordering::Relaxed);
        big_request(n);
    }
}

#[cold]
fn big_request(n: usize) {
    if !ARMED.load(Ordering::Relaxed) || n <= REQ_LIMIT.load(Ordering::Relaxed) {
        return;
    }
    IN_HOOK.with(|h| {
        if h.get() {
            return;
        }
        h.set(true);
        let bt = std::backtrace::Backtrace::force_capture().to_string();
        if let Ok(mut g) = BIG.try_lock() {
            if g.as_ref().map(|x| x.0 < n).unwrap_or(true) {
                *g = Some((n, bt));
            }
        }
        h.set(false);
    });
}

pub struct AllocWindow {
    base_live: usize,
}

/// start observing one case
pub fn alloc_begin(req_limit: usize) -> AllocWindow {
    let live = LIVE.load(Ordering::Relaxed);
    PEAK.store(live, Ordering::Relaxed);
    MAX_REQ.store(0, Ordering::Relaxed);
    REQ_LIMIT.store(req_limit, Ordering::Relaxed);
    if let Ok(mut g) = BIG.lock() {
        *g = None;
    }
    ARMED.store(true, Ordering::Relaxed);
    AllocWindow { base_live: live }
}

pub struct AllocReport {
    pub peak_extra: usize,
    pub max_request: usize,
    pub big: Option<(usize, String)>,
}

pub fn alloc_end(w: AllocWindow) -> AllocReport {
    ARMED.store(false, Ordering::Relaxed);
    let peak = PEAK.load(Ordering::Relaxed);
    AllocReport { peak_extra: peak.saturating_sub(w.base_live), max_request: MAX_REQ.load(Ordering::Relaxed), big: BIG.lock().ok().and_then(|mut g| g.take()) }
}

// ---------------------------------------------------------------------------- stack frames

/// Function path of one backtrace line (std::backtrace "  12: path" or gdb "#12 0x.. in path (args) at file").
fn frame_symbol(line: &str) -> Option<String> {
    let t = line.trim_start();
    let rest = if let Some(r) = t.strip_prefix('#') {
        // gdb
        let r = r.trim_start_matches(|c: char| c.is_ascii_digit()).trim_start();
        let r = match r.find(" in ") {
            Some(k) if r.starts_with("0x") => &r[k + 4..],
            _ => r,
        };
        r
    } else {
        let k = t.find(": ")?;
        if !t[..k].chars().all(|c| c.is_ascii_digit()) {
            return None;
        }
        &t[k + 2..]
    };
    // cut the argument list: first " (" at angle-bracket depth 0
    let mut depth = 0i32;
    let mut end = rest.len();
    let bytes = rest.as_bytes();
    let mut i = 0;
    while i < bytes.len() {
        match bytes[i] {
            b'<' => depth += 1,
            b'>' => {
                if i > 0 && bytes[i - 1] == b'-' {
                } else {
                    depth -= 1
                }
            }
            b' ' if depth <= 0 && bytes.get(i + 1) == Some(&b'(') => {
                end = i;
                break;
            }
            _ => {}
        }
        i += 1;
    }
    Some(rest[..end].trim().to_string())
}

/// strip generic arguments; `<T as Trait>::f` / `<T>::f` become `T::f`
fn simplify_symbol(sym: &str) -> String {
    let mut s = sym.to_string();
    if s.starts_with('<') {
        // find the matching '>' of the leading '<'
        let mut depth = 0;
        let mut close = None;
        for (i, c) in s.char_indices() {
            match c {
                '<' => depth += 1,
                '>' => {
                    depth -= 1;
                    if depth == 0 {
                        close = Some(i);
                        break;
                    }
                }
                _ => {}
            }
        }
        if let Some(c) = close {
            let inner = &s[1..c];
            let ty = inner.split(" as ").next().unwrap_or(inner).to_string();
            s = format!("{}{}", ty, &s[c + 1..]);
        }
    }
    let mut out = String::new();
    let mut depth = 0;
    for c in s.chars() {
        match c {
            '<' => depth += 1,
            '>' => {
                if depth > 0 {
                    depth -= 1
                }
            }
            _ if depth == 0 => out.push(c),
            _ => {}
        }
    }
    // closures and hash suffixes
    let mut parts: Vec<&str> = out.split("::").filter(|p| !p.is_empty() && !p.starts_with("{closure") && !p.starts_with("{{closure") && !p.starts_with("{impl") && !p.starts_with("{closure_env")).collect();
    if let Some(last) = parts.last() {
        if last.len() == 17 && last.starts_with('h') && last[1..].chars().all(|c| c.is_ascii_hexdigit()) {
            parts.pop();
        }
    }
    parts.join("::")
}

/// distinct `lopdf::…` function names, innermost first (only frames whose own path is in lopdf)
pub fn lopdf_frames(bt: &str, max: usize) -> Vec<String> {
    let mut out: Vec<String> = vec![];
    for line in bt.lines() {
        let Some(sym) = frame_symbol(line) else { continue };
        let f = simplify_symbol(&sym);
        if !f.starts_with("lopdf::") || f.starts_with("lopdf::verif") {
            continue;
        }
        if !out.contains(&f) {
            out.push(f);
            if out.len() >= max {
                break;
            }
        }
    }
    out
}

pub fn message_class(msg: &str) -> String {
    // digits and quoted payloads vary with the input; keep the shape
    let mut s = String::new();
    let mut last_digit = false;
    for c in msg.chars().take(120) {
        if c.is_ascii_digit() {
            if !last_digit {
                s.push('N');
            }
            last_digit = true;
        } else {
            last_digit = false;
            s.push(c);
        }
    }
    s.split(" @ ").next().unwrap_or("").trim().to_string()
}

// ---------------------------------------------------------------------------- worker side

pub struct Worker {
    status: std::fs::File,
    log: std::fs::File,
}

impl Worker {
    pub fn open(status: &str, log: &str) -> Worker {
        let status = std::fs::OpenOptions::new().create(true).write(true).truncate(true).open(status).expect("status file");
        let log = std::fs::OpenOptions::new().create(true).append(true).open(log).expect("log file");
        Worker { status, log }
    }
    /// announce the case about to run (one pwrite; the supervisor polls it). `phase` 0 = the
    /// harness is still generating the case (not billed to lopdf), 1 = the entry points run
    pub fn begin_case(&mut self, index: u64, len: usize) {
        self.announce(index, len, 1);
    }
    pub fn generating(&mut self, index: u64) {
        self.announce(index, 0, 0);
    }
    fn announce(&mut self, index: u64, len: usize, phase: u8) {
        use std::os::unix::fs::FileExt;
        let line = format!("{:>20} {:>12} {} \n", index, len, phase);
        let _ = self.status.write_at(line.as_bytes(), 0);
    }
    pub fn log(&mut self, v: Value) {
        let _ = writeln!(self.log, "{}", v);
    }
}

pub fn set_rlimit_as(bytes: u64) {
    unsafe {
        let lim = libc::rlimit { rlim_cur: bytes, rlim_max: bytes };
        libc::setrlimit(libc::RLIMIT_AS, &lim);
        // no core dumps
        let z = libc::rlimit { rlim_cur: 0, rlim_max: 0 };
        libc::setrlimit(libc::RLIMIT_CORE, &z);
    }
}

/// Outcome of running one case under the in-process monitors
pub struct CaseOutcome {
    pub panic: Option<(String, Vec<String>)>,
    pub alloc: Option<(String, Vec<String>)>,
    pub peak_extra: usize,
    pub max_request: usize,
    pub cpu_ms: u64,
}

thread_local! {
    static PANIC_BT: std::cell::RefCell<Option<String>> = const { std::cell::RefCell::new(None) };
}
/// message and backtrace of the most recent panic on any thread: lopdf's parallel reader panics on a
/// pool thread and the pool re-raises the payload on the caller without running the hook again
pub static ANY_THREAD_PANIC: Mutex<Option<(String, String)>> = Mutex::new(None);

pub fn install_worker_panic_hook() {
    std::panic::set_hook(Box::new(|info| {
        let msg = if let Some(s) = info.payload().downcast_ref::<&str>() {
            s.to_string()
        } else if let Some(s) = info.payload().downcast_ref::<String>() {
            s.clone()
        } else {
            "<non-string panic>".to_string()
        };
        let loc = info.location().map(|l| format!("{}:{}", l.file(), l.line())).unwrap_or_default();
        crate::props::LAST_PANIC.with(|p| *p.borrow_mut() = Some(format!("{} @ {}", msg, loc)));
        let bt = std::backtrace::Backtrace::force_capture().to_string();
        if std::env::var("VH_DEBUG_BT").is_ok() { eprintln!("{}", bt); }
        if let Ok(mut g) = ANY_THREAD_PANIC.lock() {
            *g = Some((format!("{} @ {}", msg, loc), bt.clone()));
        }
        PANIC_BT.with(|p| *p.borrow_mut() = Some(bt));
    }));
}

fn thread_cpu_ms() -> u64 {
    unsafe {
        let mut ts = libc::timespec { tv_sec: 0, tv_nsec: 0 };
        libc::clock_gettime(libc::CLOCK_PROCESS_CPUTIME_ID, &mut ts);
        (ts.tv_sec as u64) * 1000 + (ts.tv_nsec as u64) / 1_000_000
    }
}

/// run one case with panic capture and allocation accounting. `len` = input size.
pub fn run_monitored(len: usize, f: impl FnOnce()) -> CaseOutcome {
    let req_limit = (64usize << 20).max(4096usize.saturating_mul(len));
    let peak_limit = (256usize << 20).saturating_add(8192usize.saturating_mul(len));
    let t0 = thread_cpu_ms();
    let w = alloc_begin(req_limit);
    PANIC_BT.with(|p| *p.borrow_mut() = None);
    if let Ok(mut g) = ANY_THREAD_PANIC.lock() {
        *g = None;
    }
    let r = crate::props::catch(f);
    let rep = alloc_end(w);
    let cpu_ms = thread_cpu_ms().saturating_sub(t0);
    let panic = match r {
        Ok(()) => None,
        Err(msg) => match PANIC_BT.with(|p| p.borrow_mut().take()) {
            Some(bt) => Some((msg, lopdf_frames(&bt, 6))),
            // raised on a helper thread: the worker runs one case at a time, so the last panic is this one
            None => match ANY_THREAD_PANIC.lock().ok().and_then(|mut g| g.take()) {
                Some((m, bt)) => Some((m, lopdf_frames(&bt, 6))),
                None => Some((msg, vec![])),
            },
        },
    };
    let mut alloc = None;
    if let Some((n, bt)) = rep.big {
        alloc = Some((format!("single allocation request of {} bytes for an input of {} bytes", n, len), lopdf_frames(&bt, 6)));
    } else if rep.peak_extra > peak_limit {
        alloc = Some((format!("peak live memory {} bytes for an input of {} bytes", rep.peak_extra, len), vec![]));
    }
    CaseOutcome { panic, alloc, peak_extra: rep.peak_extra, max_request: rep.max_request, cpu_ms }
}

// ---------------------------------------------------------------------------- supervisor side

#[derive(Clone, Debug)]
pub struct SupCfg {
    pub prop: String,
    pub workers: usize,
    /// wall-clock seconds the workload should run
    pub run_secs: f64,
    /// hard cap on cases per worker (0 = unlimited)
    pub max_cases: u64,
    pub seed: u64,
    pub work_dir: PathBuf,
    pub cpu_budget_base_s: f64,
    pub cpu_budget_per_byte_s: f64,
}

fn proc_cpu_secs(pid: u32) -> Option<f64> {
    let s = std::fs::read_to_string(format!("/proc/{}/stat", pid)).ok()?;
    let rest = &s[s.rfind(')')? + 2..];
    let f: Vec<&str> = rest.split(' ').collect();
    let ut: f64 = f.get(11)?.parse().ok()?;
    let st: f64 = f.get(12)?.parse().ok()?;
    let hz = unsafe { libc::sysconf(libc::_SC_CLK_TCK) } as f64;
    Some((ut + st) / hz)
}

fn read_status(p: &Path) -> Option<(u64, usize, u8)> {
    let s = std::fs::read_to_string(p).ok()?;
    let mut it = s.split_whitespace();
    Some((it.next()?.parse().ok()?, it.next()?.parse().ok()?, it.next().and_then(|x| x.parse().ok()).unwrap_or(1)))
}

/// re-run one case under gdb and return the lopdf frames of the crash (innermost first)
pub fn gdb_triage(exe: &Path, args: &[String], timeout_s: u64) -> (Vec<String>, String) {
    let mut cmd = Command::new("timeout");
    cmd.arg(format!("{}", timeout_s)).arg("gdb").arg("-batch").arg("-ex").arg("run").arg("-ex").arg("bt 400").arg("--args").arg(exe);
    for a in args {
        cmd.arg(a);
    }
    cmd.env("VH_NO_RLIMIT", "1");
    cmd.stdin(Stdio::null());
    let out = cmd.output();
    match out {
        Ok(o) => {
            let text = String::from_utf8_lossy(&o.stdout).to_string();
            let bt_start = text.find("\n#0").unwrap_or(0);
            let frames = lopdf_frames(&text[bt_start..], 12);
            let sig = if text.contains("SIGSEGV") {
                "SIGSEGV"
            } else if text.contains("SIGABRT") {
                "SIGABRT"
            } else if text.contains("SIGKILL") {
                "SIGKILL"
            } else {
                ""
            };
            (frames, sig.to_string())
        }
        Err(_) => (vec![], String::new()),
    }
}

pub struct SupResult {
    pub out: ShardOut,
    pub cases_run: u64,
}

/// Run the worker fleet. `worker_args(shard, from)` gives the argv of a worker (without exe).
/// `one_args(shard, index)` gives the argv that re-runs exactly one case (for gdb triage and replay).
pub fn supervise(
    cfg: &SupCfg, worker_args: &dyn Fn(usize, u64, &Path, &Path) -> Vec<String>, one_args: &dyn Fn(usize, u64) -> Vec<String>,
    describe_case: &dyn Fn(usize, u64) -> Value,
) -> SupResult {
    let exe = std::env::current_exe().expect("current_exe");
    let _ = std::fs::create_dir_all(&cfg.work_dir);
    struct W {
        child: Option<std::process::Child>,
        status: PathBuf,
        log: PathBuf,
        stderr: PathBuf,
        next_from: u64,
        cur: Option<(u64, usize, u8)>,
        cur_cpu0: f64,
        cur_wall0: Instant,
        done: bool,
        restarts: u32,
    }
    let mut ws: Vec<W> = (0..cfg.workers)
        .map(|k| W {
            child: None,
            status: cfg.work_dir.join(format!("w{}.status", k)),
            log: cfg.work_dir.join(format!("w{}.log", k)),
            stderr: cfg.work_dir.join(format!("w{}.stderr", k)),
            next_from: 0,
            cur: None,
            cur_cpu0: 0.0,
            cur_wall0: Instant::now(),
            done: false,
            restarts: 0,
        })
        .collect();
    for w in &ws {
        let _ = std::fs::remove_file(&w.log);
        let _ = std::fs::remove_file(&w.status);
    }
    let start = Instant::now();
    let mut out = ShardOut::default();
    let mut crash_cases: Vec<(usize, u64, String, String)> = vec![]; // shard, index, kind, detail
    let spawn = |k: usize, w: &mut W| {
        let args = worker_args(k, w.next_from, &w.status, &w.log);
        let errf = std::fs::File::create(&w.stderr).expect("stderr file");
        let child = Command::new(&exe)
            .args(&args)
            .env("RAYON_NUM_THREADS", "2")
            .env("VH_DEADLINE_S", format!("{}", (cfg.run_secs - start.elapsed().as_secs_f64()).max(0.0)))
            .stdin(Stdio::null())
            .stdout(Stdio::null())
            .stderr(errf)
            .spawn()
            .expect("spawn worker");
        w.child = Some(child);
        w.cur = None;
        w.cur_wall0 = Instant::now();
    };
    for (k, w) in ws.iter_mut().enumerate() {
        spawn(k, w);
    }
    loop {
        std::thread::sleep(Duration::from_millis(50));
        let mut all_done = true;
        for (k, w) in ws.iter_mut().enumerate() {
            if w.done {
                continue;
            }
            all_done = false;
            let pid = w.child.as_ref().map(|c| c.id()).unwrap_or(0);
            // progress
            if let Some(st) = read_status(&w.status) {
                if w.cur != Some(st) {
                    w.cur = Some(st);
                    w.cur_cpu0 = proc_cpu_secs(pid).unwrap_or(0.0);
                    w.cur_wall0 = Instant::now();
                }
            }
            let exited = w.child.as_mut().and_then(|c| c.try_wait().ok().flatten());
            if let Some(es) = exited {
                use std::os::unix::process::ExitStatusExt;
                if es.success() {
                    w.done = true;
                    continue;
                }
                // crash: classify from signal + stderr
                let errtxt = std::fs::read_to_string(&w.stderr).unwrap_or_default();
                let idx = w.cur.map(|c| c.0).unwrap_or(w.next_from);
                if w.cur.map(|c| c.2) == Some(0) {
                    // died while the harness was generating a case: not an observation about lopdf
                    out.inconclusive.push(format!("worker {} died while generating case {}: {}", k, idx, errtxt.lines().last().unwrap_or("")));
                    w.next_from = idx + 1;
                    w.restarts += 1;
                    if start.elapsed().as_secs_f64() > cfg.run_secs || w.restarts > 2000 {
                        w.done = true;
                    } else {
                        spawn(k, w);
                    }
                    continue;
                }
                let kind = if errtxt.contains("has overflowed its stack") {
                    "stack_overflow"
                } else if errtxt.contains("memory allocation of") {
                    "alloc_abort"
                } else if es.signal().is_some() {
                    "signal"
                } else {
                    "abnormal_exit"
                };
                let detail = format!("signal={:?} code={:?} stderr={:?}", es.signal(), es.code(), errtxt.lines().last().unwrap_or(""));
                crash_cases.push((k, idx, kind.to_string(), detail));
                w.next_from = idx + 1;
                w.restarts += 1;
                if start.elapsed().as_secs_f64() > cfg.run_secs || w.restarts > 2000 {
                    w.done = true;
                } else {
                    spawn(k, w);
                }
                continue;
            }
            // CPU budget of the in-flight case
            if let Some((idx, _, 0)) = w.cur {
                // generation phase: only a generous wall-clock watchdog (harness problem, never a verdict on lopdf)
                if w.cur_wall0.elapsed().as_secs_f64() > 300.0 {
                    if let Some(c) = w.child.as_mut() {
                        let _ = c.kill();
                        let _ = c.wait();
                    }
                    out.inconclusive.push(format!("worker {} spent more than 300 s generating case {}", k, idx));
                    w.next_from = idx + 1;
                    if start.elapsed().as_secs_f64() > cfg.run_secs {
                        w.done = true;
                    } else {
                        spawn(k, w);
                    }
                }
            } else if let Some((idx, len, _)) = w.cur {
                let budget = cfg.cpu_budget_base_s + cfg.cpu_budget_per_byte_s * len as f64;
                let used = proc_cpu_secs(pid).unwrap_or(0.0) - w.cur_cpu0;
                let wall = w.cur_wall0.elapsed().as_secs_f64();
                if used > budget {
                    // stack sample before the kill
                    let sample = Command::new("timeout").args(["10", "gdb", "-batch", "-p", &pid.to_string(), "-ex", "thread apply all bt 60"]).output();
                    let frames = sample.map(|o| lopdf_frames(&String::from_utf8_lossy(&o.stdout), 8)).unwrap_or_default();
                    if let Some(c) = w.child.as_mut() {
                        let _ = c.kill();
                        let _ = c.wait();
                    }
                    let what = format!("case used {:.1}s CPU (budget {:.1}s for {} input bytes)", used, budget, len);
                    out.finding(Finding {
                        signature: format!("cpu|time bound exceeded|{}", frames.join(",")),
                        what,
                        witness: json!({"kind":"case","shard":k,"index":idx,"seed":cfg.seed,"case":describe_case(k, idx)}),
                    });
                    w.next_from = idx + 1;
                    w.restarts += 1;
                    if start.elapsed().as_secs_f64() > cfg.run_secs {
                        w.done = true;
                    } else {
                        spawn(k, w);
                    }
                } else if wall > 20.0 * budget + 30.0 {
                    if let Some(c) = w.child.as_mut() {
                        let _ = c.kill();
                        let _ = c.wait();
                    }
                    out.inconclusive.push(format!("worker {} case {} made no progress for {:.0}s wall but only {:.1}s CPU (machine starved?)", k, idx, wall, used));
                    w.next_from = idx + 1;
                    if start.elapsed().as_secs_f64() > cfg.run_secs {
                        w.done = true;
                    } else {
                        spawn(k, w);
                    }
                }
            }
        }
        if all_done {
            break;
        }
        if start.elapsed().as_secs_f64() > cfg.run_secs + 120.0 {
            for w in ws.iter_mut() {
                if let Some(c) = w.child.as_mut() {
                    let _ = c.kill();
                    let _ = c.wait();
                }
            }
            out.inconclusive.push("supervisor watchdog: workers did not finish 120 s after the deadline".into());
            break;
        }
    }
    // triage crashes (dedupe by kind + index first; at most 40 gdb runs)
    let mut seen_sig: BTreeSet<String> = BTreeSet::new();
    let mut gdb_runs = 0;
    for (k, idx, kind, detail) in &crash_cases {
        out.count(&format!("crash:{}", kind));
        if gdb_runs >= 40 {
            continue;
        }
        gdb_runs += 1;
        let (frames, sig) = gdb_triage(&exe, &one_args(*k, *idx), 120);
        let msg = match kind.as_str() {
            "stack_overflow" => "stack overflow".to_string(),
            "alloc_abort" => "memory allocation failed".to_string(),
            _ => format!("process died {}", sig),
        };
        let signature = format!("{}|{}|{}", kind, msg, frames.join(","));
        if seen_sig.insert(signature.clone()) {
            out.finding(Finding {
                signature,
                what: format!("worker process crashed: {} ({})", msg, detail),
                witness: json!({"kind":"case","shard":k,"index":idx,"seed":cfg.seed,"case":describe_case(*k, *idx)}),
            });
        }
    }
    // collect worker logs
    let mut cases = 0u64;
    let mut per_sig: std::collections::BTreeMap<String, u64> = std::collections::BTreeMap::new();
    for (k, w) in ws.iter().enumerate() {
        let Ok(text) = std::fs::read_to_string(&w.log) else { continue };
        for line in text.lines() {
            let Ok(v) = serde_json::from_str::<Value>(line) else { continue };
            match v["t"].as_str() {
                Some("summary") => {
                    cases += v["cases"].as_u64().unwrap_or(0);
                    if let Some(m) = v["counters"].as_object() {
                        for (kk, vv) in m {
                            if kk.starts_with("max_") {
                                out.max(kk, vv.as_u64().unwrap_or(0));
                            } else {
                                out.add(kk, vv.as_u64().unwrap_or(0));
                            }
                        }
                    }
                    if let Some(a) = v["digests"].as_array() {
                        out.digests.extend(a.iter().filter_map(|x| x.as_u64()));
                    }
                    if let Some(a) = v["samples"].as_array() {
                        for s in a {
                            out.sample(s.clone());
                        }
                    }
                }
                Some("finding") => {
                    let idx = v["index"].as_u64().unwrap_or(0);
                    // describing a case regenerates and serialises its document: do it for the first two cases of
                    // a signature only, further ones are counted (a broken tree can fail thousands of cases)
                    let n = per_sig.entry(v["signature"].as_str().unwrap_or("").to_string()).or_insert(0u64);
                    *n += 1;
                    if *n > 2 {
                        out.add("findings_beyond_two_per_signature", 1);
                        continue;
                    }
                    out.finding(Finding {
                        signature: v["signature"].as_str().unwrap_or("").to_string(),
                        what: v["what"].as_str().unwrap_or("").to_string(),
                        witness: json!({"kind":"case","shard":k,"index":idx,"seed":cfg.seed,"case":describe_case(k, idx)}),
                    });
                }
                _ => {}
            }
        }
    }
    out.evaluations = cases;
    SupResult { out, cases_run: cases }
}
