//! vh — verification harness for lopdf (runtime monitoring). See /verif/DESIGN.md.
//!   vh run <ID> --tier quick|thorough [--seed N] [--sub <out.json>]
//!   vh replay <ID> <witness.json>
//!   vh selftest

mod bridge;
mod encmodel;
mod gen;
mod monitor;
mod prng;
mod props;
mod refimpl;
mod util;

use serde_json::{json, Map, Value};
use std::path::PathBuf;
use std::time::Instant;
use util::*;

#[global_allocator]
static GLOBAL: monitor::CountingAlloc = monitor::CountingAlloc;

fn verif_dir() -> PathBuf {
    std::env::var("VERIF_DIR").map(PathBuf::from).unwrap_or_else(|_| PathBuf::from("/verif"))
}

type RunFn = fn(&RunCfg) -> (PropMeta, ShardOut, Map<String, Value>);
type ReplayFn = fn(&Value) -> Vec<Finding>;

fn table(id: &str) -> Option<(RunFn, ReplayFn)> {
    Some(match id {
        "C01" => (props::c01::run, props::c01::replay),
        "C02" => (props::c02::run, props::c02::replay),
        "C03" => (props::c03::run, props::c03::replay),
        "C04" => (props::c04::run, props::c04::replay),
        "C05" => (props::c05::run_c05, props::c05::replay_c05),
        "C06" => (props::c05::run_c06, props::c05::replay_c06),
        "C07" => (props::c07::run, props::c07::replay),
        #[cfg(not(feature = "nohook"))]
        "C08" => (props::c08::run, props::c08::replay),
        "C09" => (props::c09::run, props::c09::replay),
        "C10" => (props::c10::run, props::c10::replay),
        "C11" => (props::c11::run, props::c11::replay),
        "C12" => (props::c12::run, props::c12::replay),
        "C13" => (props::c13::run, props::c13::replay),
        "C14" => (props::c14::run, props::c14::replay),
        "C15" => (props::c15::run, props::c15::replay),
        "C16" => (props::c16::run, props::c16::replay),
        "C17" => (props::c17::run, props::c17::replay),
        "C18" => (props::c18::run, props::c18::replay),
        "C19" => (props::c19::run, props::c19::replay),
        _ => return None,
    })
}

fn shardout_to_json(o: &ShardOut) -> Value {
    json!({
        "evaluations": o.evaluations,
        "digests": o.digests.iter().collect::<Vec<_>>(),
        "samples": o.samples,
        "counters": o.counters,
        "findings": o.findings.iter().map(|f| json!({"signature":f.signature,"what":f.what,"witness":f.witness})).collect::<Vec<_>>(),
        "inconclusive": o.inconclusive,
    })
}

pub fn shardout_from_json(v: &Value) -> ShardOut {
    let mut o = ShardOut::default();
    o.evaluations = v["evaluations"].as_u64().unwrap_or(0);
    if let Some(a) = v["digests"].as_array() {
        o.digests = a.iter().filter_map(|x| x.as_u64()).collect();
    }
    if let Some(a) = v["samples"].as_array() {
        o.samples = a.clone();
    }
    if let Some(m) = v["counters"].as_object() {
        for (k, x) in m {
            o.counters.insert(k.clone(), x.as_u64().unwrap_or(0));
        }
    }
    if let Some(a) = v["findings"].as_array() {
        for f in a {
            o.findings.push(Finding {
                signature: f["signature"].as_str().unwrap_or("").into(),
                what: f["what"].as_str().unwrap_or("").into(),
                witness: f["witness"].clone(),
            });
        }
    }
    if let Some(a) = v["inconclusive"].as_array() {
        o.inconclusive = a.iter().filter_map(|x| x.as_str().map(|s| s.to_string())).collect();
    }
    o
}

fn main() {
    let args: Vec<String> = std::env::args().collect();
    if args.len() < 2 {
        eprintln!("usage: vh run <ID> --tier T | replay <ID> <file> | selftest");
        std::process::exit(2);
    }
    // silence lopdf's log output (no logger installed) and panic backtraces by default
    match args[1].as_str() {
        "worker" => {
            match args[2].as_str() {
                "C04" => props::c04::worker_main(&args[3..]),
                "C12" => props::c12::worker_main(&args[3..]),
                "C13" => props::c13::worker_main(&args[3..]),
                other => {
                    eprintln!("no worker for {}", other);
                    std::process::exit(2);
                }
            }
            std::process::exit(0);
        }
        #[cfg(not(feature = "nohook"))]
        "c08-encfile" => {
            // debugging aid: what does the encrypted-file stage's file #i load to?
            let i: u64 = args.get(2).and_then(|x| x.parse().ok()).unwrap_or(0);
            match props::c08::gen_encrypted_file(1, i) {
                None => println!("not built"),
                Some(b) => match lopdf::Document::load_mem(&b) {
                    Err(e) => println!("load error {:?}", e),
                    Ok(d) => println!("{} bytes, {} objects, encrypted={}, object 50 = {:?}", b.len(), d.objects.len(), d.is_encrypted(), d.objects.get(&(50, 0))),
                },
            }
            std::process::exit(0);
        }
        #[cfg(not(feature = "nohook"))]
        "c08-filtered" => {
            props::c08::filtered_child_main(&args[2..]);
            std::process::exit(0);
        }
        "selftest" => {
            let mut ok = true;
            let mut tests = refimpl::selftests();
            tests.push(("refwriter<->strictreader", props::c02::mutual_selftest(400)));
            for (name, r) in tests {
                match r {
                    Ok(()) => println!("selftest {}: ok", name),
                    Err(e) => {
                        ok = false;
                        println!("selftest {}: FAILED: {}", name, e)
                    }
                }
            }
            std::process::exit(if ok { 0 } else { 2 });
        }
        "run" => {
            let id = args[2].clone();
            let mut tier = Tier::Quick;
            let mut seed: u64 = std::env::var("VERIF_SEED").ok().and_then(|s| s.parse().ok()).unwrap_or(1);
            let mut sub: Option<String> = None;
            let mut merge: Option<String> = None;
            let mut i = 3;
            while i < args.len() {
                match args[i].as_str() {
                    "--tier" => {
                        tier = if args[i + 1] == "thorough" { Tier::Thorough } else { Tier::Quick };
                        i += 1;
                    }
                    "--seed" => {
                        seed = args[i + 1].parse().unwrap_or(1);
                        i += 1;
                    }
                    "--merge" => {
                        merge = Some(args[i + 1].clone());
                        i += 1;
                    }
                    "--sub" => {
                        sub = Some(args[i + 1].clone());
                        i += 1;
                    }
                    _ => {}
                }
                i += 1;
            }
            let cfg = RunCfg {
                prop: id.clone(),
                tier,
                seed,
                threads: std::env::var("VERIF_THREADS").ok().and_then(|s| s.parse().ok()).unwrap_or(16),
                verif_dir: verif_dir(),
                start: Instant::now(),
                scale: std::env::var("VERIF_SCALE").ok().and_then(|s| s.parse().ok()).unwrap_or(1.0),
            };
            let Some((run, replay)) = table(&id) else {
                eprintln!("unknown property {}", id);
                std::process::exit(2);
            };
            props::install_quiet_panic_hook();
            if let Some(m) = &merge {
                std::env::set_var("VH_MERGE_FILE", m);
            }
            let _ = KNOWN.set(load_known(&cfg.verif_dir).into_iter().filter(|k| k.property == id).collect());
            let (meta, mut out, mut extra) = run(&cfg);
            if let Some(path) = merge {
                // observations of the same workload made by the other feature build (sequential reader)
                match std::fs::read_to_string(&path).ok().and_then(|s| serde_json::from_str::<Value>(&s).ok()) {
                    Some(v) => {
                        let mut o = shardout_from_json(&v);
                        // (the per-file digests the two builds are compared on are not repeated in the evidence)
                        let counters: std::collections::BTreeMap<&String, &u64> = o.counters.iter().filter(|(k, _)| !k.starts_with("digest:")).collect();
                        extra.insert("seq_build".into(), json!({"evaluations": o.evaluations, "distinct": o.digests.len(), "files_digested": o.counters.keys().filter(|k| k.starts_with("digest:")).count(), "counters": counters}));
                        o.counters.clear();
                        o.samples.clear();
                        out.merge(o);
                    }
                    None => out.inconclusive.push(format!("could not read sub-run result {}", path)),
                }
            }
            if let Some(path) = sub {
                // sub-run (other feature build): hand the raw observations to the parent
                let _ = std::fs::write(&path, serde_json::to_string(&shardout_to_json(&out)).unwrap());
                std::process::exit(0);
            }
            // witness-replay stage for committed known / fixed findings
            let mut wr = vec![];
            for k in load_known(&cfg.verif_dir).into_iter().filter(|k| k.property == id) {
                let still = match &k.witness {
                    Some(w) => {
                        let p = cfg.verif_dir.join(w);
                        match std::fs::read_to_string(&p).ok().and_then(|s| serde_json::from_str::<Value>(&s).ok()) {
                            Some(v) => {
                                let mut wv = v.get("witness").unwrap_or(&v).clone();
                                if wv.get("signature").is_none() {
                                    if let (Some(o), Some(sg)) = (wv.as_object_mut(), v.get("signature")) {
                                        o.insert("signature".into(), sg.clone());
                                    }
                                }
                                let fs = replay(&wv);
                                if k.status == "fixed" {
                                    // a repaired defect must not fail in any way on its witness
                                    !fs.is_empty()
                                } else {
                                    fs.iter().any(|f| signature_matches(&k.signature, &f.signature))
                                }
                            }
                            None => false,
                        }
                    }
                    None => false,
                };
                wr.push((k, still));
            }
            let o = finish(&cfg, &meta, out, &wr, extra);
            std::process::exit(o.exit);
        }
        "replay" => {
            let id = args[2].clone();
            let Some((_, replay)) = table(&id) else {
                eprintln!("unknown property {}", id);
                std::process::exit(2);
            };
            props::install_quiet_panic_hook();
            let s = std::fs::read_to_string(&args[3]).expect("read witness");
            let v: Value = serde_json::from_str(&s).expect("json");
            let mut wv = v.get("witness").unwrap_or(&v).clone();
            if wv.get("signature").is_none() {
                if let (Some(o), Some(sg)) = (wv.as_object_mut(), v.get("signature")) {
                    o.insert("signature".into(), sg.clone());
                }
            }
            let fs = replay(&wv);
            if fs.is_empty() {
                println!("replay: property held on this witness");
                std::process::exit(0);
            }
            for f in fs {
                println!("VIOLATION property={} replay={}", id, args[3]);
                println!("  signature: {}\n  what: {}", f.signature, f.what);
            }
            std::process::exit(1);
        }
        _ => {
            eprintln!("unknown command");
            std::process::exit(2);
        }
    }
}
