//! C15 — ToUnicode CMaps decode text as the CMap defines.
//! Oracle: mapping-table model (definition order, last definition wins) from refimpl::cmap_ref.
//! Path: font dictionary -> Dictionary::get_font_encoding(&doc) -> Document::decode_text.

use crate::prng::Rng;
use crate::refimpl::cmap_ref::*;
use crate::refimpl::codecs;
use crate::util::*;
use lopdf::{Dictionary, Document, Object, Stream};
use serde_json::{json, Map, Value};

pub const TAG: &str = "C15";

pub fn decode_with_lopdf(cmap: &[u8], compress: bool, identity: u8, texts: &[Vec<u8>], r: &mut Rng) -> Result<Vec<String>, String> {
    let mut doc = Document::new();
    let mut sd = Dictionary::new();
    let body = if compress {
        sd.set("Filter", Object::Name(b"FlateDecode".to_vec()));
        codecs::zlib_encode(cmap, codecs::ZMode::Mixed, r)
    } else {
        cmap.to_vec()
    };
    let sid = doc.add_object(Object::Stream(Stream::new(sd, body)));
    let mut font = Dictionary::new();
    font.set("Type", Object::Name(b"Font".to_vec()));
    font.set("Subtype", Object::Name(b"Type0".to_vec()));
    match identity {
        0 => font.set("Encoding", Object::Name(b"Identity-H".to_vec())),
        1 => font.set("Encoding", Object::Name(b"Identity-V".to_vec())),
        _ => {}
    }
    font.set("ToUnicode", Object::Reference(sid));
    let enc = font.get_font_encoding(&doc).map_err(|e| format!("get_font_encoding failed: {:?}", e))?;
    if !matches!(enc, lopdf::Encoding::UnicodeMapEncoding(_)) {
        return Err("get_font_encoding did not pick the ToUnicode CMap".into());
    }
    texts.iter().map(|t| Document::decode_text(&enc, t).map_err(|e| format!("decode_text failed: {:?}", e))).collect()
}

fn defs_json(defs: &[Def]) -> Value {
    Value::Array(
        defs.iter()
            .map(|d| match &d.target {
                Target::Single(t) => json!({"len":d.len,"lo":d.lo,"hi":d.hi,"single":t,"as_char":d.as_char}),
                Target::Array(a) => json!({"len":d.len,"lo":d.lo,"hi":d.hi,"array":a,"as_char":false}),
            })
            .collect(),
    )
}
fn defs_from_json(v: &Value) -> Option<Vec<Def>> {
    v.as_array()?
        .iter()
        .map(|d| {
            let units = |x: &Value| -> Option<Vec<u16>> { x.as_array()?.iter().map(|u| u.as_u64().map(|u| u as u16)).collect() };
            let target = if let Some(s) = d.get("single") { Target::Single(units(s)?) } else { Target::Array(d.get("array")?.as_array()?.iter().map(units).collect::<Option<Vec<_>>>()?) };
            Some(Def { len: d["len"].as_u64()? as u8, lo: d["lo"].as_u64()? as u32, hi: d["hi"].as_u64()? as u32, target, as_char: d["as_char"].as_bool().unwrap_or(false) })
        })
        .collect()
}

/// which mechanism a failing (definition list, code) pair exercises — the finding's signature
fn classify(defs: &[Def], len: u8, code: u32) -> String {
    // the winning definition and whether another definition touches or overlaps it
    let Some(wi) = defs.iter().rposition(|d| d.len == len && d.lo <= code && code <= d.hi) else { return "unmapped".into() };
    let w = &defs[wi];
    let kind = match &w.target {
        Target::Single(t) if t.len() == 1 => "single-unit",
        Target::Single(_) => "multi-unit",
        Target::Array(_) => "array",
    };
    let overlapped_later = defs[wi + 1..].iter().any(|d| d.len == len && d.lo <= w.hi && w.lo <= d.hi);
    let overlaps_earlier = defs[..wi].iter().any(|d| d.len == len && d.lo <= w.hi && w.lo <= d.hi);
    let adjacent_equal = defs.iter().enumerate().any(|(i, d)| i != wi && d.len == len && (d.hi.wrapping_add(1) == w.lo || w.hi.wrapping_add(1) == d.lo) && d.target == w.target);
    let ctx = if overlapped_later { "split-by-later-definition" } else if adjacent_equal { "adjacent-equal-target" } else if overlaps_earlier { "overrides-earlier" } else { "isolated" };
    format!("{}/{}/{}", if w.as_char { "bfchar" } else { "bfrange" }, kind, ctx)
}

pub fn check(defs: &[Def], cmap: &[u8], compress: bool, identity: u8, r: &mut Rng) -> Option<(String, String)> {
    let codes = mapped_codes(defs, 4000);
    if codes.is_empty() {
        return None;
    }
    // one text per code (so a failure names the code) + a few long mixed strings
    let mut texts: Vec<Vec<u8>> = vec![];
    let mut which: Vec<Vec<(u8, u32)>> = vec![];
    let mut uniq = codes.clone();
    uniq.sort();
    uniq.dedup();
    for (l, c) in uniq.iter().take(600) {
        texts.push(code_bytes(*l, *c));
        which.push(vec![(*l, *c)]);
    }
    for _ in 0..6 {
        let n = 1 + r.usize_below(30);
        let seq: Vec<(u8, u32)> = (0..n).map(|_| *r.pick(&uniq)).collect();
        texts.push(seq.iter().flat_map(|(l, c)| code_bytes(*l, *c)).collect());
        which.push(seq);
    }
    let got = match crate::props::catch(|| decode_with_lopdf(cmap, compress, identity, &texts, r)) {
        Err(p) => return Some(("panic".into(), format!("decoding panicked: {}", p))),
        Ok(Err(e)) => return Some(("error".into(), e)),
        Ok(Ok(g)) => g,
    };
    for (i, seq) in which.iter().enumerate() {
        let mut units: Vec<u16> = vec![];
        for (l, c) in seq {
            units.extend(lookup(defs, *l, *c).unwrap_or_default());
        }
        let exp = String::from_utf16_lossy(&units);
        if got[i] != exp {
            let (l, c) = seq[0];
            let sig = if seq.len() == 1 { classify(defs, l, c) } else { "sequence".into() };
            return Some((
                sig,
                format!("code <{}> (string of {} codes) decodes to {:?} (U+{}), the CMap defines {:?} (U+{})", crate::util::hex(&code_bytes(l, c)), seq.len(), got[i], got[i].chars().map(|ch| format!("{:04X}", ch as u32)).collect::<Vec<_>>().join(" "), exp, exp.chars().map(|ch| format!("{:04X}", ch as u32)).collect::<Vec<_>>().join(" ")),
            ));
        }
    }
    None
}

pub fn run(cfg: &RunCfg) -> (PropMeta, ShardOut, Map<String, Value>) {
    let n = cfg.n(12_000, 600_000);
    let per = (n as usize + cfg.threads - 1) / cfg.threads;
    let out = shards(cfg.threads, |shard| {
        let mut out = ShardOut::default();
        for i in 0..per {
            let mut r = Rng::for_case(cfg.seed, TAG, shard as u64, i as u64);
            let defs = gen_defs(&mut r);
            let cmap = render(&defs, &mut r);
            let compress = r.chance(1, 3);
            let identity = r.below(3) as u8;
            out.evaluations += 1;
            out.add("definitions", defs.len() as u64);
            out.add("bfchar_definitions", defs.iter().filter(|d| d.as_char).count() as u64);
            out.add("array_target_ranges", defs.iter().filter(|d| matches!(d.target, Target::Array(_))).count() as u64);
            out.add("multi_unit_targets", defs.iter().filter(|d| matches!(&d.target, Target::Single(t) if t.len() > 1)).count() as u64);
            for l in 1..=4u8 {
                if defs.iter().any(|d| d.len == l) {
                    out.count(&format!("cmaps_with_{}byte_codes", l));
                }
            }
            out.digests.insert(crate::prng::fnv_bytes(&cmap));
            if let Some((sig, what)) = check(&defs, &cmap, compress, identity, &mut r) {
                out.finding(Finding { signature: format!("C15/{}", sig), what, witness: json!({"kind":"cmap","defs":defs_json(&defs),"cmap_text":String::from_utf8_lossy(&cmap),"cmap_hex":hex(&cmap)}) });
            }
            if i == 0 {
                out.sample(json!({"cmap": String::from_utf8_lossy(&cmap).chars().take(500).collect::<String>()}));
            }
        }
        out
    });
    let meta = PropMeta {
        level: "exploration",
        rule: "random mapping tables (1..40 definitions over 1..4-byte prefix-free code sets; bfchar, single-target incrementing ranges with 1..4-unit targets incl. surrogate pairs, array-target ranges; definitions started next to / inside / on top of earlier ones, some repeating the destination of that earlier one, so adjacency, overlap and overriding occur) rendered as CMap text with random sectioning (<=100 entries per section), EOL style, spacing and hex case, optionally Flate-compressed, reached through a font dictionary with Encoding Identity-H / Identity-V / absent; every mapped code (up to 600) decoded on its own plus mixed strings. Expected text = model targets decoded as UTF-16. distinct = distinct CMap texts.".into(),
        assumptions: vec![
            "targets are well-formed UTF-16 and range increments stay inside the BMP block / low-surrogate block they start in (so lossy decoding cannot blur the comparison)".into(),
            "code sets are prefix-free across code lengths (the first bytes are split into four quarters, assigned to the code lengths in a rotation chosen per CMap, so long codes may begin with 00 bytes), three ranges in four vary only their last byte, the others may run across 256-code blocks (merged ranges, identity maps)".into(),
        ],
        exhaustive: false,
        min_distinct: 500,
    };
    (meta, out, Map::new())
}

pub fn replay(w: &Value) -> Vec<Finding> {
    let Some(defs) = w.get("defs").and_then(defs_from_json) else { return vec![] };
    let cmap = unhex(w.get("cmap_hex").and_then(|x| x.as_str()).unwrap_or(""));
    let mut r = Rng::new(1);
    check(&defs, &cmap, false, 0, &mut r).map(|(s, what)| Finding { signature: format!("C15/{}", s), what, witness: w.clone() }).into_iter().collect()
}
