//! C17 — bookmarks become a well-formed outline that reads back.
//! Model: a forest of (title, page, children). Oracle: link consistency of the objects created by
//! build_outline, fresh ids, titles/destinations per item, and get_toc() == pre-order of the model
//! before and after save + load.

use crate::bridge::*;
use crate::prng::Rng;
use crate::refimpl::robj::{RDoc, RObj};
use crate::util::*;
use lopdf::{Bookmark, Dictionary, Document, Object, ObjectId};
use serde_json::{json, Map, Value};
use std::collections::{BTreeSet, HashSet};

pub const TAG: &str = "C17";

#[derive(Clone, Debug)]
pub struct BNode {
    pub title: String,
    /// index into the page list, or None for a zero-page parent
    pub page: Option<usize>,
    pub parent: Option<usize>,
}

#[derive(Clone, Debug)]
pub struct BCase {
    pub n_pages: usize,
    /// in insertion order; parent index refers to an earlier node
    pub nodes: Vec<BNode>,
    pub xref_stream: bool,
    /// object numbers handed out by new_object_id() before the outline is built and filled in only afterwards
    pub reserved: u8,
    /// how page object numbers relate to page order: 0 ascending, 1 descending, 2 rotated by one
    pub id_order: u8,
}

fn k(s: &str) -> Vec<u8> {
    s.as_bytes().to_vec()
}

fn random_title(r: &mut Rng, used: &mut HashSet<String>) -> String {
    loop {
        let n = match r.below(8) {
            0 => 0,
            1 => 1,
            _ => 1 + r.usize_below(12),
        };
        let class = r.below(5);
        let s: String = (0..n)
            .map(|_| loop {
                let c = match class {
                    0 => 0x20 + r.below(0x5f) as u32,
                    1 => r.below(0x80) as u32,
                    2 => r.below(0x3000) as u32,
                    3 => 0x10000 + r.below(0xFFFFF) as u32,
                    _ => r.below(0x110000) as u32,
                };
                if let Some(ch) = char::from_u32(c) {
                    break ch;
                }
            })
            .collect();
        if used.insert(s.clone()) {
            return s;
        }
    }
}

pub fn gen_case(r: &mut Rng) -> BCase {
    let n_pages = 1 + r.usize_below(12);
    let cap = match r.below(4) {
        0 => 3,
        1 => 60,
        _ => 15,
    };
    // one forest in sixteen is (nearly) a single chain of 50..250 bookmarks: nesting up to the 256 levels that the
    // outline walker follows
    let chain = r.chance(1, 16);
    // (a quarter of the chains are pure and end exactly at, or one level above, the deepest level that is followed)
    let pure = chain && r.chance(1, 4);
    let n = if pure { 256 + r.usize_below(2) } else if chain { 50 + r.usize_below(201) } else { 1 + r.usize_below(cap) };
    let deep = r.chance(1, 4);
    let mut used = HashSet::new();
    let mut nodes: Vec<BNode> = vec![];
    for i in 0..n {
        let parent = if chain && i > 0 {
            // now and then a second child of the grandparent instead of a deeper level
            Some(if !pure && i > 1 && r.chance(1, 12) { i - 2 } else { i - 1 })
        } else if i == 0 || r.chance(1, 4) {
            None
        } else if deep {
            Some(i - 1 - r.usize_below((i).min(2)))
        } else {
            Some(r.usize_below(i))
        };
        nodes.push(BNode { title: random_title(r, &mut used), page: Some(r.usize_below(n_pages)), parent });
    }
    // zero-page parents: only nodes that have children
    let parents: BTreeSet<usize> = nodes.iter().filter_map(|n| n.parent).collect();
    for p in parents {
        if r.chance(1, 3) {
            nodes[p].page = None;
        }
    }
    let xref_stream = r.bool();
    let reserved = if r.chance(1, 3) { 1 + r.below(3) as u8 } else { 0 };
    let id_order = if r.chance(1, 3) { 1 + r.below(2) as u8 } else { 0 };
    BCase { n_pages, nodes, xref_stream, reserved, id_order }
}

struct Built {
    doc: Document,
    pages: Vec<ObjectId>,
    catalog: ObjectId,
    old_ids: BTreeSet<ObjectId>,
    old_max: u32,
    outline: Option<ObjectId>,
}

fn build(c: &BCase) -> Built {
    let mut d = RDoc::new();
    let name = |s: &str| RObj::Name(s.as_bytes().to_vec());
    let mut kids = vec![];
    let mut pages = vec![];
    for i in 0..c.n_pages {
        let slot = match c.id_order {
            1 => c.n_pages - 1 - i,
            2 => (i + 1) % c.n_pages,
            _ => i,
        };
        let id = (10 + 2 * slot as u32, 0u16);
        d.objects.insert(id, RObj::Dict(vec![(k("Type"), name("Page")), (k("Parent"), RObj::Ref(2, 0))]));
        kids.push(RObj::Ref(id.0, 0));
        pages.push(id);
    }
    d.objects.insert((2, 0), RObj::Dict(vec![(k("Type"), name("Pages")), (k("Kids"), RObj::Array(kids)), (k("Count"), RObj::Int(c.n_pages as i64))]));
    d.objects.insert((1, 0), RObj::Dict(vec![(k("Type"), name("Catalog")), (k("Pages"), RObj::Ref(2, 0))]));
    d.trailer = vec![(k("Root"), RObj::Ref(1, 0))];
    let mut doc = to_lo_doc(&d, c.xref_stream);
    let mut ids: Vec<u32> = vec![];
    for n in &c.nodes {
        let page = n.page.map(|p| pages[p]).unwrap_or((0, 0));
        let id = doc.add_bookmark(Bookmark::new(n.title.clone(), [0.1, 0.2, 0.3], 0, page), n.parent.map(|p| ids[p]));
        ids.push(id);
    }
    // numbers reserved by the application (to be filled in after the outline exists) are taken as well
    let reserved: Vec<ObjectId> = (0..c.reserved).map(|_| doc.new_object_id()).collect();
    let mut old_ids: BTreeSet<ObjectId> = doc.objects.keys().cloned().collect();
    old_ids.extend(reserved.iter().cloned());
    let old_max = doc.max_id;
    doc.adjust_zero_pages();
    let outline = doc.build_outline();
    for id in &reserved {
        if doc.objects.contains_key(id) {
            // reported by the fresh-id check below (the number is <= old_max); do not overwrite the evidence
            continue;
        }
        doc.objects.insert(*id, Object::Dictionary(lopdf::dictionary! { "Reserved" => true }));
    }
    if let Some(n) = outline {
        if let Ok(Object::Dictionary(dict)) = doc.get_object_mut((1, 0)) {
            dict.set("Outlines", Object::Reference(n));
        }
    }
    Built { doc, pages, catalog: (1, 0), old_ids, old_max, outline }
}

fn children_of(c: &BCase, p: Option<usize>) -> Vec<usize> {
    (0..c.nodes.len()).filter(|i| c.nodes[*i].parent == p).collect()
}

/// documented fix-up rule: a zero-page parent takes the page of its first child that has one
fn eff_page(c: &BCase, i: usize) -> Option<usize> {
    if let Some(p) = c.nodes[i].page {
        return Some(p);
    }
    for ch in children_of(c, Some(i)) {
        if let Some(p) = eff_page(c, ch) {
            return Some(p);
        }
    }
    None
}

fn decode_title(b: &[u8]) -> String {
    if b.len() >= 2 && b[0] == 0xFE && b[1] == 0xFF {
        let u: Vec<u16> = b[2..].chunks(2).map(|c| ((c[0] as u16) << 8) | *c.get(1).unwrap_or(&0) as u16).collect();
        String::from_utf16_lossy(&u)
    } else {
        // PDFDocEncoding for the ASCII range
        b.iter().map(|c| *c as char).collect()
    }
}

fn get_ref(d: &Dictionary, key: &[u8]) -> Option<ObjectId> {
    d.get(key).ok().and_then(|o| o.as_reference().ok())
}

fn check_links(c: &BCase, b: &Built) -> Option<(String, String)> {
    let Some(root) = b.outline else {
        return if c.nodes.is_empty() { None } else { Some(("no-outline".into(), "build_outline returned None for a non-empty forest".into())) };
    };
    // fresh ids
    let new_ids: Vec<ObjectId> = b.doc.objects.keys().filter(|id| !b.old_ids.contains(id)).cloned().collect();
    for id in &new_ids {
        if id.0 <= b.old_max {
            return Some(("stale-id".into(), format!("outline object {:?} reuses a number <= previous max_id {}", id, b.old_max)));
        }
    }
    if b.doc.max_id < new_ids.iter().map(|x| x.0).max().unwrap_or(0) {
        return Some(("max_id".into(), "max_id is below the highest outline object number".into()));
    }
    if new_ids.len() != 1 + 2 * c.nodes.len() {
        return Some(("object-count".into(), format!("{} new objects for {} bookmarks (expected {})", new_ids.len(), c.nodes.len(), 1 + 2 * c.nodes.len())));
    }
    // walk the model and the objects in lock-step
    fn walk(c: &BCase, b: &Built, parent_model: Option<usize>, parent_obj: ObjectId, seen: &mut HashSet<ObjectId>) -> Option<(String, String)> {
        let kids = children_of(c, parent_model);
        let pd = match b.doc.get_dictionary(parent_obj) {
            Ok(d) => d,
            Err(_) => return Some(("links".into(), format!("{:?} is not a dictionary", parent_obj))),
        };
        if kids.is_empty() {
            if pd.has(b"First") || pd.has(b"Last") {
                return Some(("links".into(), format!("{:?} has First/Last but no children in the model", parent_obj)));
            }
            return None;
        }
        let mut cur = match get_ref(pd, b"First") {
            Some(f) => f,
            None => return Some(("links".into(), format!("{:?} lacks First", parent_obj))),
        };
        let mut prev: Option<ObjectId> = None;
        for (n, ki) in kids.iter().enumerate() {
            if !seen.insert(cur) {
                return Some(("links".into(), format!("outline item {:?} is linked twice", cur)));
            }
            let d = match b.doc.get_dictionary(cur) {
                Ok(d) => d,
                Err(_) => return Some(("links".into(), format!("outline item {:?} missing", cur))),
            };
            if get_ref(d, b"Parent") != Some(parent_obj) {
                return Some(("links".into(), format!("item {:?}: Parent is {:?}, expected {:?}", cur, get_ref(d, b"Parent"), parent_obj)));
            }
            if get_ref(d, b"Prev") != prev {
                return Some(("links".into(), format!("item {:?}: Prev is {:?}, expected {:?}", cur, get_ref(d, b"Prev"), prev)));
            }
            // title
            let title = d.get(b"Title").ok().and_then(|t| t.as_str().ok()).map(decode_title);
            if title.as_deref() != Some(c.nodes[*ki].title.as_str()) {
                return Some(("title".into(), format!("item {:?}: title {:?}, model {:?}", cur, title, c.nodes[*ki].title)));
            }
            // destination
            let page = eff_page(c, *ki).map(|p| b.pages[p]);
            let dest = b.doc.get_dict_in_dict(d, b"A").ok().and_then(|a| a.get(b"D").ok()).and_then(|x| x.as_array().ok()).and_then(|a| a.first()).and_then(|p| p.as_reference().ok());
            if dest != page {
                return Some(("destination".into(), format!("item {:?} ({:?}): destination page {:?}, model {:?}", cur, c.nodes[*ki].title, dest, page)));
            }
            if let Some(e) = walk(c, b, Some(*ki), cur, seen) {
                return Some(e);
            }
            let next = get_ref(d, b"Next");
            if n + 1 == kids.len() {
                if next.is_some() {
                    return Some(("links".into(), format!("last item {:?} has a Next", cur)));
                }
                if get_ref(pd, b"Last") != Some(cur) {
                    return Some(("links".into(), format!("{:?}: Last is {:?}, expected {:?}", parent_obj, get_ref(pd, b"Last"), cur)));
                }
            } else {
                match next {
                    Some(nx) => {
                        prev = Some(cur);
                        cur = nx;
                    }
                    None => return Some(("links".into(), format!("item {:?} lacks Next but {} siblings follow in the model", cur, kids.len() - n - 1))),
                }
            }
        }
        None
    }
    let mut seen = HashSet::new();
    walk(c, b, None, root, &mut seen)
}

fn expected_toc(c: &BCase) -> Vec<(String, usize, usize)> {
    fn rec(c: &BCase, p: Option<usize>, level: usize, out: &mut Vec<(String, usize, usize)>) {
        for i in children_of(c, p) {
            if let Some(pg) = eff_page(c, i) {
                out.push((c.nodes[i].title.clone(), level, pg + 1));
            }
            rec(c, Some(i), level + 1, out);
        }
    }
    let mut out = vec![];
    rec(c, None, 1, &mut out);
    out
}

fn check_toc(doc: &Document, exp: &[(String, usize, usize)], when: &str) -> Option<(String, String)> {
    match crate::props::catch(|| doc.get_toc()) {
        Err(p) => Some(("toc-panic".into(), format!("get_toc panicked {}: {}", when, p))),
        Ok(Err(e)) => Some(("toc-error".into(), format!("get_toc failed {}: {:?}", when, e))),
        Ok(Ok(t)) => {
            let got: Vec<(String, usize, usize)> = t.toc.iter().map(|e| (e.title.clone(), e.level, e.page)).collect();
            if got != exp {
                let at = got.iter().zip(exp).position(|(a, b)| a != b).unwrap_or(got.len().min(exp.len()));
                Some((
                    format!("toc-{}", if got.len() != exp.len() { "length" } else if got.get(at).map(|g| &g.0) != exp.get(at).map(|e| &e.0) { "title-or-order" } else if got.get(at).map(|g| g.1) != exp.get(at).map(|e| e.1) { "level" } else { "page" }),
                    format!("get_toc {} returns {} entries, model has {}; first difference at {}: {:?} vs {:?}", when, got.len(), exp.len(), at, got.get(at), exp.get(at)),
                ))
            } else if !t.errors.is_empty() {
                Some(("toc-errors".into(), format!("get_toc {} reported errors: {:?}", when, t.errors)))
            } else {
                None
            }
        }
    }
}

pub fn run_case(c: &BCase) -> Option<(String, String)> {
    let b = match crate::props::catch(|| build(c)) {
        Ok(b) => b,
        Err(p) => return Some(("build-panic".into(), format!("building the outline panicked: {}", p))),
    };
    let _ = b.catalog;
    if let Some(e) = check_links(c, &b) {
        return Some(e);
    }
    let exp = expected_toc(c);
    if let Some(e) = check_toc(&b.doc, &exp, "before saving") {
        return Some(e);
    }
    let mut bytes = vec![];
    let mut d2 = b.doc.clone();
    if let Err(e) = d2.save_to(&mut bytes) {
        return Some(("save".into(), format!("save_to failed: {}", e)));
    }
    match Document::load_mem(&bytes) {
        Err(e) => Some(("reload".into(), format!("saved document does not load: {:?}", e))),
        Ok(l) => check_toc(&l, &exp, "after save + load"),
    }
}

fn case_json(c: &BCase) -> Value {
    json!({"kind":"forest","n_pages":c.n_pages,"xref_stream":c.xref_stream,"reserved":c.reserved,"id_order":c.id_order,"nodes":c.nodes.iter().map(|n| json!({"title_utf16":n.title.encode_utf16().collect::<Vec<u16>>(),"title":n.title,"page":n.page,"parent":n.parent})).collect::<Vec<_>>()})
}

pub fn run(cfg: &RunCfg) -> (PropMeta, ShardOut, Map<String, Value>) {
    let n = cfg.n(20_000, 600_000);
    let per = (n as usize + cfg.threads - 1) / cfg.threads;
    let out = shards(cfg.threads, |shard| {
        let mut out = ShardOut::default();
        for i in 0..per {
            let mut r = Rng::for_case(cfg.seed, TAG, shard as u64, i as u64);
            let c = gen_case(&mut r);
            out.evaluations += 1;
            out.add("bookmarks", c.nodes.len() as u64);
            out.add("zero_page_parents", c.nodes.iter().filter(|n| n.page.is_none()).count() as u64);
            out.add("non_ascii_titles", c.nodes.iter().filter(|n| !n.title.is_ascii()).count() as u64);
            let depth = (0..c.nodes.len()).map(|mut i| { let mut d = 1; while let Some(p) = c.nodes[i].parent { d += 1; i = p; } d }).max().unwrap_or(0);
            out.max("max_forest_depth", depth as u64);
            if c.nodes.len() > 1 {
                out.digests.insert(crate::prng::fnv_bytes(format!("{:?}", c).as_bytes()));
            }
            if let Some((sig, what)) = run_case(&c) {
                out.finding(Finding { signature: format!("C17/{}", sig), what, witness: case_json(&c) });
            }
            if i == 0 {
                out.sample(json!({"pages":c.n_pages,"bookmarks":c.nodes.iter().take(6).map(|n| json!({"title":n.title,"page":n.page,"parent":n.parent})).collect::<Vec<_>>() }));
            }
        }
        out
    });
    let meta = PropMeta {
        level: "exploration",
        rule: "random bookmark forests (1..60 bookmarks with random or chain-like parent choice; one forest in sixteen a chain of 50..257 bookmarks, i.e. nesting up to the deepest level the outline walker follows; children attached in any order, distinct titles drawn from ASCII / BMP / astral / whole Unicode range incl. the empty title, any target page, zero-page parents, in a third of the cases 1-3 object numbers reserved with new_object_id() before and filled in after build_outline) over documents with 1..12 pages (page object numbers ascending, descending or rotated against page order) and both xref formats; pipeline add_bookmark -> adjust_zero_pages -> build_outline -> catalog /Outlines -> get_toc, and again after save_to + load_mem. Oracle: forest model (fresh ids, First/Last/Next/Prev/Parent lists in insertion order, decoded titles, destination pages with the documented zero-page fix-up, pre-order (title, level, page number)). distinct = distinct forests with more than one bookmark.".into(),
        assumptions: vec!["titles are pairwise distinct (get_toc keys entries by title, as the quantifier states)".into(), "leaf bookmarks always name a real page; only parents may be zero-page".into(), "forests nest at most 257 levels, the deepest the outline walker follows (its recursion bound); deeper items are cut off by design".into()],
        exhaustive: false,
        min_distinct: 500,
    };
    (meta, out, Map::new())
}

pub fn replay(w: &Value) -> Vec<Finding> {
    let nodes: Vec<BNode> = w
        .get("nodes")
        .and_then(|a| a.as_array())
        .map(|a| {
            a.iter()
                .map(|n| BNode {
                    title: String::from_utf16_lossy(&n["title_utf16"].as_array().map(|u| u.iter().map(|x| x.as_u64().unwrap_or(0) as u16).collect::<Vec<u16>>()).unwrap_or_default()),
                    page: n["page"].as_u64().map(|x| x as usize),
                    parent: n["parent"].as_u64().map(|x| x as usize),
                })
                .collect()
        })
        .unwrap_or_default();
    let c = BCase { n_pages: w["n_pages"].as_u64().unwrap_or(1) as usize, nodes, xref_stream: w["xref_stream"].as_bool().unwrap_or(false), reserved: w["reserved"].as_u64().unwrap_or(0) as u8, id_order: w["id_order"].as_u64().unwrap_or(0) as u8 };
    run_case(&c).map(|(s, what)| Finding { signature: format!("C17/{}", s), what, witness: w.clone() }).into_iter().collect()
}
