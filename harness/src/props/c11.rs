//! C11 — editing operations keep the document sound.
//! Programs of public editing calls run against a generated document; after EVERY step the
//! oracle compares a snapshot taken before the call with the state after it (per-operation write
//! set, fresh ids, no dangling reference to a deleted object, exact prune set) and re-checks the
//! position-keyed model (page order, page content, resources in effect, Count invariant).

use crate::bridge::*;
use crate::gen;
use crate::prng::Rng;
use crate::refimpl::codecs;
use crate::refimpl::robj::{RDoc, RObj};
use crate::util::*;
use lopdf::content::{Content, Operation};
use lopdf::{Bookmark, Document, Object};
use serde_json::{json, Map, Value};
use std::collections::{BTreeMap, BTreeSet};

pub const TAG: &str = "C11";
type Id = (u32, u16);

fn k(s: &str) -> Vec<u8> {
    s.as_bytes().to_vec()
}
fn name(s: &str) -> RObj {
    RObj::Name(s.as_bytes().to_vec())
}
fn rref(id: Id) -> RObj {
    RObj::Ref(id.0, id.1)
}

// ---------------------------------------------------------------- model-side readers over RDoc

fn deref<'a>(d: &'a RDoc, mut o: &'a RObj) -> Option<&'a RObj> {
    for _ in 0..32 {
        match o {
            RObj::Ref(n, g) => o = d.objects.get(&(*n, *g))?,
            _ => return Some(o),
        }
    }
    None
}
fn dict_of<'a>(d: &'a RDoc, id: Id) -> Option<&'a Vec<(Vec<u8>, RObj)>> {
    match deref(d, d.objects.get(&id)?)? {
        RObj::Dict(x) => Some(x),
        _ => None,
    }
}
fn is_type(e: &[(Vec<u8>, RObj)], t: &str) -> bool {
    RObj::dict_get(e, b"Type") == Some(&name(t))
}

/// leaf pages in depth-first order (model-side)
pub fn model_pages(d: &RDoc) -> Vec<Id> {
    fn rec(d: &RDoc, id: Id, out: &mut Vec<Id>, depth: usize) {
        if depth > 64 {
            return;
        }
        let Some(e) = dict_of(d, id) else { return };
        if is_type(e, "Page") {
            out.push(id);
        } else if is_type(e, "Pages") {
            if let Some(RObj::Array(kids)) = RObj::dict_get(e, b"Kids").and_then(|kv| deref(d, kv)) {
                for kid in kids {
                    if let RObj::Ref(n, g) = kid {
                        rec(d, (*n, *g), out, depth + 1);
                    }
                }
            }
        }
    }
    let mut out = vec![];
    if let Some(RObj::Ref(n, g)) = RObj::dict_get(&d.trailer, b"Root") {
        if let Some(c) = dict_of(d, (*n, *g)) {
            if let Some(RObj::Ref(pn, pg)) = RObj::dict_get(c, b"Pages") {
                rec(d, (*pn, *pg), &mut out, 0);
            }
        }
    }
    out
}

/// every Pages node reachable from the root has Count == number of leaf pages below it
fn counts_hold(d: &RDoc) -> bool {
    fn rec(d: &RDoc, id: Id, ok: &mut bool, depth: usize) -> i64 {
        if depth > 64 {
            return 0;
        }
        let Some(e) = dict_of(d, id) else { return 0 };
        if is_type(e, "Page") {
            return 1;
        }
        if !is_type(e, "Pages") {
            return 0;
        }
        let mut n = 0;
        if let Some(RObj::Array(kids)) = RObj::dict_get(e, b"Kids").and_then(|kv| deref(d, kv)) {
            for kid in kids {
                if let RObj::Ref(a, b) = kid {
                    n += rec(d, (*a, *b), ok, depth + 1);
                }
            }
        }
        if RObj::dict_get(e, b"Count") != Some(&RObj::Int(n)) {
            *ok = false;
        }
        n
    }
    let mut ok = true;
    if let Some(RObj::Ref(n, g)) = RObj::dict_get(&d.trailer, b"Root") {
        if let Some(c) = dict_of(d, (*n, *g)) {
            if let Some(RObj::Ref(pn, pg)) = RObj::dict_get(c, b"Pages") {
                rec(d, (*pn, *pg), &mut ok, 0);
            }
        }
    }
    ok
}

/// content stream ids of a page as ISO 32000 defines them: a stream, or an array of streams,
/// each possibly behind references
fn model_content_ids(d: &RDoc, page: Id) -> Vec<Id> {
    let Some(e) = dict_of(d, page) else { return vec![] };
    let Some(c) = RObj::dict_get(e, b"Contents") else { return vec![] };
    // follow references to the final object, remembering the last id
    let mut cur = c;
    let mut last: Option<Id> = None;
    for _ in 0..32 {
        match cur {
            RObj::Ref(n, g) => {
                last = Some((*n, *g));
                match d.objects.get(&(*n, *g)) {
                    Some(o) => cur = o,
                    None => return vec![],
                }
            }
            _ => break,
        }
    }
    match cur {
        RObj::Stream(..) => last.into_iter().collect(),
        RObj::Array(a) => a.iter().filter_map(|x| if let RObj::Ref(n, g) = x { Some((*n, *g)) } else { None }).collect(),
        _ => vec![],
    }
}

fn stream_plain(d: &RDoc, id: Id) -> Option<Vec<u8>> {
    match d.objects.get(&id)? {
        RObj::Stream(sd, data) => match RObj::dict_get(sd, b"Filter") {
            None => Some(data.clone()),
            Some(RObj::Name(f)) if f == b"FlateDecode" => codecs::inflate_ref(data).ok(),
            Some(RObj::Array(a)) if a.len() == 1 && a[0] == name("FlateDecode") => codecs::inflate_ref(data).ok(),
            Some(RObj::Array(a)) if a.is_empty() => Some(data.clone()),
            _ => None,
        },
        _ => None,
    }
}

/// names of the resources in effect for a page: nearest /Resources up the Parent chain
fn model_resources(d: &RDoc, page: Id) -> BTreeSet<(Vec<u8>, Vec<u8>)> {
    let mut out = BTreeSet::new();
    let mut cur = Some(page);
    let mut guard = 0;
    while let Some(id) = cur {
        guard += 1;
        if guard > 64 {
            break;
        }
        let Some(e) = dict_of(d, id) else { break };
        if let Some(res) = RObj::dict_get(e, b"Resources").and_then(|x| deref(d, x)) {
            if let RObj::Dict(rd) = res {
                for (cat, v) in rd {
                    if let Some(RObj::Dict(items)) = deref(d, v) {
                        for (n, _) in items {
                            out.insert((cat.clone(), n.clone()));
                        }
                    }
                }
            }
            break;
        }
        cur = match RObj::dict_get(e, b"Parent") {
            Some(RObj::Ref(n, g)) => Some((*n, *g)),
            _ => None,
        };
    }
    out
}

fn reachable(d: &RDoc) -> BTreeSet<Id> {
    let mut seen = BTreeSet::new();
    let mut stack: Vec<Id> = vec![];
    let push_refs = |o: &RObj, stack: &mut Vec<Id>| {
        o.walk(&mut |x| {
            if let RObj::Ref(n, g) = x {
                stack.push((*n, *g));
            }
        })
    };
    push_refs(&RObj::Dict(d.trailer.clone()), &mut stack);
    while let Some(id) = stack.pop() {
        if !seen.insert(id) {
            continue;
        }
        if let Some(o) = d.objects.get(&id) {
            push_refs(o, &mut stack);
        }
    }
    seen
}

/// `o` with every direct occurrence of Ref(id) removed from arrays and dictionaries (deeply)
fn strip_ref(o: &RObj, id: Id) -> RObj {
    let is = |x: &RObj| *x == rref(id);
    match o {
        RObj::Array(a) => RObj::Array(a.iter().filter(|x| !is(x)).map(|x| strip_ref(x, id)).collect()),
        RObj::Dict(d) => RObj::Dict(d.iter().filter(|(_, v)| !is(v)).map(|(kk, v)| (kk.clone(), strip_ref(v, id))).collect()),
        RObj::Stream(d, c) => RObj::Stream(d.iter().filter(|(_, v)| !is(v)).map(|(kk, v)| (kk.clone(), strip_ref(v, id))).collect(), c.clone()),
        x => x.clone(),
    }
}

fn mentions(o: &RObj, id: Id) -> bool {
    let mut f = false;
    o.walk(&mut |x| {
        if *x == rref(id) {
            f = true
        }
    });
    f
}

// ---------------------------------------------------------------- document generator

pub struct Start {
    pub model: RDoc,
    /// per page (in page order): expected content chunks, one per content stream
    pub content: Vec<Vec<Vec<u8>>>,
}

fn content_text(r: &mut Rng) -> Vec<u8> {
    let n = r.usize_below(4);
    let mut s = String::new();
    for _ in 0..n {
        s.push_str(&format!("BT /F1 {} Tf ({}) Tj ET\n", 8 + r.below(20), (0..r.usize_below(12)).map(|_| (b'a' + r.below(26) as u8) as char).collect::<String>()));
    }
    if r.chance(1, 4) {
        s.push_str(&"q 1 0 0 1 0 0 cm Q\n".repeat(40));
    }
    s.into_bytes()
}

pub fn gen_start(r: &mut Rng) -> Start {
    let mut d = RDoc::new();
    // (now and then the first numbers stay unused: a writer may give them to its containers)
    let mut next = 1u32 + if r.chance(1, 3) { 1 + r.below(4) as u32 } else { 0 };
    let mut fresh = |r: &mut Rng| {
        let id = (next, 0u16);
        next += 1 + if r.chance(1, 6) { r.below(5) as u32 } else { 0 };
        id
    };
    let cat = fresh(r);
    let root = fresh(r);
    let font = fresh(r);
    d.objects.insert(font, RObj::Dict(vec![(k("Type"), name("Font")), (k("Subtype"), name("Type1")), (k("BaseFont"), name("Helvetica")), (k("Encoding"), name("WinAnsiEncoding"))]));
    let res_dict = |r: &mut Rng| -> Vec<(Vec<u8>, RObj)> {
        let mut v = vec![(k("Font"), RObj::Dict(vec![(k("F1"), rref(font))]))];
        if r.bool() {
            v.push((k("XObject"), RObj::Dict(vec![(k("Im0"), rref(font))])));
        }
        if r.chance(1, 3) {
            v.push((k("ExtGState"), RObj::Dict(vec![(k("GS0"), rref(font))])));
        }
        v
    };
    // optional inherited resources on the root
    let mut root_e = vec![(k("Type"), name("Pages"))];
    let root_res = r.below(3);
    if root_res == 1 {
        root_e.push((k("Resources"), RObj::Dict(res_dict(r))));
    } else if root_res == 2 {
        let rid = fresh(r);
        d.objects.insert(rid, RObj::Dict(res_dict(r)));
        root_e.push((k("Resources"), rref(rid)));
    }
    let n_pages = 1 + r.usize_below(6);
    let mut kids = vec![];
    let mut content = vec![];
    let mut groups: Vec<(Id, Vec<RObj>)> = vec![];
    let mut page_list: Vec<(Id, Id)> = vec![]; // (page, parent)
    for _ in 0..n_pages {
        let p = fresh(r);
        let parent = if r.chance(1, 3) {
            if groups.is_empty() || r.bool() {
                let gid = fresh(r);
                groups.push((gid, vec![]));
                kids.push(rref(gid));
            }
            let gi = groups.len() - 1;
            groups[gi].1.push(rref(p));
            groups[gi].0
        } else {
            kids.push(rref(p));
            root
        };
        page_list.push((p, parent));
    }
    // page order = DFS over kids; build pages after the structure is known
    let mut order: Vec<Id> = vec![];
    for kd in &kids {
        if let RObj::Ref(n, g) = kd {
            if let Some(gr) = groups.iter().find(|x| x.0 == (*n, *g)) {
                for pk in &gr.1 {
                    if let RObj::Ref(a, b) = pk {
                        order.push((*a, *b));
                    }
                }
            } else {
                order.push((*n, *g));
            }
        }
    }
    let mut shared_arrays: Vec<(Id, Vec<Vec<u8>>)> = vec![];
    for pid in &order {
        let parent = page_list.iter().find(|x| x.0 == *pid).unwrap().1;
        let mut e = vec![(k("Type"), name("Page")), (k("Parent"), rref(parent))];
        // contents
        // a Contents array that is an object of its own may be shared by several pages (only arrays of two or more
        // streams are shared: for those every content edit gives the edited page something of its own, so the
        // expectation for the other pages does not depend on whether an edit works in place)
        let reuse = if !shared_arrays.is_empty() && r.chance(1, 4) { Some(r.pick(&shared_arrays).clone()) } else { None };
        let nstreams = if reuse.is_some() {
            0
        } else {
            match r.below(5) {
                0 => 0,
                1 | 2 => 1,
                _ => 1 + r.usize_below(3),
            }
        };
        let mut chunks = vec![];
        let mut ids = vec![];
        for _ in 0..nstreams {
            let sid = fresh(r);
            let mut plain = content_text(r);
            let (sd, body) = match r.below(6) {
                0 | 1 if !plain.is_empty() => (vec![(k("Filter"), name("FlateDecode"))], codecs::zlib_encode(&plain, codecs::ZMode::Fixed, r)),
                // Flate with a PNG predictor, as producers write when they recompress every stream alike
                2 if !plain.is_empty() => {
                    let cols = 1 + r.usize_below(12);
                    while plain.len() % cols != 0 {
                        plain.push(b'\n');
                    }
                    let filters = [codecs::RowFilter::None, codecs::RowFilter::Sub, codecs::RowFilter::Up, codecs::RowFilter::Avg, codecs::RowFilter::Paeth];
                    let fixed = r.usize_below(6);
                    let seed = r.next_u64();
                    let mut pr = Rng::new(seed);
                    let enc = codecs::png_encode(&plain, 1, 8, cols, &mut |_| if fixed < 5 { filters[fixed] } else { filters[pr.usize_below(5)] });
                    let dp = RObj::Dict(vec![(k("Predictor"), RObj::Int(10 + fixed.min(5) as i64)), (k("Columns"), RObj::Int(cols as i64))]);
                    (vec![(k("Filter"), name("FlateDecode")), (k("DecodeParms"), dp)], codecs::zlib_encode(&enc, codecs::ZMode::Fixed, r))
                }
                _ => (vec![], plain.clone()),
            };
            d.objects.insert(sid, RObj::Stream(sd, body));
            chunks.push(plain);
            ids.push(sid);
        }
        if let Some((aid, shared_chunks)) = &reuse {
            e.push((k("Contents"), rref(*aid)));
            chunks = shared_chunks.clone();
        }
        match (nstreams, r.below(3)) {
            _ if reuse.is_some() => {}
            (0, 0) => {}
            (0, _) => e.push((k("Contents"), RObj::Array(vec![]))),
            (1, 0) => e.push((k("Contents"), rref(ids[0]))),
            (_, 1) => {
                let aid = fresh(r);
                d.objects.insert(aid, RObj::Array(ids.iter().map(|x| rref(*x)).collect()));
                e.push((k("Contents"), rref(aid)));
                if ids.len() >= 2 {
                    shared_arrays.push((aid, chunks.clone()));
                }
            }
            _ => e.push((k("Contents"), RObj::Array(ids.iter().map(|x| rref(*x)).collect()))),
        }
        content.push(chunks);
        // resources: own direct / own by reference / none (inherits)
        match r.below(4) {
            0 => e.push((k("Resources"), RObj::Dict(res_dict(r)))),
            1 => {
                let rid = fresh(r);
                let mut rd = res_dict(r);
                if r.chance(1, 3) {
                    // XObject dictionary held by reference
                    let xid = fresh(r);
                    d.objects.insert(xid, RObj::Dict(vec![(k("Im9"), rref(font))]));
                    rd.retain(|(kk, _)| kk != b"XObject");
                    rd.push((k("XObject"), rref(xid)));
                }
                d.objects.insert(rid, RObj::Dict(rd));
                e.push((k("Resources"), rref(rid)));
            }
            _ => {}
        }
        // annotations
        if r.chance(1, 3) {
            let mut an = vec![];
            for _ in 0..1 + r.usize_below(3) {
                let aid = fresh(r);
                d.objects.insert(aid, RObj::Dict(vec![(k("Type"), name("Annot")), (k("Subtype"), name("Text")), (k("Rect"), RObj::Array(vec![RObj::Int(0), RObj::Int(0), RObj::Int(9), RObj::Int(9)]))]));
                an.push(rref(aid));
                if r.chance(1, 4) {
                    an.push(rref(aid)); // same annotation listed twice
                }
            }
            e.push((k("Annots"), RObj::Array(an)));
        }
        d.objects.insert(*pid, RObj::Dict(e));
    }
    for (gid, gk) in &groups {
        let mut e = vec![(k("Type"), name("Pages")), (k("Parent"), rref(root)), (k("Count"), RObj::Int(gk.len() as i64)), (k("Kids"), RObj::Array(gk.clone()))];
        if r.chance(1, 4) {
            e.push((k("Resources"), RObj::Dict(res_dict(r))));
        }
        d.objects.insert(*gid, RObj::Dict(e));
    }
    root_e.push((k("Kids"), RObj::Array(kids)));
    root_e.push((k("Count"), RObj::Int(order.len() as i64)));
    d.objects.insert(root, RObj::Dict(root_e));
    let mut cat_e = vec![(k("Type"), name("Catalog")), (k("Pages"), rref(root))];
    // extras: shared, cyclic, unreachable
    let mut extras = vec![];
    for _ in 0..r.usize_below(6) {
        extras.push(fresh(r));
    }
    let pool: Vec<Id> = d.objects.keys().cloned().chain(extras.iter().cloned()).collect();
    let cfg = gen::ObjCfg { max_depth: 2, refs: true, ref_pool: pool, max_str: 8, max_children: 4 };
    for id in &extras {
        let o = match r.below(3) {
            0 => RObj::Dict(gen::dict_entries(r, &cfg, 1, true).into_iter().filter(|(kk, _)| kk != b"Type" && kk != b"Length").collect()),
            1 => RObj::Array((0..r.usize_below(5)).map(|_| gen::direct_object(r, &cfg, 1)).collect()),
            _ => RObj::Stream(vec![], r.bytes(6)),
        };
        d.objects.insert(*id, o);
    }
    let linked: Vec<RObj> = extras.iter().filter(|_| r.chance(2, 3)).map(|x| rref(*x)).collect();
    cat_e.push((k("Extras"), RObj::Array(linked)));
    d.objects.insert(cat, RObj::Dict(cat_e));
    d.trailer = vec![(k("Root"), rref(cat))];
    if !extras.is_empty() && r.bool() {
        d.trailer.push((k("Info"), rref(*r.pick(&extras))));
    }
    // one resource category in four (Font, XObject, ExtGState of any Resources dictionary) is held in an object of its
    // own and named by reference, as producers that share resource dictionaries between pages write them
    let mut next_num = d.max_num() + 1;
    let mut moved: Vec<(Id, RObj)> = vec![];
    for o in d.objects.values_mut() {
        let RObj::Dict(e) = o else { continue };
        let mut res_dicts: Vec<&mut Vec<(Vec<u8>, RObj)>> = vec![];
        let own = e.iter().any(|(kk, _)| kk == b"Font");
        if own {
            res_dicts.push(e);
        } else {
            for (kk, v) in e.iter_mut() {
                if kk == b"Resources" {
                    if let RObj::Dict(rd) = v {
                        res_dicts.push(rd);
                    }
                }
            }
        }
        for rd in res_dicts {
            for (cat_name, v) in rd.iter_mut() {
                if [&b"Font"[..], b"XObject", b"ExtGState"].contains(&cat_name.as_slice()) && matches!(v, RObj::Dict(_)) && r.chance(1, 4) {
                    let id = (next_num, 0u16);
                    next_num += 1;
                    moved.push((id, std::mem::replace(v, RObj::Ref(id.0, id.1))));
                }
            }
        }
    }
    for (id, o) in moved {
        d.objects.insert(id, o);
    }
    Start { model: d, content }
}

// ---------------------------------------------------------------- the step oracle

pub struct State {
    pub doc: Document,
    pub content: Vec<Vec<Vec<u8>>>,
    pub counts_held: bool,
    /// numbers handed out by new_object_id() and not stored yet: no later allocation may hand them out again
    pub reserved: BTreeSet<u32>,
    pub history: Vec<String>,
}

fn snapshot(doc: &Document) -> RDoc {
    from_lo_doc(doc)
}

type Viol = Option<(String, String)>;

/// objects that may differ between `s0` and `s1`; everything else must be present and equal
fn unchanged_except(s0: &RDoc, s1: &RDoc, allowed: &BTreeSet<Id>, removed_ok: &BTreeSet<Id>, added_ok: &dyn Fn(&Id) -> bool, op: &str) -> Viol {
    for (id, o) in &s0.objects {
        match s1.objects.get(id) {
            None => {
                if !removed_ok.contains(id) {
                    return Some((format!("{}/object-removed", op), format!("{} removed object {:?}, which it must not touch", op, id)));
                }
            }
            Some(n) => {
                if !allowed.contains(id) && !robj_eq(o, n) {
                    return Some((format!("{}/object-altered", op), format!("{} altered object {:?} outside its write set: {}", op, id, diff_robj(o, n, "").unwrap_or_default())));
                }
            }
        }
    }
    for id in s1.objects.keys() {
        if !s0.objects.contains_key(id) && !added_ok(id) {
            return Some((format!("{}/object-added", op), format!("{} added unexpected object {:?}", op, id)));
        }
    }
    None
}

fn check_global(st: &State, s1: &RDoc, op: &str) -> Viol {
    // page content model
    let pages = model_pages(s1);
    let lp: Vec<Id> = st.doc.page_iter().collect();
    if lp != pages {
        return Some((format!("{}/page-list", op), format!("after {}: page_iter() {:?} differs from the model's page list {:?}", op, &lp[..lp.len().min(8)], &pages[..pages.len().min(8)])));
    }
    if pages.len() != st.content.len() {
        return Some((format!("{}/page-count", op), format!("after {}: {} pages, the edit model has {}", op, pages.len(), st.content.len())));
    }
    for (i, p) in pages.iter().enumerate() {
        let exp: Vec<u8> = st.content[i].concat();
        match st.doc.get_page_content(*p) {
            Ok(got) => {
                if got != exp {
                    return Some((
                        format!("{}/page-content", op),
                        format!("after {}: page {} content is {:?}…, the edits imply {:?}…", op, i + 1, String::from_utf8_lossy(&got[..got.len().min(60)]), String::from_utf8_lossy(&exp[..exp.len().min(60)])),
                    ));
                }
            }
            Err(e) => return Some((format!("{}/page-content", op), format!("get_page_content failed: {:?}", e))),
        }
    }
    if st.counts_held && !counts_hold(s1) {
        return Some((format!("{}/count", op), format!("after {}: a Pages node's Count no longer equals its number of leaf pages", op)));
    }
    None
}

fn fresh_violation(s0: &RDoc, id: Id, op: &str) -> Viol {
    if s0.objects.contains_key(&id) || s0.objects.keys().any(|x| x.0 == id.0) {
        Some((format!("{}/id-collision", op), format!("{} allocated {:?}, which collides with an existing object", op, id)))
    } else {
        None
    }
}

pub fn step(st: &mut State, r: &mut Rng) -> Viol {
    let s0 = snapshot(&st.doc);
    let ids: Vec<Id> = s0.objects.keys().cloned().collect();
    let pages0 = model_pages(&s0);
    let none: BTreeSet<Id> = BTreeSet::new();
    let op = r.below(17);
    let cfg = gen::ObjCfg { max_depth: 2, refs: true, ref_pool: if ids.is_empty() { vec![(1, 0)] } else { ids.clone() }, max_str: 8, max_children: 4 };
    macro_rules! guard {
        ($e:expr, $name:expr) => {
            match crate::props::catch(|| $e) {
                Ok(v) => v,
                Err(p) => return Some((format!("{}/panic", $name), format!("{} panicked: {}", $name, p))),
            }
        };
    }
    let label: String;
    let v: Viol = match op {
        0 => {
            label = "new_object_id".into();
            let id = guard!(st.doc.new_object_id(), "new_object_id");
            let s1 = snapshot(&st.doc);
            let again = !st.reserved.insert(id.0);
            fresh_violation(&s0, id, "new_object_id")
                .or_else(|| if again { Some(("new_object_id/handed-out-twice".into(), format!("new_object_id returned {:?} a second time", id))) } else { None })
                .or_else(|| unchanged_except(&s0, &s1, &none, &none, &|_| false, "new_object_id"))
        }
        1 => {
            label = "add_object".into();
            let o = no_bare_ref(gen::top_object(r, &cfg));
            let id = guard!(st.doc.add_object(to_lo(&o)), "add_object");
            let s1 = snapshot(&st.doc);
            fresh_violation(&s0, id, "add_object")
                .or_else(|| if st.reserved.contains(&id.0) { Some(("add_object/reserved-id".into(), format!("add_object used {:?}, which new_object_id had handed out before", id))) } else { None })
                .or_else(|| if s1.objects.get(&id).map(|x| robj_eq(&o, x)) != Some(true) { Some(("add_object/stored".into(), "added object is not stored under the returned id".into())) } else { None })
                .or_else(|| unchanged_except(&s0, &s1, &none, &none, &|x| *x == id, "add_object"))
        }
        2 if !ids.is_empty() => {
            label = "set_object".into();
            // replace a non-structural object (extras / fonts): page-tree nodes and content stay consistent with the model
            let cands: Vec<Id> = ids.iter().filter(|id| !structural(&s0, **id)).cloned().collect();
            if cands.is_empty() {
                return None;
            }
            let id = *r.pick(&cands);
            let o = no_bare_ref(gen::top_object(r, &cfg));
            guard!(st.doc.set_object(id, to_lo(&o)), "set_object");
            let s1 = snapshot(&st.doc);
            let mut allowed = BTreeSet::new();
            allowed.insert(id);
            unchanged_except(&s0, &s1, &allowed, &none, &|_| false, "set_object")
        }
        3 if !ids.is_empty() => {
            label = "delete_object".into();
            // explicit deletion of a non-page-tree object (content streams, annotations, extras, fonts)
            let cands: Vec<Id> = ids.iter().filter(|id| !page_tree_node(&s0, **id)).cloned().collect();
            if cands.is_empty() {
                return None;
            }
            let id = *r.pick(&cands);
            let ret = guard!(st.doc.delete_object(id), "delete_object");
            let s1 = snapshot(&st.doc);
            // model: content chunks of that stream disappear from the pages that listed it
            for (pi, p) in pages0.iter().enumerate() {
                let cids = model_content_ids(&s0, *p);
                // a Contents entry that is a *reference to an array* object being deleted removes all content
                let contents_ref_deleted = matches!(dict_of(&s0, *p).and_then(|e| RObj::dict_get(e, b"Contents")), Some(RObj::Ref(n, g)) if (*n, *g) == id);
                if contents_ref_deleted {
                    st.content[pi].clear();
                    continue;
                }
                let mut keep = vec![];
                for (ci, cid) in cids.iter().enumerate() {
                    if *cid != id {
                        if let Some(ch) = st.content[pi].get(ci) {
                            keep.push(ch.clone());
                        }
                    }
                }
                if cids.len() == st.content[pi].len() {
                    st.content[pi] = keep;
                }
            }
            let mut viol: Viol = None;
            if ret.is_none() {
                viol = Some(("delete_object/return".into(), "delete_object returned None for an existing object".into()));
            }
            let reach = reachable(&s1);
            if viol.is_none() && mentions(&RObj::Dict(s1.trailer.clone()), id) {
                viol = Some(("delete_object/reference-left-in-trailer".into(), format!("after delete_object({:?}) the trailer still refers to it", id)));
            }
            if viol.is_none() {
                for rid in &reach {
                    if let Some(o) = s1.objects.get(rid) {
                        if mentions(o, id) {
                            if std::env::var("VH_DEBUG").is_ok() {
                                eprintln!("DEBUG delete_object {:?}: holder {:?} reachable-before={} before={} after={}", id, rid, reachable(&s0).contains(rid), s0.objects.get(rid).map(|x| x.show()).unwrap_or_default(), o.show());
                                eprintln!("DEBUG trailer {}", RObj::Dict(s0.trailer.clone()).show());
                            }
                            viol = Some(("delete_object/reference-left".into(), format!("after delete_object({:?}) object {:?} still refers to it: {}", id, rid, o.show().chars().take(100).collect::<String>())));
                            break;
                        }
                    }
                }
            }
            if viol.is_none() {
                // every other object: unchanged, or equal to the old one with the references stripped
                for (oid, o) in &s0.objects {
                    if *oid == id {
                        continue;
                    }
                    match s1.objects.get(oid) {
                        None => {
                            viol = Some(("delete_object/object-removed".into(), format!("delete_object({:?}) also removed {:?}", id, oid)));
                            break;
                        }
                        Some(n) => {
                            if !robj_eq(o, n) && !robj_eq(&strip_ref(o, id), n) {
                                viol = Some(("delete_object/object-altered".into(), format!("delete_object({:?}) altered {:?} beyond removing references: {}", id, oid, diff_robj(&strip_ref(o, id), n, "").unwrap_or_default())));
                                break;
                            }
                        }
                    }
                }
            }
            viol
        }
        4 => {
            label = "remove_object(annotation)".into();
            let annots: Vec<Id> = ids.iter().filter(|id| dict_of(&s0, **id).map(|e| is_type(e, "Annot")).unwrap_or(false)).cloned().collect();
            let id = if annots.is_empty() || r.chance(1, 5) { (9999, 0) } else { *r.pick(&annots) };
            let res = guard!(st.doc.remove_object(&id), "remove_object");
            let s1 = snapshot(&st.doc);
            let allowed: BTreeSet<Id> = pages0.iter().cloned().collect();
            let mut viol = unchanged_except(&s0, &s1, &allowed, &none, &|_| false, "remove_object");
            if viol.is_none() {
                for p in &pages0 {
                    let (a, b) = (dict_of(&s0, *p), dict_of(&s1, *p));
                    if let (Some(a), Some(b)) = (a, b) {
                        // expected: only the Annots array loses its entries equal to the reference
                        let stripped: Vec<(Vec<u8>, RObj)> = a
                            .iter()
                            .map(|(kk, v)| match (kk.as_slice(), v) {
                                (b"Annots", RObj::Array(an)) => (kk.clone(), RObj::Array(an.iter().filter(|x| **x != rref(id)).cloned().collect())),
                                _ => (kk.clone(), v.clone()),
                            })
                            .collect();
                        // only Annots may lose entries; a page dictionary holds no other direct reference to an annotation
                        if !robj_eq(&RObj::Dict(a.clone()), &RObj::Dict(b.clone())) && !robj_eq(&RObj::Dict(stripped), &RObj::Dict(b.clone())) {
                            if std::env::var("VH_DEBUG").is_ok() {
                                eprintln!("DEBUG remove_object {:?} page {:?}\n before={}\n after ={}", id, p, RObj::Dict(a.clone()).show(), RObj::Dict(b.clone()).show());
                            }
                            viol = Some(("remove_object/page-altered".into(), format!("remove_object({:?}) changed page {:?} beyond removing the annotation", id, p)));
                            break;
                        }
                        if res.is_ok() {
                            if let Some(RObj::Array(an)) = RObj::dict_get(b, b"Annots") {
                                if an.contains(&rref(id)) {
                                    viol = Some(("remove_object/annotation-left".into(), format!("remove_object({:?}) returned Ok but page {:?} still lists it", id, p)));
                                    break;
                                }
                            }
                        }
                    }
                }
            }
            viol
        }
        5 => {
            label = "prune_objects".into();
            let expect: BTreeSet<Id> = {
                let reach = reachable(&s0);
                s0.objects.keys().filter(|x| !reach.contains(x)).cloned().collect()
            };
            let got: BTreeSet<Id> = guard!(st.doc.prune_objects(), "prune_objects").into_iter().collect();
            let s1 = snapshot(&st.doc);
            if got != expect {
                Some(("prune_objects/set".into(), format!("prune_objects returned {:?}, the unreachable objects are {:?}", got, expect)))
            } else {
                unchanged_except(&s0, &s1, &none, &expect, &|_| false, "prune_objects").or_else(|| {
                    if expect.iter().any(|x| s1.objects.contains_key(x)) {
                        Some(("prune_objects/not-removed".into(), "an unreachable object survived prune_objects".into()))
                    } else {
                        None
                    }
                })
            }
        }
        6 if !pages0.is_empty() => {
            label = "delete_pages".into();
            let mut nums: Vec<u32> = vec![];
            for _ in 0..1 + r.usize_below(2) {
                nums.push(1 + r.below(pages0.len() as u64 + 1) as u32);
            }
            if r.chance(1, 5) {
                nums.push(nums[0]);
            }
            guard!(st.doc.delete_pages(&nums), "delete_pages");
            let s1 = snapshot(&st.doc);
            let del: BTreeSet<usize> = nums.iter().filter(|n| (**n as usize) <= pages0.len()).map(|n| *n as usize - 1).collect();
            let del_ids: BTreeSet<Id> = del.iter().map(|i| pages0[*i]).collect();
            st.content = st.content.iter().enumerate().filter(|(i, _)| !del.contains(i)).map(|(_, c)| c.clone()).collect();
            // write set: the deleted pages; any object may lose references to them; ancestors' Count
            let mut viol: Viol = None;
            let reach1 = reachable(&s1);
            for (oid, o) in &s0.objects {
                if del_ids.contains(oid) {
                    if s1.objects.contains_key(oid) {
                        viol = Some(("delete_pages/not-removed".into(), format!("page {:?} still exists after delete_pages", oid)));
                    }
                    continue;
                }
                let Some(n) = s1.objects.get(oid) else {
                    viol = Some(("delete_pages/object-removed".into(), format!("delete_pages removed {:?}", oid)));
                    break;
                };
                let mut exp = o.clone();
                for d in &del_ids {
                    exp = strip_ref(&exp, *d);
                }
                // objects that are not reachable from the trailer are not visited: they may stay as they were
                if robj_eq(o, n) {
                    continue;
                }
                // several pages deleted by one call are removed one after the other: an object that hangs off a page
                // deleted later loses its references to the pages deleted before it and then becomes unreachable,
                // keeping references to that later page. Such an object may differ from the expectation only by
                // references to deleted pages, and only if nothing reaches it any more.
                if !reach1.contains(oid) {
                    let mut rest = n.clone();
                    for d in &del_ids {
                        rest = strip_ref(&rest, *d);
                    }
                    if robj_eq(&rest, &exp) {
                        continue;
                    }
                }
                // Count may change on Pages nodes
                let (mut e1, mut n1) = (exp.clone(), n.clone());
                for x in [&mut e1, &mut n1] {
                    if let RObj::Dict(dd) = x {
                        if is_type(dd, "Pages") {
                            dd.retain(|(kk, _)| kk != b"Count");
                        }
                    }
                }
                if !robj_eq(&e1, &n1) {
                    viol = Some(("delete_pages/object-altered".into(), format!("delete_pages altered {:?}: {}", oid, diff_robj(&e1, &n1, "").unwrap_or_default())));
                    break;
                }
            }
            viol
        }
        7 => {
            label = "renumber_objects".into();
            let start = *r.pick(&[1u32, 1, 2, 50, 1000]);
            let before = st.doc.clone();
            guard!(if start == 1 { st.doc.renumber_objects() } else { st.doc.renumber_objects_with(start) }, "renumber_objects");
            // (numbers handed out before a renumbering mean nothing afterwards)
            st.reserved.clear();
            let vs = crate::props::c10::check(&before, &st.doc, start, start == 1);
            // dangling references that start to resolve are C10's known finding, not an editing-soundness clause
            vs.into_iter().find(|(s, _)| s != "dangling-resolves").map(|(s, w)| (format!("renumber/{}", s), w))
        }
        8 | 9 => {
            label = if op == 8 { "compress".into() } else { "decompress".into() };
            guard!(if op == 8 { st.doc.compress() } else { st.doc.decompress() }, "compress/decompress");
            let s1 = snapshot(&st.doc);
            let mut viol: Viol = None;
            for (oid, o) in &s0.objects {
                match (o, s1.objects.get(oid)) {
                    (RObj::Stream(..), Some(RObj::Stream(..))) => {
                        let (p0, p1) = (ref_plain(&s0, *oid), ref_plain(&s1, *oid));
                        // streams the reference decoders cannot decode (unknown filters) must simply stay as they are
                        let same = match (&p0, &p1) {
                            (Some(a), Some(b)) => a == b,
                            _ => s1.objects.get(oid).map(|n| robj_eq(o, n)).unwrap_or(false) || p0.is_none(),
                        };
                        if !same {
                            viol = Some((format!("{}/content", label), format!("{} changed the decoded content of stream {:?}", label, oid)));
                            break;
                        }
                    }
                    (_, Some(n)) => {
                        if !robj_eq(o, n) {
                            viol = Some((format!("{}/object-altered", label), format!("{} altered non-stream object {:?}", label, oid)));
                            break;
                        }
                    }
                    (_, None) => {
                        viol = Some((format!("{}/object-removed", label), format!("{} removed {:?}", label, oid)));
                        break;
                    }
                }
            }
            viol
        }
        10 | 11 | 12 if !pages0.is_empty() => {
            let pi = r.usize_below(pages0.len());
            let page = pages0[pi];
            let bytes = content_text(r);
            let res;
            if op == 10 {
                label = "change_page_content".into();
                res = guard!(st.doc.change_page_content(page, bytes.clone()), "change_page_content").is_ok();
                if res {
                    // only defined when the page has content to change; a page without Contents is left alone
                    if dict_of(&s0, page).and_then(|e| RObj::dict_get(e, b"Contents")).is_some() && !(model_content_ids(&s0, page).is_empty() && matches!(dict_of(&s0, page).and_then(|e| RObj::dict_get(e, b"Contents")), Some(RObj::Array(a)) if a.is_empty()) && false) {
                        st.content[pi] = vec![bytes.clone()];
                    }
                    // a page with a single content stream is edited in place; when other pages list the same stream
                    // object (sharing arises when a deletion shrinks a shared array to one stream) they either keep
                    // seeing the old content or see the new one - the property does not say which, so the model
                    // adopts what the library did for exactly that chunk
                    let mine = model_content_ids(&s0, page);
                    if mine.len() == 1 {
                        for (qi, q) in pages0.iter().enumerate() {
                            if qi == pi {
                                continue;
                            }
                            let theirs = model_content_ids(&s0, *q);
                            if theirs.len() != st.content[qi].len() {
                                continue;
                            }
                            let mut alt = st.content[qi].clone();
                            let mut touched = false;
                            for (ci, cid) in theirs.iter().enumerate() {
                                if *cid == mine[0] {
                                    alt[ci] = bytes.clone();
                                    touched = true;
                                }
                            }
                            if touched && st.doc.get_page_content(*q).ok() == Some(alt.concat()) {
                                st.content[qi] = alt;
                            }
                        }
                    }
                }
            } else if op == 11 {
                label = "add_page_contents".into();
                res = guard!(st.doc.add_page_contents(page, bytes.clone()), "add_page_contents").is_ok();
                if res {
                    st.content[pi].push(bytes.clone());
                }
            } else {
                label = "add_to_page_content".into();
                let ops = Content { operations: vec![Operation::new("q", vec![]), Operation::new("Tj", vec![Object::string_literal(bytes.clone())]), Operation::new("Q", vec![])] };
                let enc = ops.encode().unwrap_or_default();
                res = guard!(st.doc.add_to_page_content(page, ops), "add_to_page_content").is_ok();
                if res {
                    st.content[pi].push(enc);
                }
            }
            let s1 = snapshot(&st.doc);
            let mut allowed: BTreeSet<Id> = model_content_ids(&s0, page).into_iter().collect();
            allowed.insert(page);
            // Contents held behind a reference to an array: that array object belongs to the write set
            if let Some(RObj::Ref(n, g)) = dict_of(&s0, page).and_then(|e| RObj::dict_get(e, b"Contents")) {
                allowed.insert((*n, *g));
            }
            let mut viol = unchanged_except(&s0, &s1, &allowed, &none, &|x| !s0.objects.keys().any(|y| y.0 == x.0), &label);
            if viol.is_none() {
                // the page dictionary itself may only change its Contents entry
                if let (Some(a), Some(b)) = (dict_of(&s0, page), dict_of(&s1, page)) {
                    let strip = |e: &Vec<(Vec<u8>, RObj)>| RObj::Dict(e.iter().filter(|(kk, _)| kk != b"Contents").cloned().collect());
                    if !robj_eq(&strip(a), &strip(b)) {
                        viol = Some((format!("{}/page-altered", label), format!("{} changed the page dictionary beyond /Contents", label)));
                    }
                }
            }
            viol
        }
        13 | 14 | 15 if !pages0.is_empty() => {
            let pi = r.usize_below(pages0.len());
            let page = pages0[pi];
            let before_res = model_resources(&s0, page);
            let target = if ids.is_empty() { (1, 0) } else { *r.pick(&ids) };
            let nm = format!("N{}", r.below(1000));
            let (cat, ok) = if op == 13 {
                label = "add_xobject".into();
                ("XObject", guard!(st.doc.add_xobject(page, nm.as_bytes(), target), "add_xobject").is_ok())
            } else if op == 14 {
                label = "add_graphics_state".into();
                ("ExtGState", guard!(st.doc.add_graphics_state(page, nm.as_bytes(), target), "add_graphics_state").is_ok())
            } else {
                label = "get_or_create_resources".into();
                ("", guard!(st.doc.get_or_create_resources(page).map(|_| ()), "get_or_create_resources").is_ok())
            };
            let s1 = snapshot(&st.doc);
            let after_res = model_resources(&s1, page);
            let mut viol: Viol = None;
            if let Some(lost) = before_res.iter().find(|x| !after_res.contains(*x)) {
                viol = Some((format!("{}/resource-lost", label), format!("{} on page {}: resource /{} /{} usable before is no longer in effect", label, pi + 1, String::from_utf8_lossy(&lost.0), String::from_utf8_lossy(&lost.1))));
            }
            if viol.is_none() && ok && !cat.is_empty() && !after_res.contains(&(k(cat), nm.as_bytes().to_vec())) {
                viol = Some((format!("{}/not-added", label), format!("{} returned Ok but /{} /{} is not in effect for the page", label, cat, nm)));
            }
            if viol.is_none() {
                // write set: the page and the objects of its resource chain
                let mut allowed: BTreeSet<Id> = BTreeSet::new();
                allowed.insert(page);
                let mut cur = Some(page);
                let mut g = 0;
                while let Some(id) = cur {
                    g += 1;
                    if g > 64 {
                        break;
                    }
                    let Some(e) = dict_of(&s0, id) else { break };
                    if let Some(rv) = RObj::dict_get(e, b"Resources") {
                        let mut o = rv;
                        while let RObj::Ref(n, gg) = o {
                            allowed.insert((*n, *gg));
                            match s0.objects.get(&(*n, *gg)) {
                                Some(x) => o = x,
                                None => break,
                            }
                        }
                        if let RObj::Dict(rd) = o {
                            for (_, v) in rd {
                                let mut o2 = v;
                                while let RObj::Ref(n, gg) = o2 {
                                    allowed.insert((*n, *gg));
                                    match s0.objects.get(&(*n, *gg)) {
                                        Some(x) => o2 = x,
                                        None => break,
                                    }
                                }
                            }
                        }
                        break;
                    }
                    cur = match RObj::dict_get(e, b"Parent") {
                        Some(RObj::Ref(n, gg)) => Some((*n, *gg)),
                        _ => None,
                    };
                }
                // only the page itself may be touched when it had no own Resources
                viol = unchanged_except(&s0, &s1, &allowed, &none, &|_| false, &label);
            }
            viol
        }
        16 => {
            label = "build_outline".into();
            let pages = pages0.clone();
            if pages.is_empty() {
                return None;
            }
            let mut bids = vec![];
            for i in 0..1 + r.usize_below(3) {
                let parent = if i > 0 && r.bool() { Some(bids[r.usize_below(i)]) } else { None };
                bids.push(st.doc.add_bookmark(Bookmark::new(format!("b{}", r.below(100000)), [0.0; 3], 0, *r.pick(&pages)), parent));
            }
            let out = guard!(st.doc.build_outline(), "build_outline");
            // bookmarks are consumed per call in this program: clear the pending forest
            st.doc.bookmarks.clear();
            st.doc.bookmark_table.clear();
            let s1 = snapshot(&st.doc);
            let mut viol = unchanged_except(&s0, &s1, &none, &none, &|x| !s0.objects.keys().any(|y| y.0 == x.0), "build_outline");
            if viol.is_none() && out.is_none() {
                viol = Some(("build_outline/none".into(), "build_outline returned None although bookmarks were pending".into()));
            }
            if viol.is_none() {
                if let Some(x) = s1.objects.keys().find(|x| !s0.objects.contains_key(x) && st.reserved.contains(&x.0)) {
                    viol = Some(("build_outline/reserved-id".into(), format!("build_outline numbered an outline object {:?}, an identifier new_object_id had handed out before", x)));
                }
            }
            if viol.is_none() && s1.objects.keys().any(|x| x.0 > st.doc.max_id) {
                viol = Some(("build_outline/max_id".into(), "max_id is below an object number created by build_outline".into()));
            }
            viol
        }
        _ => {
            label = "save+reload".into();
            let xs = r.bool();
            st.doc.reference_table.cross_reference_type = if xs { lopdf::xref::XrefType::CrossReferenceStream } else { lopdf::xref::XrefType::CrossReferenceTable };
            let mut bytes = vec![];
            let mut clone = st.doc.clone();
            if let Err(e) = clone.save_to(&mut bytes) {
                return Some(("save/error".into(), format!("save_to failed: {}", e)));
            }
            match Document::load_mem(&bytes) {
                Err(e) => Some(("save/reload".into(), format!("saved document does not load: {:?}", e))),
                Ok(l) => {
                    let got = snapshot(&l);
                    let mut exp = s0.clone();
                    exp.objects.retain(|_, o| !container_typed(o));
                    let diffs = diff_docs(&exp, &got, false, &|_, o| is_xref_stream_obj(o));
                    st.doc = l;
                    st.reserved.clear();
                    diffs.first().map(|(_, dd)| ("save/content".to_string(), format!("save + reload changed the document: {}", dd)))
                }
            }
        }
    };
    st.history.push(label.clone());
    if v.is_some() {
        return v;
    }
    let s1 = snapshot(&st.doc);
    // max_id stays an upper bound of the object numbers in use
    if s1.objects.keys().any(|x| x.0 > st.doc.max_id) && label != "set_object" {
        return Some((format!("{}/max_id", label), format!("after {}: max_id {} is below an object number in use", label, st.doc.max_id)));
    }
    let g = check_global(st, &s1, &label);
    if !counts_hold(&s1) {
        st.counts_held = false;
    }
    g
}

/// model-side decoding of a stream with the reference decoders (None: filter not supported by them)
fn ref_plain(d: &RDoc, id: Id) -> Option<Vec<u8>> {
    match d.objects.get(&id) {
        Some(RObj::Stream(sd, c)) => crate::refimpl::strictreader::StrictReader::new(&[]).decode_stream(sd, c).ok(),
        _ => None,
    }
}

/// an indirect object that is nothing but a reference cannot have that reference "removed";
/// such objects are kept out of the programs (wrapped in an array)
fn no_bare_ref(o: RObj) -> RObj {
    match o {
        RObj::Ref(..) => RObj::Array(vec![o]),
        x => x,
    }
}

/// file-structure containers (the writer drops them on purpose)
fn container_typed(o: &RObj) -> bool {
    match o {
        RObj::Stream(d, _) | RObj::Dict(d) => matches!(RObj::dict_get(d, b"Type"), Some(RObj::Name(n)) if n == b"XRef" || n == b"ObjStm") || RObj::dict_get(d, b"Linearized").is_some(),
        _ => false,
    }
}

fn page_tree_node(d: &RDoc, id: Id) -> bool {
    dict_of(d, id).map(|e| is_type(e, "Page") || is_type(e, "Pages") || is_type(e, "Catalog")).unwrap_or(false)
}
/// objects whose replacement would change what the page/content model expects
fn structural(d: &RDoc, id: Id) -> bool {
    if page_tree_node(d, id) {
        return true;
    }
    let pages = model_pages(d);
    for p in &pages {
        if model_content_ids(d, *p).contains(&id) {
            return true;
        }
        if let Some(RObj::Ref(n, g)) = dict_of(d, *p).and_then(|e| RObj::dict_get(e, b"Contents")) {
            if (*n, *g) == id {
                return true;
            }
        }
    }
    // resource dictionaries referenced from the page tree
    let mut res = false;
    for (oid, o) in &d.objects {
        if page_tree_node(d, *oid) {
            if let RObj::Dict(e) = o {
                if let Some(RObj::Ref(n, g)) = RObj::dict_get(e, b"Resources") {
                    if (*n, *g) == id {
                        res = true;
                    }
                    if let Some(RObj::Dict(rd)) = d.objects.get(&(*n, *g)) {
                        if rd.iter().any(|(_, v)| *v == rref(id)) {
                            res = true;
                        }
                    }
                }
            }
        }
    }
    res
}

/// Everything a program run depends on, so that a witness replays without the generator: the generated model, the
/// expected page content, the way the lopdf document was obtained (built directly, or loaded from the stored bytes of
/// a reference-writer file), and the PRNG state from which the steps draw their arguments.
pub struct ProgInit {
    pub model: RDoc,
    pub content: Vec<Vec<Vec<u8>>>,
    pub xref_stream: bool,
    pub file: Option<Vec<u8>>,
    pub rng: [u64; 4],
    pub len: usize,
}

impl ProgInit {
    fn to_json(&self, seed: u64, shard: u64, index: u64, history: &[String]) -> Value {
        json!({"kind":"program","seed":seed,"shard":shard,"index":index,"history":history,
            "start":rdoc_to_json(&self.model),
            "content":self.content.iter().map(|p| p.iter().map(|c| hex(c)).collect::<Vec<_>>()).collect::<Vec<_>>(),
            "xref_stream":self.xref_stream,
            "file":self.file.as_ref().map(|b| hex(b)),
            "rng":self.rng.to_vec(),
            "len":self.len})
    }
    fn from_json(w: &Value) -> Option<ProgInit> {
        let model = crate::util::rdoc_from_json(w.get("start")?)?;
        let content = w.get("content")?.as_array()?.iter().map(|p| p.as_array().map(|cs| cs.iter().filter_map(|c| c.as_str().and_then(unhex)).collect::<Vec<_>>())).collect::<Option<Vec<_>>>()?;
        let rs = w.get("rng")?.as_array()?;
        if rs.len() != 4 {
            return None;
        }
        let mut rng = [0u64; 4];
        for (i, x) in rs.iter().enumerate() {
            rng[i] = x.as_u64()?;
        }
        Some(ProgInit {
            model,
            content,
            xref_stream: w.get("xref_stream")?.as_bool()?,
            file: match w.get("file") {
                Some(Value::String(h)) => Some(unhex(h)?),
                _ => None,
            },
            rng,
            len: w.get("len")?.as_u64()? as usize,
        })
    }
}

fn unhex(s: &str) -> Option<Vec<u8>> {
    if s.len() % 2 != 0 {
        return None;
    }
    (0..s.len() / 2).map(|i| u8::from_str_radix(s.get(2 * i..2 * i + 2)?, 16).ok()).collect()
}

pub fn gen_program(seed: u64, shard: u64, index: u64) -> ProgInit {
    let mut r = Rng::for_case(seed, TAG, shard, index);
    let start = gen_start(&mut r);
    let via_file = r.chance(1, 3);
    let xref_stream = r.bool();
    let mut file = None;
    if via_file {
        // generated -> reference writer -> loaded
        let mut dis = BTreeSet::new();
        for f in ["str-raw-cr-eol", "str-raw-crlf-eol", "junk-before-header"] {
            dis.insert(f.to_string());
        }
        let h = crate::refimpl::refwriter::History::from_doc(&start.model);
        // (with a cross-reference stream, half of the files keep their non-stream objects in object streams, whose
        // containers may take numbers from gaps: the highest number can then belong to a compressed object)
        let wseed = r.next_u64();
        let style = if r.bool() { crate::refimpl::refwriter::XrefStyle::Table } else { crate::refimpl::refwriter::XrefStyle::Stream };
        let objstm = style == crate::refimpl::refwriter::XrefStyle::Stream && r.bool();
        let mut ch = crate::refimpl::refwriter::Choices::new(wseed);
        ch.disabled = dis;
        let mut rw = crate::refimpl::refwriter::RefWriter::new(&mut ch);
        rw.prefer_gap_numbers = objstm && r.bool();
        let w = rw.write(&h, style, objstm);
        file = Some(w.bytes);
    }
    let len = 1 + r.usize_below(40);
    ProgInit { model: start.model, content: start.content, xref_stream, file, rng: r.state(), len }
}

pub fn run_program(seed: u64, shard: u64, index: u64, out: Option<&mut ShardOut>) -> Option<Finding> {
    exec_program(&gen_program(seed, shard, index), seed, shard, index, out)
}

pub fn exec_program(init: &ProgInit, seed: u64, shard: u64, index: u64, out: Option<&mut ShardOut>) -> Option<Finding> {
    let mut r = Rng::from_state(init.rng);
    let mut doc = to_lo_doc(&init.model, init.xref_stream);
    if let Some(bytes) = &init.file {
        if let Ok(d) = Document::load_mem(bytes) {
            doc = d;
            // container objects of the file are ordinary (unreachable) objects from here on
        }
    }
    let mut st = State { doc, content: init.content.clone(), counts_held: true, reserved: BTreeSet::new(), history: vec![] };
    let s_init = snapshot(&st.doc);
    if let Some((sig, what)) = check_global(&st, &s_init, "initial") {
        return Some(Finding { signature: format!("C11/harness-initial/{}", sig), what, witness: init.to_json(seed, shard, index, &[]) });
    }
    let len = init.len;
    let mut found = None;
    for stepno in 0..len {
        if let Some((sig, what)) = step(&mut st, &mut r) {
            found = Some(Finding {
                signature: format!("C11/{}", sig),
                what: format!("step {} of {} ({}): {}", stepno + 1, len, st.history.join(" > "), what),
                witness: init.to_json(seed, shard, index, &st.history),
            });
            break;
        }
    }
    if let Some(o) = out {
        for w in st.history.windows(2) {
            o.digests.insert(crate::prng::fnv(&format!("succ:{}>{}", w[0], w[1])));
        }
        for h in &st.history {
            o.add(&format!("op:{}", h), 1);
        }
        o.add("steps", st.history.len() as u64);
    }
    found
}

pub fn run(cfg: &RunCfg) -> (PropMeta, ShardOut, Map<String, Value>) {
    let n = cfg.n(4000, 200_000);
    let per = (n as usize + cfg.threads - 1) / cfg.threads;
    let out = shards(cfg.threads, |shard| {
        let mut out = ShardOut::default();
        for i in 0..per {
            out.evaluations += 1;
            let f = run_program(cfg.seed, shard as u64, i as u64, Some(&mut out));
            out.digests.insert(crate::prng::fnv(&format!("prog:{}:{}", shard, i)));
            if let Some(f) = f {
                out.finding(f);
            }
            if i == 0 {
                out.sample(json!({"program_index":i,"note":"operation histogram and (op,op) succession digests are in counters / distinct"}));
            }
        }
        out
    });
    let meta = PropMeta {
        level: "exploration",
        rule: "random programs (1..40 steps) over new_object_id, add_object, set_object, delete_object, remove_object(annotation), prune_objects, delete_pages, renumber_objects(_with), compress, decompress, change_page_content, add_page_contents, add_to_page_content, add_xobject, add_graphics_state, get_or_create_resources, add_bookmark+build_outline, save+reload, on generated documents (1..6 pages in one or two tree levels; Contents as stream ref / array / reference to array (now and then shared by several pages) / absent, content streams plain, Flate-coded or Flate-coded with a PNG predictor; Resources own, by reference, or inherited, their Font / XObject / ExtGState categories now and then objects of their own; annotations incl. duplicates; shared, cyclic and unreachable extras), one third of them written by the reference writer and loaded first. After every step: per-operation write set against a snapshot taken before the call, fresh ids, no reference to a deleted object left, exact prune set, Count invariant, page list and page content vs the position-keyed edit model, resources in effect never shrink. distinct = programs + distinct (op,op) successions observed.".into(),
        assumptions: vec![
            "delete_object / set_object are aimed at objects that are not page-tree nodes (deleting a page is delete_pages' job)".into(),
            "renumbering steps are judged by C10's oracle; dangling references that start to resolve are C10's known finding and not double-reported here".into(),
        ],
        exhaustive: false,
        min_distinct: 500,
    };
    (meta, out, Map::new())
}

pub fn replay(w: &Value) -> Vec<Finding> {
    let g = |kk: &str| w.get(kk).and_then(|x| x.as_u64()).unwrap_or(0);
    // self-contained witnesses carry the start state; older ones only name the case and are regenerated
    match ProgInit::from_json(w) {
        Some(init) => exec_program(&init, g("seed"), g("shard"), g("index"), None).into_iter().collect(),
        None => run_program(g("seed"), g("shard"), g("index"), None).into_iter().collect(),
    }
}

#[allow(dead_code)]
fn _t(_: BTreeMap<u8, u8>) {}
