//! C19 — saving reports sink failures and ignores sink chunking (fault enumeration).
//! Events: every call made to an instrumented std::io::Write by Document::save_to /
//! IncrementalDocument::save_to: (bytes offered, bytes accepted | error kind).

use crate::bridge::*;
use crate::gen;
use crate::prng::Rng;
use crate::refimpl::robj::{RDoc, RObj};
use crate::util::*;
use lopdf::{Document, IncrementalDocument, Object};
use serde_json::{json, Map, Value};
use std::collections::HashSet;
use std::io::{self, Write};

pub const TAG: &str = "C19";

#[derive(Clone, Copy, Debug, PartialEq)]
enum FailKind {
    Hard,
    Zero,
    /// one failing call, after which the sink accepts writes again (an ignored error would
    /// otherwise be masked by the next failing call)
    HardOnce,
}

struct Sink {
    data: Vec<u8>,
    /// fail when this many bytes have been accepted
    fail_at: Option<(usize, FailKind)>,
    /// accept at most this many bytes per call (0 = unlimited); varied per call by rng
    chunk: usize,
    interrupts: bool,
    rng: Rng,
    calls: u64,
    call_lens: HashSet<usize>,
    failures_injected: u64,
    interrupts_injected: u64,
    pending_interrupt_budget: u32,
}

impl Sink {
    fn new(seed: u64) -> Sink {
        Sink {
            data: vec![],
            fail_at: None,
            chunk: 0,
            interrupts: false,
            rng: Rng::new(seed),
            calls: 0,
            call_lens: HashSet::new(),
            failures_injected: 0,
            interrupts_injected: 0,
            pending_interrupt_budget: 3,
        }
    }
}

impl Write for Sink {
    fn write(&mut self, buf: &[u8]) -> io::Result<usize> {
        self.calls += 1;
        self.call_lens.insert(buf.len());
        if buf.is_empty() {
            return Ok(0);
        }
        if self.interrupts && self.pending_interrupt_budget > 0 && self.rng.chance(1, 4) {
            // transient: must be retried transparently (bounded run of consecutive interrupts)
            self.pending_interrupt_budget -= 1;
            self.interrupts_injected += 1;
            return Err(io::Error::new(io::ErrorKind::Interrupted, "injected EINTR"));
        }
        self.pending_interrupt_budget = 3;
        let mut n = buf.len();
        if self.chunk > 0 {
            n = n.min(1 + self.rng.usize_below(self.chunk));
        }
        if let Some((p, kind)) = self.fail_at {
            let room = p - self.data.len().min(p);
            if room == 0 && !(kind == FailKind::HardOnce && self.failures_injected > 0) {
                self.failures_injected += 1;
                // a caller that keeps offering bytes to a sink that reports no progress would never return; the
                // verdict is taken after a fixed number of calls, not after a time-out
                if self.failures_injected > 20_000 {
                    panic!("the writer kept calling the sink after it had answered {} times with a failure at byte {}: the save would never return", self.failures_injected - 1, p);
                }
                return match kind {
                    FailKind::Hard | FailKind::HardOnce => Err(io::Error::new(io::ErrorKind::Other, "injected sink failure")),
                    FailKind::Zero => Ok(0),
                };
            }
            if room > 0 {
                n = n.min(room);
            }
        }
        self.data.extend_from_slice(&buf[..n]);
        Ok(n)
    }
    fn flush(&mut self) -> io::Result<()> {
        Ok(())
    }
}

#[derive(Clone)]
enum Subject {
    Plain(Document),
    Incr(IncrementalDocument),
}

impl Subject {
    fn save(&mut self, w: &mut Sink) -> io::Result<()> {
        match self {
            Subject::Plain(d) => d.save_to(w),
            Subject::Incr(d) => d.save_to(w),
        }
    }
    fn name(&self) -> &'static str {
        match self {
            Subject::Plain(_) => "plain",
            Subject::Incr(_) => "incremental",
        }
    }
}

struct Case {
    subject: Subject,
    /// model of what the saved file must load to
    expect: RDoc,
    xref_stream: bool,
}

fn small_doc(r: &mut Rng) -> RDoc {
    let dcfg = gen::DocCfg { max_objects: 1 + r.usize_below(10), max_depth: 1 + r.usize_below(3), generations: r.bool(), sparse: r.bool() };
    let mut d = gen::rdoc(r, &dcfg);
    // keep files small so that every byte position can be enumerated
    for o in d.objects.values_mut() {
        if let RObj::Stream(_, c) = o {
            c.truncate(40);
        }
    }
    d
}

fn build_case(r: &mut Rng, incremental: bool, xref_stream: bool) -> Option<Case> {
    let base = small_doc(r);
    if !incremental {
        return Some(Case { subject: Subject::Plain(to_lo_doc(&base, xref_stream)), expect: base, xref_stream });
    }
    let mut bytes = Vec::new();
    to_lo_doc(&base, xref_stream).save_to(&mut bytes).ok()?;
    let mut inc = IncrementalDocument::load_from(&bytes[..]).ok()?;
    let mut expect = from_lo_doc(inc.get_prev_documents());
    expect.objects.retain(|_, o| !is_xref_stream_obj(o));
    // edits: replace some, add some
    let ids: Vec<(u32, u16)> = expect.objects.keys().cloned().collect();
    let cfg = gen::ObjCfg { max_depth: 2, refs: true, ref_pool: if ids.is_empty() { vec![(1, 0)] } else { ids.clone() }, max_str: 20, max_children: 4 };
    for id in &ids {
        if r.chance(1, 3) {
            let o = gen::top_object(r, &cfg);
            inc.new_document.set_object(*id, to_lo(&o));
            expect.objects.insert(*id, o);
        }
    }
    for _ in 0..r.usize_below(3) {
        let o = gen::top_object(r, &cfg);
        let id = inc.new_document.add_object(to_lo(&o));
        expect.objects.insert(id, o);
    }
    expect.version = base.version.clone();
    expect.binary_mark = base.binary_mark.clone();
    Some(Case { subject: Subject::Incr(inc), expect, xref_stream })
}

fn loads_to(bytes: &[u8], expect: &RDoc) -> Option<String> {
    match Document::load_mem(bytes) {
        Err(e) => Some(format!("file does not load: {:?}", e)),
        Ok(d) => {
            let got = from_lo_doc(&d);
            let diffs = diff_docs(expect, &got, false, &|_, o| is_xref_stream_obj(o));
            diffs.first().map(|(_, s)| s.clone())
        }
    }
}

fn mk_finding(sig: &str, what: String, case_seed: (u64, u64, u64), incremental: bool, xref_stream: bool, detail: Value) -> Finding {
    Finding {
        signature: format!("C19/{}/{}", sig, if incremental { "incremental" } else { "plain" }),
        what,
        witness: json!({"kind":"case","seed":case_seed.0,"shard":case_seed.1,"index":case_seed.2,"incremental":incremental,"xref_stream":xref_stream,"detail":detail}),
    }
}

/// Runs the whole fault enumeration for one case. `full`: enumerate every byte position.
fn check_case(seed: u64, shard: u64, index: u64, out: &mut ShardOut) {
    let mut r = Rng::for_case(seed, TAG, shard, index);
    let incremental = index % 2 == 1;
    let xref_stream = (index / 2) % 2 == 1;
    let Some(case) = build_case(&mut r, incremental, xref_stream) else {
        out.count("case_build_failed");
        return;
    };
    let cs = (seed, shard, index);
    let kind = case.subject.name();
    // golden
    let mut g = Sink::new(1);
    let mut s0 = case.subject.clone();
    if let Err(e) = s0.save(&mut g) {
        out.finding(mk_finding("golden-save-failed", format!("save to a healthy sink failed: {}", e), cs, incremental, case.xref_stream, Value::Null));
        return;
    }
    let golden = g.data;
    out.add("golden_bytes", golden.len() as u64);
    out.max("max_golden_len", golden.len() as u64);
    for l in &g.call_lens {
        out.digests.insert(crate::prng::fnv(&format!("site:{}:{}", kind, l)));
    }
    out.max("max_write_calls_per_save", g.calls);
    if let Some(m) = loads_to(&golden, &case.expect) {
        out.finding(mk_finding("golden-content", format!("golden file does not load to the saved content: {}", m), cs, incremental, case.xref_stream, Value::Null));
        return;
    }
    // (1) chunking + transient interrupts
    for (k, intr) in [(1usize, false), (2, true), (7, false), (64, true), (0, true)] {
        let mut s = case.subject.clone();
        let mut w = Sink::new(r.next_u64());
        w.chunk = k;
        w.interrupts = intr;
        out.evaluations += 1;
        out.count("chunking_policies_run");
        let res = crate::props::catch(|| s.save(&mut w));
        out.add("interrupts_injected", w.interrupts_injected);
        match res {
            Err(p) => out.finding(mk_finding("chunking-panic", format!("save panicked under chunk<={} interrupts={}: {}", k, intr, p), cs, incremental, case.xref_stream, Value::Null)),
            Ok(Err(e)) => out.finding(mk_finding("chunking-error", format!("save failed under short writes (chunk<={} interrupts={}): {}", k, intr, e), cs, incremental, case.xref_stream, Value::Null)),
            Ok(Ok(())) => {
                if w.data != golden {
                    let at = w.data.iter().zip(&golden).position(|(a, b)| a != b).unwrap_or(w.data.len().min(golden.len()));
                    out.finding(mk_finding(
                        "chunking-bytes",
                        format!("output depends on sink chunking (chunk<={} interrupts={}): first difference at byte {} (lengths {} vs {})", k, intr, at, w.data.len(), golden.len()),
                        cs, incremental, case.xref_stream, Value::Null));
                }
            }
        }
    }
    // (1b) the path-based entry points (Document::save / IncrementalDocument::save): a healthy file receives the
    // golden bytes; a device that accepts no byte (/dev/full: every write fails with ENOSPC, also the last buffered
    // one that is only flushed when the writer is finished) must make save return an error
    {
        let dir = std::env::var("VERIF_OUT_DIR").or_else(|_| std::env::var("VERIF_DIR")).map(std::path::PathBuf::from).unwrap_or_else(|_| std::env::temp_dir()).join("work").join("C19");
        let _ = std::fs::create_dir_all(&dir);
        let path = dir.join(format!("save-{}-{}-{}-{}.pdf", std::process::id(), seed, shard, index));
        let mut s = case.subject.clone();
        out.evaluations += 1;
        out.count("path_saves_to_a_healthy_file");
        let res = crate::props::catch(|| match &mut s {
            Subject::Plain(d) => d.save(&path).map(|_| ()),
            Subject::Incr(d) => d.save(&path).map(|_| ()),
        });
        match res {
            Err(p) => out.finding(mk_finding("path-save-panic", format!("save(path) panicked: {}", p), cs, incremental, case.xref_stream, Value::Null)),
            Ok(Err(e)) => out.finding(mk_finding("path-save-error", format!("save(path) to a healthy file failed: {}", e), cs, incremental, case.xref_stream, Value::Null)),
            Ok(Ok(())) => {
                if std::fs::read(&path).ok().as_deref() != Some(&golden[..]) {
                    out.finding(mk_finding("path-save-bytes", "save(path) wrote other bytes than save_to".into(), cs, incremental, case.xref_stream, Value::Null));
                }
            }
        }
        let _ = std::fs::remove_file(&path);
        if std::path::Path::new("/dev/full").exists() {
            let mut s = case.subject.clone();
            out.evaluations += 1;
            out.count("path_saves_to_a_full_device");
            let res = crate::props::catch(|| match &mut s {
                Subject::Plain(d) => d.save("/dev/full").map(|_| ()),
                Subject::Incr(d) => d.save("/dev/full").map(|_| ()),
            });
            match res {
                Err(p) => out.finding(mk_finding("path-save-panic", format!("save(/dev/full) panicked: {}", p), cs, incremental, case.xref_stream, Value::Null)),
                Ok(Ok(())) => out.finding(mk_finding("path-save-success-on-failing-device", format!("save to a device that accepts no byte returned Ok ({} bytes of output)", golden.len()), cs, incremental, case.xref_stream, Value::Null)),
                Ok(Err(_)) => {}
            }
        }
    }
    // (2)+(3) every failure position x kind
    let positions: Vec<usize> = (0..golden.len()).collect();
    for &p in &positions {
        for fk in [FailKind::Hard, FailKind::Zero, FailKind::HardOnce] {
            let mut s = case.subject.clone();
            let mut w = Sink::new(p as u64);
            w.fail_at = Some((p, fk));
            // vary chunking with the position so failures also land inside short writes
            w.chunk = [0usize, 0, 3, 16][p % 4];
            out.evaluations += 1;
            let res = crate::props::catch(|| s.save(&mut w));
            out.add("faults_injected", w.failures_injected);
            let mut bad: Option<(&str, String)> = None;
            match res {
                Err(pm) if pm.contains("the save would never return") => bad = Some(("fault-never-returns", format!("sink failing at byte {} ({:?}): {}", p, fk, pm))),
                Err(pm) => bad = Some(("fault-panic", format!("save panicked when the sink failed at byte {} ({:?}): {}", p, fk, pm))),
                Ok(Ok(())) => bad = Some(("fault-ok", format!("save returned Ok although the sink failed at byte {} ({:?}) of {}", p, fk, golden.len()))),
                Ok(Err(_)) => {
                    if w.failures_injected == 0 {
                        bad = Some(("fault-spurious", format!("save failed before the injected fault at byte {}", p)));
                    } else if w.data.len() != p || w.data[..] != golden[..p] {
                        // (also for a sink that works again after its single failure: whatever the library still sends
                        // after the failed call would no longer be a prefix of the complete output)
                        bad = Some(("fault-prefix", format!("bytes delivered before the failure at {} are not the golden prefix (delivered {})", p, w.data.len())));
                    }
                }
            }
            if bad.is_none() {
                // later save of the same value to a healthy sink
                let mut h = Sink::new(0);
                match crate::props::catch(|| s.save(&mut h)) {
                    Err(pm) => bad = Some(("resave-panic", format!("re-save after a failure at byte {} panicked: {}", p, pm))),
                    Ok(Err(e)) => bad = Some(("resave-error", format!("re-save after a failure at byte {} failed: {}", p, e))),
                    Ok(Ok(())) => {
                        // content check is the expensive part: do it when the failed save got
                        // far enough to have mutated the document (cheap filter: always for
                        // small files, every 7th position otherwise)
                        if golden.len() <= 1500 || p % 7 == 0 || p + 64 >= golden.len() {
                            out.count("resave_content_checks");
                            if let Some(m) = loads_to(&h.data, &case.expect) {
                                bad = Some(("resave-content", format!("after a failure at byte {}, re-saving yields a file that {}", p, m)));
                            }
                        }
                    }
                }
            }
            if let Some((sig, what)) = bad {
                out.finding(mk_finding(sig, what, cs, incremental, case.xref_stream, json!({"position":p,"kind":format!("{:?}",fk),"golden_len":golden.len()})));
                // one witness per (case, signature) is enough; continue with other positions
            }
        }
    }
    out.add("failure_positions_enumerated", positions.len() as u64);
    out.digests.insert(crate::prng::fnv_bytes(&golden));
    if index < 2 {
        out.sample(json!({"kind":kind,"xref_stream":case.xref_stream,"golden_len":golden.len(),"write_calls":g.calls,"positions_enumerated":positions.len(),"golden_head":String::from_utf8_lossy(&golden[..golden.len().min(120)])}));
    }
}

pub fn run(cfg: &RunCfg) -> (PropMeta, ShardOut, Map<String, Value>) {
    let n = cfg.n(64, 2400);
    let per = (n as usize + cfg.threads - 1) / cfg.threads;
    let out = shards(cfg.threads, |shard| {
        let mut out = ShardOut::default();
        for i in 0..per {
            check_case(cfg.seed, shard as u64, i as u64, &mut out);
        }
        out
    });
    let meta = PropMeta {
        level: "fault_enumeration",
        rule: "per generated document (plain save and incremental save after random edits, xref table and xref stream): golden bytes from a healthy sink; 5 chunking/Interrupted policies must reproduce the golden bytes; the path-based save must write the golden bytes to a healthy file and return an error on /dev/full; then EVERY byte position p of the golden output x {persistent hard error, Ok(0), single failing call} is injected: save must return (a writer that calls a failing sink 20,000 times over is taken not to) with Err, delivered bytes must equal golden[..p], and re-saving the same value to a healthy sink must load to the model content. distinct = distinct golden files + distinct (save kind, write-call length) sites observed.".into(),
        assumptions: vec![
            "the sink reports errors truthfully (an error means none of the offered bytes of that call were accepted)".into(),
            "content after re-save is checked through lopdf's own loader against the model (C03's strict reader covers structural validity separately); for files > 1500 bytes the content check runs on every 7th position and the last 64".into(),
        ],
        exhaustive: true,
        min_distinct: 20,
    };
    (meta, out, Map::new())
}

pub fn replay(w: &Value) -> Vec<Finding> {
    let mut out = ShardOut::default();
    let g = |k: &str| w.get(k).and_then(|x| x.as_u64()).unwrap_or(0);
    check_case(g("seed"), g("shard"), g("index"), &mut out);
    out.findings
}
