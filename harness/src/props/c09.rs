//! C09 — stream filters decode as specified; compression is lossless.
//! Oracle: plaintext chosen by the generator and encoded by the *reference encoders* must come
//! back exactly from lopdf's decoders; Length bookkeeping after every content-changing call;
//! exhaustive sub-spaces: all 2^24 Paeth triples, every Sub/Up/Avg byte pair, every ASCII85
//! final group of 1..2 bytes (3-byte groups: sampled in quick, all 2^24 in thorough).

use crate::bridge::*;
use crate::prng::Rng;
use crate::refimpl::codecs::{self, RowFilter};
use crate::refimpl::robj::RObj;
use crate::util::*;
use lopdf::filters::png::{decode_row, FilterType};
use lopdf::{Dictionary, Document, Object, Stream};
use serde_json::{json, Map, Value};

pub const TAG: &str = "C09";

fn k(s: &str) -> Vec<u8> {
    s.as_bytes().to_vec()
}

#[derive(Clone, Debug)]
pub struct FCase {
    pub plain: Vec<u8>,
    pub dict: Vec<(Vec<u8>, RObj)>,
    pub encoded: Vec<u8>,
    pub features: Vec<String>,
}

fn plaintext(r: &mut Rng, max: usize) -> Vec<u8> {
    let n = match r.below(8) {
        0 => 0,
        1 => 1 + r.usize_below(4),
        _ => r.usize_below(max + 1),
    };
    match r.below(5) {
        0 => r.bytes(n),
        1 => vec![r.u8(); n],
        2 => (0..n).map(|i| (i % (1 + r.clone().usize_below(9))) as u8).collect(),
        3 => (0..n).map(|_| if r.chance(1, 10) { r.u8() } else { 0 }).collect(),
        _ => b"BT /F1 12 Tf (The quick brown fox) Tj ET\n".iter().cycle().take(n).cloned().collect(),
    }
}

/// `len` bytes with `bits` random low bits each
fn noisy_plain(seed: u64, bits: u32, len: usize) -> Vec<u8> {
    let mut r = Rng::new(seed);
    let mask = ((1u32 << bits) - 1) as u8;
    (0..len).map(|_| r.u8() & mask).collect()
}

fn regular_plain(byte: u8, period: usize, len: usize) -> Vec<u8> {
    (0..len).map(|i| byte.wrapping_add((i % period.max(1)) as u8)).collect()
}

pub fn gen_case(r: &mut Rng) -> FCase {
    let nf = 1 + r.usize_below(3);
    let mut features = vec![];
    // choose filters in decoding order, then encode from the last to the first
    let filters: Vec<u8> = (0..nf).map(|_| r.below(3) as u8).collect(); // 0 flate 1 lzw 2 a85
    let mut plain = plaintext(r, 1500);
    let mut parms: Vec<Option<Vec<(Vec<u8>, RObj)>>> = vec![None; nf];
    // predictor geometry for predictor-capable filters (applied to that filter's output)
    let mut geoms: Vec<Option<(usize, usize, usize, i64, u64)>> = vec![None; nf];
    for (i, f) in filters.iter().enumerate() {
        if *f != 2 && r.chance(1, 2) {
            // 1..4 components are the common case; any number is legal since PDF 1.3 (DeviceN samples)
            let colors = if r.chance(1, 5) { 5 + r.usize_below(8) } else { 1 + r.usize_below(4) };
            let bpc = *r.pick(&[8usize, 16]);
            let cols = 1 + r.usize_below(64);
            let pred = 10 + r.below(6) as i64;
            geoms[i] = Some((colors, bpc, cols, pred, r.below(6)));
        }
    }
    // the innermost predictor determines the plaintext length granularity; to keep every layer
    // consistent only the LAST filter in decoding order (whose output is the plaintext) and
    // earlier ones independently need row-multiple lengths of *their* output. Encode inside-out.
    let mut data: Vec<u8>;
    // layer outputs: out[nf-1] = plain; out[i-1] = encode_i(out[i])... we build from the end
    let mut cur = std::mem::take(&mut plain);
    for i in (0..nf).rev() {
        // cur is the output this filter must produce
        let mut payload = cur.clone();
        if let Some((colors, bpc, cols, pred, rowsel)) = geoms[i] {
            let row = cols * colors * bpc / 8;
            if i == nf - 1 {
                // trim plaintext to whole rows
                cur.truncate(cur.len() / row * row);
                payload = cur.clone();
            }
            if !payload.is_empty() && payload.len() % row == 0 {
                let mut rr = r.clone();
                let mut pick = |_row: usize| -> RowFilter {
                    let kk = if rowsel < 5 { rowsel as usize } else { rr.usize_below(5) };
                    [RowFilter::None, RowFilter::Sub, RowFilter::Up, RowFilter::Avg, RowFilter::Paeth][kk]
                };
                payload = codecs::png_encode(&payload, colors, bpc, cols, &mut pick);
                let mut p = vec![(k("Predictor"), RObj::Int(pred)), (k("Columns"), RObj::Int(cols as i64))];
                if colors != 1 || r.bool() {
                    p.push((k("Colors"), RObj::Int(colors as i64)));
                }
                if bpc != 8 || r.bool() {
                    p.push((k("BitsPerComponent"), RObj::Int(bpc as i64)));
                }
                parms[i] = Some(p);
                features.push(format!("predictor:{}", if rowsel < 5 { ["none", "sub", "up", "avg", "paeth"][rowsel as usize] } else { "mixed" }));
                features.push(format!("bpp:{}", colors * bpc / 8));
            } else {
                geoms[i] = None;
            }
        }
        if i == nf - 1 {
            plain = cur.clone();
        }
        cur = match filters[i] {
            0 => {
                features.push("flate".into());
                let mode = match r.below(3) {
                    0 => codecs::ZMode::Stored,
                    1 => codecs::ZMode::Fixed,
                    _ => codecs::ZMode::Mixed,
                };
                codecs::zlib_encode(&payload, mode, r)
            }
            1 => {
                let early = r.bool();
                features.push(format!("lzw:early{}", early as u8));
                if !early {
                    let p = parms[i].get_or_insert_with(Vec::new);
                    p.push((k("EarlyChange"), RObj::Int(0)));
                } else if r.chance(1, 3) {
                    let p = parms[i].get_or_insert_with(Vec::new);
                    p.push((k("EarlyChange"), RObj::Int(1)));
                }
                codecs::lzw_encode(&payload, early, r)
            }
            _ => {
                features.push("a85".into());
                codecs::a85_encode(&payload, &codecs::A85Opts { use_z: r.bool(), whitespace_every: *r.pick(&[0usize, 0, 1, 64]), eod: true })
            }
        };
    }
    data = cur;
    let names: Vec<RObj> = filters.iter().map(|f| RObj::Name(k(["FlateDecode", "LZWDecode", "ASCII85Decode"][*f as usize]))).collect();
    let mut dict = vec![];
    let any_parms = parms.iter().any(|p| p.is_some());
    if nf == 1 && r.bool() {
        dict.push((k("Filter"), names[0].clone()));
        if let Some(p) = &parms[0] {
            if r.chance(1, 4) {
                dict.push((k("DecodeParms"), RObj::Array(vec![RObj::Dict(p.clone())])));
                features.push("parms:array".into());
            } else {
                dict.push((k("DecodeParms"), RObj::Dict(p.clone())));
                features.push("parms:dict".into());
            }
        }
    } else {
        dict.push((k("Filter"), RObj::Array(names)));
        if any_parms {
            dict.push((k("DecodeParms"), RObj::Array(parms.iter().map(|p| p.clone().map(RObj::Dict).unwrap_or(RObj::Null)).collect())));
            features.push("parms:array".into());
        }
    }
    features.push(format!("chain:{}", nf));
    if data.is_empty() && !plain.is_empty() {
        data = vec![];
    }
    FCase { plain, dict, encoded: data, features }
}

pub fn check_case(c: &FCase) -> Option<(String, String)> {
    let mut d = to_lo_dict(&c.dict);
    d.set("Length", Object::Integer(c.encoded.len() as i64));
    let s = Stream { dict: d, content: c.encoded.clone(), allows_compression: true, start_position: None };
    match s.decompressed_content() {
        Ok(out) => {
            if out != c.plain {
                let at = out.iter().zip(&c.plain).position(|(a, b)| a != b).unwrap_or(out.len().min(c.plain.len()));
                return Some(("decode".into(), format!("decompressed_content differs from the plaintext at byte {} (lengths {} vs {})", at, out.len(), c.plain.len())));
            }
        }
        Err(e) => return Some(("decode-error".into(), format!("decompressed_content failed on a valid stream: {:?}", e))),
    }
    match s.get_plain_content() {
        Ok(out) if out == c.plain => {}
        Ok(_) => return Some(("get_plain_content".into(), "get_plain_content differs from the plaintext".into())),
        Err(e) => return Some(("get_plain_content".into(), format!("get_plain_content failed: {:?}", e))),
    }
    let mut s2 = s.clone();
    if let Err(e) = s2.decompress() {
        return Some(("decompress".into(), format!("decompress failed: {:?}", e)));
    }
    if s2.content != c.plain || s2.dict.has(b"Filter") || s2.dict.has(b"DecodeParms") {
        return Some(("decompress".into(), "decompress left wrong content or kept Filter/DecodeParms".into()));
    }
    if s2.dict.get(b"Length").and_then(Object::as_i64).ok() != Some(s2.content.len() as i64) {
        return Some(("length".into(), "Length != content length after decompress".into()));
    }
    // compress() on a stream that already carries filters: whatever it decides to do, the stream must still
    // decode to the same bytes, must not grow, and Length must follow the content
    let mut s3 = s.clone();
    if let Err(e) = s3.compress() {
        return Some(("compress".into(), format!("compress failed on an already filtered stream: {:?}", e)));
    }
    if s3.content.len() > s.content.len() {
        return Some(("compress-longer".into(), format!("compress made an already filtered stream longer: {} -> {}", s.content.len(), s3.content.len())));
    }
    if s3.dict.get(b"Length").and_then(Object::as_i64).ok() != Some(s3.content.len() as i64) {
        return Some(("length".into(), "Length != content length after compress of an already filtered stream".into()));
    }
    match s3.decompressed_content() {
        Ok(out) if out == c.plain => {}
        _ => return Some(("compress-lossy".into(), "after compress() an already filtered stream no longer decodes to its plaintext".into())),
    }
    None
}

/// Whatever the Length entry held before a content-changing call - nothing, a stale number, a reference to a length
/// object as foreign files have it - it has to equal the content length afterwards.
fn stale_length(s: &mut Stream, how: usize) {
    match how % 4 {
        1 => s.dict.set("Length", Object::Reference((9, 0))),
        2 => s.dict.set("Length", Object::Integer(s.content.len() as i64 + 7)),
        3 => {
            s.dict.remove(b"Length");
        }
        _ => {}
    }
}

fn check_compress(plain: &[u8]) -> Option<(String, String)> {
    let how = plain.len();
    let mut s = Stream::new(Dictionary::new(), plain.to_vec());
    stale_length(&mut s, how);
    if s.compress().is_err() {
        return Some(("compress".into(), "compress failed".into()));
    }
    if s.content.len() > plain.len() {
        return Some(("compress-longer".into(), format!("compress made the stream longer: {} -> {}", plain.len(), s.content.len())));
    }
    // (incompressible content is left alone: then the call did not change the content and owes Length nothing)
    let changed = s.content != plain;
    if (changed || how % 4 == 0) && s.dict.get(b"Length").and_then(Object::as_i64).ok() != Some(s.content.len() as i64) {
        return Some(("length".into(), "Length != content length after compress".into()));
    }
    if !changed {
        s.dict.set("Length", Object::Integer(s.content.len() as i64));
    }
    match s.get_plain_content() {
        Ok(p) if p == plain => {}
        _ => return Some(("compress-lossy".into(), "decoding the compressed stream does not return the original bytes".into())),
    }
    let mut s3 = s.clone();
    if s3.is_compressed() {
        stale_length(&mut s3, how / 4);
        if s3.decompress().is_err() || s3.content != plain {
            return Some(("compress-lossy".into(), "decompress(compress(x)) != x".into()));
        }
        if s3.dict.get(b"Length").and_then(Object::as_i64).ok() != Some(plain.len() as i64) {
            return Some(("length".into(), "Length wrong after decompress(compress(x))".into()));
        }
    }
    // set_content / set_plain_content
    let mut s4 = s.clone();
    stale_length(&mut s4, how / 16);
    s4.set_content(plain[..plain.len() / 2].to_vec());
    if s4.dict.get(b"Length").and_then(Object::as_i64).ok() != Some((plain.len() / 2) as i64) {
        return Some(("length".into(), "Length wrong after set_content".into()));
    }
    let mut s5 = s;
    stale_length(&mut s5, how / 64);
    s5.set_plain_content(plain.to_vec());
    if s5.dict.get(b"Length").and_then(Object::as_i64).ok() != Some(plain.len() as i64) || s5.dict.has(b"Filter") || s5.content != plain {
        return Some(("length".into(), "set_plain_content left a wrong Length / Filter / content".into()));
    }
    None
}

fn check_document_level(r: &mut Rng) -> Option<(String, String)> {
    let mut doc = Document::with_version("1.5");
    let mut plains = vec![];
    for _ in 0..1 + r.usize_below(5) {
        let p = plaintext(r, 800);
        let id = doc.add_object(Stream::new(Dictionary::new(), p.clone()));
        plains.push((id, p));
    }
    doc.compress();
    for (id, p) in &plains {
        let s = doc.get_object(*id).and_then(Object::as_stream).ok()?;
        if s.content.len() > p.len() {
            return Some(("compress-longer".into(), "Document::compress lengthened a stream".into()));
        }
        if s.get_plain_content().ok().as_ref() != Some(p) {
            return Some(("compress-lossy".into(), "Document::compress is lossy".into()));
        }
        if s.dict.get(b"Length").and_then(Object::as_i64).ok() != Some(s.content.len() as i64) {
            return Some(("length".into(), "Length wrong after Document::compress".into()));
        }
    }
    doc.decompress();
    for (id, p) in &plains {
        let s = doc.get_object(*id).and_then(Object::as_stream).ok()?;
        if &s.content != p || s.dict.has(b"Filter") {
            return Some(("compress-lossy".into(), "Document::decompress(Document::compress(x)) != x".into()));
        }
        if s.dict.get(b"Length").and_then(Object::as_i64).ok() != Some(p.len() as i64) {
            return Some(("length".into(), "Length wrong after Document::decompress".into()));
        }
    }
    None
}

fn a85_stream(enc: &[u8]) -> Stream {
    let mut d = Dictionary::new();
    d.set("Filter", Object::Name(b"ASCII85Decode".to_vec()));
    Stream { dict: d, content: enc.to_vec(), allows_compression: true, start_position: None }
}

pub fn run(cfg: &RunCfg) -> (PropMeta, ShardOut, Map<String, Value>) {
    let n = cfg.n(60_000, 3_000_000);
    let per = (n as usize + cfg.threads - 1) / cfg.threads;
    let thorough = !cfg.quick();
    let out = shards(cfg.threads, |shard| {
        let mut out = ShardOut::default();
        for i in 0..per {
            let mut r = Rng::for_case(cfg.seed, TAG, shard as u64, i as u64);
            let c = gen_case(&mut r);
            out.evaluations += 1;
            for f in &c.features {
                out.add(&format!("feature:{}", f), 1);
            }
            if !c.plain.is_empty() {
                out.digests.insert(crate::prng::fnv_bytes(&c.encoded) ^ crate::prng::fnv_bytes(format!("{:?}", c.dict).as_bytes()));
            }
            if let Some((sig, what)) = check_case(&c) {
                // signature: clause + the minimal feature set (predictor kind / parms form / filter)
                let mut fs: Vec<&String> = c.features.iter().filter(|f| f.starts_with("predictor") || f.starts_with("parms") || f.starts_with("lzw") || f.starts_with("bpp")).collect();
                fs.sort();
                fs.dedup();
                out.finding(Finding {
                    signature: format!("C09/{}/{}", sig, fs.iter().map(|s| s.as_str()).collect::<Vec<_>>().join("+")),
                    what,
                    witness: json!({"kind":"stream","dict":robj_to_json(&RObj::Dict(c.dict.clone())),"encoded":hex(&c.encoded),"plain":hex(&c.plain),"features":c.features}),
                });
            }
            if i == 0 {
                // very long, very regular content (blank scans, masks): deflate reaches its maximum ratio of about
                // 1030:1 here, and the round trip has to hold for it like for anything else
                let (byte, period, len) = (r.u8(), 1 + r.usize_below(4), (1usize << 20) + r.usize_below(3 << 20));
                let p = regular_plain(byte, period, len);
                out.evaluations += 1;
                out.count("compress_roundtrips_megabyte_regular");
                if let Some((sig, what)) = check_compress(&p) {
                    out.finding(Finding { signature: format!("C09/{}/megabyte-regular", sig), what, witness: json!({"kind":"compress-regular","byte":byte,"period":period,"len":len}) });
                }
            }
            if i == 1 || i == 2 {
                // large and only mildly compressible content (image samples, font programs): the deflated form is far
                // larger than any internal buffer of the encoder. The bytes are a pure function of (seed, bits, len).
                let (nseed, bits, len) = (r.next_u64(), 4 + r.below(4) as u32, 100_000 + r.usize_below(400_000));
                let p = noisy_plain(nseed, bits, len);
                out.evaluations += 1;
                out.count("compress_roundtrips_large_noisy");
                if let Some((sig, what)) = check_compress(&p) {
                    out.finding(Finding { signature: format!("C09/{}/large-noisy", sig), what, witness: json!({"kind":"compress-noisy","seed":nseed,"bits":bits,"len":len}) });
                }
            }
            if i % 4 == 0 {
                let p = plaintext(&mut r, 3000);
                out.evaluations += 1;
                out.count("compress_roundtrips");
                if let Some((sig, what)) = check_compress(&p) {
                    out.finding(Finding { signature: format!("C09/{}", sig), what, witness: json!({"kind":"compress","plain":hex(&p)}) });
                }
            }
            if i % 64 == 0 {
                out.evaluations += 1;
                out.count("document_level_roundtrips");
                if let Some((sig, what)) = check_document_level(&mut r) {
                    out.finding(Finding { signature: format!("C09/document/{}", sig), what, witness: json!({"kind":"document","seed":cfg.seed,"shard":shard,"index":i}) });
                }
            }
            if i == 0 {
                out.sample(json!({"dict": RObj::Dict(c.dict.clone()).show(), "plain_len": c.plain.len(), "encoded_len": c.encoded.len(), "features": c.features}));
            }
        }
        // ---- exhaustive: Paeth triples (this shard's share of `left`)
        let mut a = shard;
        while a < 256 {
            for b in 0..256usize {
                for c in 0..256usize {
                    let p0 = codecs::paeth(0, c as u8, 0);
                    let mut cur = [(a as u8).wrapping_sub(p0), 0u8];
                    let prev = [c as u8, b as u8];
                    decode_row(FilterType::Paeth, 1, &prev, &mut cur);
                    let exp = codecs::paeth(a as u8, b as u8, c as u8);
                    if cur[0] != a as u8 || cur[1] != exp {
                        out.finding(Finding {
                            signature: "C09/decode_row/paeth".into(),
                            what: format!("Paeth(left={}, above={}, upper-left={}) decoded to {} (first byte {}), PNG defines {}", a, b, c, cur[1], cur[0], exp),
                            witness: json!({"kind":"paeth","a":a,"b":b,"c":c}),
                        });
                    }
                }
            }
            out.add("paeth_triples_checked", 65536);
            out.evaluations += 65536;
            // Sub / Up / Avg: every (left/above, raw) pair for this `a`
            for b in 0..256usize {
                for x in 0..256usize {
                    for (ft, rf) in [(FilterType::Sub, RowFilter::Sub), (FilterType::Up, RowFilter::Up), (FilterType::Avg, RowFilter::Avg)] {
                        let prev = [7u8, b as u8];
                        let mut cur = [a as u8, x as u8];
                        let mut exp = [a as u8, x as u8];
                        decode_row(ft, 1, &prev, &mut cur);
                        codecs::png_unfilter_row(rf, 1, &prev, &mut exp);
                        if cur != exp {
                            out.finding(Finding {
                                signature: format!("C09/decode_row/{:?}", ft).to_lowercase().replace("c09", "C09"),
                                what: format!("{:?} row [{} {}] over previous [7 {}] decoded to {:?}, PNG defines {:?}", ft, a, x, b, cur, exp),
                                witness: json!({"kind":"row","filter":format!("{:?}", ft),"prev":[7,b],"cur":[a,x]}),
                            });
                        }
                    }
                }
            }
            out.add("sub_up_avg_cases_checked", 3 * 65536);
            a += cfg.threads;
        }
        // ---- exhaustive: ASCII85 final groups of 1 and 2 bytes; 3-byte groups sampled or complete
        let opts = codecs::A85Opts { use_z: false, whitespace_every: 0, eod: true };
        let mut a = shard;
        while a < 256 {
            let one = [a as u8];
            let enc = codecs::a85_encode(&one, &opts);
            if a85_stream(&enc).decompressed_content().ok().as_deref() != Some(&one[..]) {
                out.finding(Finding { signature: "C09/a85/final-group-1".into(), what: format!("1-byte final group {:02x} does not decode", a), witness: json!({"kind":"a85","bytes":hex(&one)}) });
            }
            for b in 0..256usize {
                let two = [a as u8, b as u8];
                let enc = codecs::a85_encode(&two, &opts);
                if a85_stream(&enc).decompressed_content().ok().as_deref() != Some(&two[..]) {
                    out.finding(Finding { signature: "C09/a85/final-group-2".into(), what: format!("2-byte final group {:02x}{:02x} does not decode", a, b), witness: json!({"kind":"a85","bytes":hex(&two)}) });
                }
                let step = if thorough { 1 } else { 37 };
                let mut c = (a * 7 + b) % step;
                while c < 256 {
                    let three = [a as u8, b as u8, c as u8];
                    let enc = codecs::a85_encode(&three, &opts);
                    if a85_stream(&enc).decompressed_content().ok().as_deref() != Some(&three[..]) {
                        out.finding(Finding { signature: "C09/a85/final-group-3".into(), what: format!("3-byte final group {} does not decode", hex(&three)), witness: json!({"kind":"a85","bytes":hex(&three)}) });
                    }
                    out.add("a85_three_byte_groups_checked", 1);
                    c += step;
                }
            }
            out.add("a85_one_and_two_byte_groups_checked", 257);
            out.evaluations += 257;
            a += cfg.threads;
        }
        if shard == 0 {
            // z groups and the u32 boundary
            for (enc, exp) in [
                (&b"z~>"[..], vec![0u8, 0, 0, 0]),
                (b"zz~>", vec![0u8; 8]),
                (b"s8W-!~>", vec![0xff, 0xff, 0xff, 0xff]),
                (b"s8W-!z~>", vec![0xff, 0xff, 0xff, 0xff, 0, 0, 0, 0]),
                (b"!!!!!~>", vec![0, 0, 0, 0]),
                (b"~>", vec![]),
                (b"87cURD]i,\"Ebo80~>", b"Hello World!".to_vec()),
                (b"87cUR D]i,\"\nEbo80~>", b"Hello World!".to_vec()),
            ] {
                out.evaluations += 1;
                if a85_stream(enc).decompressed_content().ok() != Some(exp.clone()) {
                    out.finding(Finding { signature: "C09/a85/special-group".into(), what: format!("ASCII85 {:?} does not decode to {}", String::from_utf8_lossy(enc), hex(&exp)), witness: json!({"kind":"a85enc","enc":hex(enc),"exp":hex(&exp)}) });
                }
            }
        }
        out
    });
    let meta = PropMeta {
        level: "exploration",
        rule: "random plaintexts encoded by the reference encoders through every chain of 1..3 filters over {FlateDecode (stored/fixed/mixed blocks), LZWDecode (EarlyChange 0/1), ASCII85Decode (z, white-space)} with PNG predictors 10..15 (row filters none/sub/up/avg/paeth/mixed) x Colors 1..12 x BitsPerComponent {8,16} x Columns 1..64, DecodeParms as dictionary or as array parallel to Filter with null holes; lopdf's decompressed_content/get_plain_content/decompress must return the plaintext and maintain Length; compress/decompress/set_content/set_plain_content (each starting from a Length entry that is correct, stale, a reference or absent) and Document::compress/decompress round trips, also on 1-4 MB of constant or short-period content (maximum deflate ratio), on 100-500 KB of noisy content (4..7 random bits per byte) and on already filtered streams. Exhaustive: 2^24 Paeth triples, all Sub/Up/Avg byte pairs through png::decode_row; all 1- and 2-byte final ASCII85 groups (3-byte: every 37th in quick, all 2^24 in thorough); z groups and the 0xFFFFFFFF group. distinct = distinct (dictionary, encoded bytes).".into(),
        assumptions: vec!["reference encoders/decoders were cross-checked against zlib and base64.a85 during development and self-test at setup (ISO LZW example, zlib streams from real zlib)".into()],
        exhaustive: false,
        min_distinct: 1000,
    };
    let mut extra = Map::new();
    extra.insert("paeth_triples_exhaustive".into(), json!(true));
    extra.insert("a85_three_byte_groups_exhaustive".into(), json!(thorough));
    (meta, out, extra)
}

pub fn replay(w: &Value) -> Vec<Finding> {
    match w.get("kind").and_then(|x| x.as_str()) {
        Some("stream") => {
            let dict = match w.get("dict").and_then(robj_from_json) {
                Some(RObj::Dict(d)) => d,
                _ => return vec![],
            };
            let c = FCase { plain: unhex(w["plain"].as_str().unwrap_or("")), dict, encoded: unhex(w["encoded"].as_str().unwrap_or("")), features: vec![] };
            check_case(&c).map(|(s, what)| Finding { signature: format!("C09/{}", s), what, witness: w.clone() }).into_iter().collect()
        }
        Some("compress-noisy") => {
            let p = noisy_plain(w["seed"].as_u64().unwrap_or(1), w["bits"].as_u64().unwrap_or(6) as u32, w["len"].as_u64().unwrap_or(100_000) as usize);
            check_compress(&p).map(|(s, what)| Finding { signature: format!("C09/{}/large-noisy", s), what, witness: w.clone() }).into_iter().collect()
        }
        Some("compress-regular") => {
            let g = |kk: &str| w[kk].as_u64().unwrap_or(1) as usize;
            let p = regular_plain(g("byte") as u8, g("period"), g("len"));
            check_compress(&p).map(|(s, what)| Finding { signature: format!("C09/{}/megabyte-regular", s), what, witness: w.clone() }).into_iter().collect()
        }
        Some("row") => {
            let g = |kk: &str, i: usize| w[kk][i].as_u64().unwrap_or(0) as u8;
            let (ft, rf) = match w["filter"].as_str() {
                Some("Sub") => (FilterType::Sub, RowFilter::Sub),
                Some("Up") => (FilterType::Up, RowFilter::Up),
                _ => (FilterType::Avg, RowFilter::Avg),
            };
            let prev = [g("prev", 0), g("prev", 1)];
            let mut cur = [g("cur", 0), g("cur", 1)];
            let mut exp = cur;
            decode_row(ft, 1, &prev, &mut cur);
            codecs::png_unfilter_row(rf, 1, &prev, &mut exp);
            if cur != exp {
                vec![Finding { signature: "C09/decode_row".into(), what: format!("{:?} vs {:?}", cur, exp), witness: w.clone() }]
            } else {
                vec![]
            }
        }
        _ => vec![],
    }
}
