pub mod c01;
pub mod c02;
pub mod c03;
pub mod c04;
pub mod c05;
pub mod c07;
#[cfg(not(feature = "nohook"))]
pub mod c08;
pub mod c09;
pub mod c10;
pub mod c11;
pub mod c12;
pub mod c13;
pub mod c17;
pub mod c18;
pub mod c14;
pub mod c15;
pub mod c16;
pub mod c19;

use std::cell::Cell;
thread_local! {
    /// last panic message + location observed on this thread (filled by the hook)
    pub static LAST_PANIC: std::cell::RefCell<Option<String>> = std::cell::RefCell::new(None);
    pub static QUIET: Cell<bool> = Cell::new(true);
}

/// Panics inside lopdf are *observations* for several monitors; keep stderr readable and
/// remember message + location for the signature.
pub fn install_quiet_panic_hook() {
    std::panic::set_hook(Box::new(|info| {
        let msg = if let Some(s) = info.payload().downcast_ref::<&str>() {
            s.to_string()
        } else if let Some(s) = info.payload().downcast_ref::<String>() {
            s.clone()
        } else {
            "<non-string panic>".to_string()
        };
        let loc = info.location().map(|l| format!("{}:{}", l.file(), l.line())).unwrap_or_default();
        LAST_PANIC.with(|p| *p.borrow_mut() = Some(format!("{} @ {}", msg, loc)));
        if let Ok(mut g) = crate::monitor::ANY_THREAD_PANIC.lock() {
            *g = Some((format!("{} @ {}", msg, loc), String::new()));
        }
        if !QUIET.with(|q| q.get()) {
            eprintln!("panic: {} @ {}", msg, loc);
        }
    }));
}

/// Run `f`, converting a panic into Err(message @ location).
pub fn catch<T>(f: impl FnOnce() -> T) -> Result<T, String> {
    LAST_PANIC.with(|p| *p.borrow_mut() = None);
    match std::panic::catch_unwind(std::panic::AssertUnwindSafe(f)) {
        Ok(v) => Ok(v),
        // a panic raised on one of lopdf's pool threads is re-raised here without its message: fall back to
        // the most recent message recorded on any thread (best effort when several shards fail at once)
        Err(_) => Err(LAST_PANIC.with(|p| p.borrow_mut().take()).or_else(|| crate::monitor::ANY_THREAD_PANIC.lock().ok().and_then(|g| g.as_ref().map(|x| format!("{} (raised on a helper thread)", x.0)))).unwrap_or_else(|| "panic".into())),
    }
}

thread_local! {
    /// oracle violations observed while a monitored worker case runs (drained by the worker loop)
    pub static ORACLE_FINDINGS: std::cell::RefCell<Vec<(String, String)>> = const { std::cell::RefCell::new(Vec::new()) };
}

pub fn oracle_report(sig: &str, what: String) {
    ORACLE_FINDINGS.with(|f| f.borrow_mut().push((sig.to_string(), what)));
}
