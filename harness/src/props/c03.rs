//! C03 — saved files are valid PDF for a strict third-party reader.
//! Events: bytes from Document::save_to (both formats) and IncrementalDocument::save_to.
//! Oracle: refimpl::strictreader accepts the file (every byte accounted for) and the document
//! it recovers equals the saved one (model-side equality, no lopdf reader involved).

use crate::bridge::*;
use crate::gen;
use crate::prng::Rng;
use crate::refimpl::robj::{RDoc, RObj};
use crate::refimpl::strictreader::{Parsed, StrictReader};
use crate::util::*;
use lopdf::{Document, IncrementalDocument};
use serde_json::{json, Map, Value};

pub const TAG: &str = "C03";

/// strict validation of `bytes` against the expected content; returns an error description
pub fn validate(bytes: &[u8], expect: &RDoc, check_header: bool) -> Result<Parsed, String> {
    let mut sr = StrictReader::new(bytes);
    sr.require_binary_comment = true;
    let p = sr.parse()?;
    let mut got = p.doc.clone();
    let containers = p.containers.clone();
    got.objects.retain(|id, _| !containers.contains(&id.0));
    let diffs = diff_docs(expect, &got, check_header, &|_, _| false);
    if let Some((_, d)) = diffs.first() {
        return Err(format!("strict reader recovers a different document: {}", d));
    }
    Ok(p)
}

fn classify_err(e: &str) -> String {
    // signature = the structural rule that failed (text up to the first number / colon)
    let key: String = e.chars().take_while(|c| !c.is_ascii_digit() && *c != ':' && *c != '{' && *c != '[').collect();
    format!("C03/{}", key.trim().replace(' ', "-"))
}

pub struct Case {
    pub bytes: Vec<u8>,
    pub expect: RDoc,
    pub kind: &'static str,
    /// for re-saved files: the multi-revision file that was loaded and the cross-reference style asked for
    pub source: Option<(Vec<u8>, bool)>,
}

/// a sink that takes at most `max` bytes per call (pipes, sockets and compressing writers behave like this):
/// the offsets of a file written through it have to be as exact as those of a file written in one piece
struct ShortWrites {
    data: Vec<u8>,
    max: usize,
}
impl std::io::Write for ShortWrites {
    fn write(&mut self, buf: &[u8]) -> std::io::Result<usize> {
        let n = buf.len().min(self.max);
        self.data.extend_from_slice(&buf[..n]);
        Ok(n)
    }
    fn flush(&mut self) -> std::io::Result<()> {
        Ok(())
    }
}

pub fn plain_case(d: &RDoc, xref_stream: bool) -> Result<Case, String> {
    let mut doc = to_lo_doc(d, xref_stream);
    let mut bytes = vec![];
    // one document in eight (chosen by its size) goes through a sink that accepts 7 bytes per call
    if d.objects.len() % 8 == 3 {
        let mut sink = ShortWrites { data: vec![], max: 7 };
        doc.save_to(&mut sink).map_err(|e| format!("save_to failed: {}", e))?;
        return Ok(Case { bytes: sink.data, expect: d.clone(), kind: if xref_stream { "short-writes/xref-stream" } else { "short-writes/xref-table" }, source: None });
    }
    doc.save_to(&mut bytes).map_err(|e| format!("save_to failed: {}", e))?;
    Ok(Case { bytes, expect: d.clone(), kind: if xref_stream { "plain/xref-stream" } else { "plain/xref-table" }, source: None })
}

/// incremental save after random edits; returns the case and the previous bytes
pub fn incremental_case(r: &mut Rng, d: &RDoc, xref_stream: bool, steps: usize) -> Result<Case, String> {
    let base = plain_case(d, xref_stream)?;
    let mut bytes = base.bytes;
    let mut expect = d.clone();
    for _ in 0..steps {
        let mut inc = IncrementalDocument::load_from(&bytes[..]).map_err(|e| format!("IncrementalDocument::load_from failed: {:?}", e))?;
        let ids: Vec<(u32, u16)> = expect.objects.keys().cloned().collect();
        let cfg = gen::ObjCfg { max_depth: 2, refs: true, ref_pool: if ids.is_empty() { vec![(1, 0)] } else { ids.clone() }, max_str: 20, max_children: 4 };
        for id in &ids {
            if r.chance(1, 4) {
                let o = gen::top_object(r, &cfg);
                inc.new_document.set_object(*id, to_lo(&o));
                expect.objects.insert(*id, o);
            }
        }
        for _ in 0..r.usize_below(3) {
            let o = gen::top_object(r, &cfg);
            let id = inc.new_document.add_object(to_lo(&o));
            expect.objects.insert(id, o);
        }
        let mut out = vec![];
        inc.save_to(&mut out).map_err(|e| format!("incremental save_to failed: {}", e))?;
        if !out.starts_with(&bytes) {
            return Err("incremental save did not keep the previous bytes as a prefix".into());
        }
        bytes = out;
    }
    Ok(Case { bytes, expect, kind: if xref_stream { "incremental/xref-stream" } else { "incremental/xref-table" }, source: None })
}

/// a document whose streams were deflated by the library before it is saved (Document::compress): the file has
/// to describe the compressed streams - Length of the deflated bytes, Filter - exactly
pub fn compressed_case(r: &mut Rng, d: &RDoc, xref_stream: bool) -> Result<Case, String> {
    let mut doc = to_lo_doc(d, xref_stream);
    for _ in 0..1 + r.usize_below(2) {
        let unit: &[u8] = *r.pick(&[&b"BT /F1 12 Tf (text) Tj ET\n"[..], b"q 1 0 0 1 0 0 cm Q\n", b"0 0 0 rg "]);
        let body = unit.repeat(8 + r.usize_below(40));
        doc.add_object(lopdf::Object::Stream(lopdf::Stream::new(lopdf::Dictionary::new(), body)));
    }
    doc.compress();
    let expect = from_lo_doc(&doc);
    let mut bytes = vec![];
    doc.save_to(&mut bytes).map_err(|e| format!("save_to failed: {}", e))?;
    Ok(Case { bytes, expect, kind: if xref_stream { "compressed/xref-stream" } else { "compressed/xref-table" }, source: None })
}

/// A file that carries incremental updates (written by the library itself or by the reference writer) is loaded and
/// saved again in one piece: nothing of the old file's layout (Prev, XRefStm, the fields of a cross-reference
/// stream) may leak into the new file.
pub fn resaved_case(r: &mut Rng, d: &RDoc, xref_stream: bool) -> Result<Case, String> {
    let src = if r.bool() {
        let steps = 1 + r.usize_below(2);
        incremental_case(r, d, xref_stream, steps)?.bytes
    } else {
        let ld = crate::props::c02::legal_doc(r, 20);
        let updates = 1 + r.usize_below(2);
        let h = crate::props::c02::extend_history(r, &ld, updates);
        let mut dis = std::collections::BTreeSet::new();
        for f in ["str-raw-cr-eol", "str-raw-crlf-eol", "junk-before-header"] {
            dis.insert(f.to_string());
        }
        let style = if xref_stream { crate::refimpl::refwriter::XrefStyle::Stream } else { crate::refimpl::refwriter::XrefStyle::Table };
        crate::props::c02::write_history(r.next_u64(), &dis, &h, style, r.bool()).0.bytes
    };
    // one source in three states a Size that is too small (tolerant readers accept that): what is saved afterwards
    // still has to list every object and state a Size above all of them
    if r.chance(1, 3) {
        if let Some(patched) = understate_size(&src, r) {
            // (where Size also bounds what is read - a cross-reference stream without Index - objects are lost at load;
            // that is the reader's business: only sources that still load completely are used)
            let ids = |b: &[u8]| Document::load_mem(b).ok().map(|d| d.objects.keys().cloned().collect::<Vec<_>>());
            let complete = ids(&patched);
            if complete.is_some() && complete == ids(&src) {
                let xs_out = r.bool();
                return resave(&patched, xs_out).map(|mut c| {
                    c.kind = if xs_out { "resaved-size-understated/xref-stream" } else { "resaved-size-understated/xref-table" };
                    c
                });
            }
        }
    }
    resave(&src, r.bool())
}

/// the last `/Size n` of the file rewritten, digit for digit, to a smaller zero-padded number
fn understate_size(src: &[u8], r: &mut Rng) -> Option<Vec<u8>> {
    let at = src.windows(5).rposition(|w| w == b"/Size")?;
    let mut i = at + 5;
    while i < src.len() && b" \t\r\n".contains(&src[i]) {
        i += 1;
    }
    let start = i;
    while i < src.len() && src[i].is_ascii_digit() {
        i += 1;
    }
    if i == start || i - start > 9 {
        return None;
    }
    let n: u64 = std::str::from_utf8(&src[start..i]).ok()?.parse().ok()?;
    if n < 3 {
        return None;
    }
    let smaller = match r.below(3) {
        0 => n - 1,
        1 => n / 2,
        _ => 1 + r.below(n - 1),
    };
    let mut out = src.to_vec();
    let text = format!("{:0width$}", smaller, width = i - start);
    out[start..i].copy_from_slice(text.as_bytes());
    Some(out)
}

pub fn resave(src: &[u8], xref_stream_out: bool) -> Result<Case, String> {
    let mut doc = Document::load_mem(src).map_err(|e| format!("load_mem of the multi-revision source failed: {:?}", e))?;
    doc.reference_table.cross_reference_type = if xref_stream_out { lopdf::xref::XrefType::CrossReferenceStream } else { lopdf::xref::XrefType::CrossReferenceTable };
    // the old file's containers (object streams, cross-reference streams) were loaded as ordinary objects; they are
    // dropped first, as an application would, so that the strict reader does not take them for containers of the new file
    doc.objects.retain(|_, o| match o {
        lopdf::Object::Stream(st) => !matches!(st.dict.get(b"Type").and_then(|t| t.as_name()), Ok(b"ObjStm") | Ok(b"XRef")),
        _ => true,
    });
    // a document loaded from a linearized file also holds the linearization parameter dictionary; its values
    // describe the old file, and the writer leaves the dictionary out by design (one source in three is given one)
    if src.len() % 3 == 0 {
        let id = (doc.objects.keys().map(|k| k.0).max().unwrap_or(0).max(doc.max_id) + 1, 0);
        doc.max_id = id.0;
        doc.objects.insert(id, lopdf::Object::Dictionary(lopdf::dictionary! { "Linearized" => 1, "L" => src.len() as i64, "O" => 3, "E" => 100, "N" => 1, "T" => 200 }));
    }
    let mut expect = from_lo_doc(&doc);
    expect.objects.retain(|_, o| !matches!(o, RObj::Dict(e) if e.iter().any(|(k, _)| k == b"Linearized")));
    let mut bytes = vec![];
    doc.save_to(&mut bytes).map_err(|e| format!("save_to failed: {}", e))?;
    Ok(Case { bytes, expect, kind: if xref_stream_out { "resaved/xref-stream" } else { "resaved/xref-table" }, source: Some((src.to_vec(), xref_stream_out)) })
}

fn run_one(seed: u64, shard: u64, i: u64, out: &mut ShardOut) {
    let mut r = Rng::for_case(seed, TAG, shard, i);
    let dcfg = gen::DocCfg { max_objects: 30, max_depth: 1 + r.usize_below(5), generations: true, sparse: true };
    let d = gen::rdoc(&mut r, &dcfg);
    let xs = r.bool();
    let variant = i % 3;
    let case = match variant {
        0 if i % 12 == 6 => resaved_case(&mut r, &d, xs),
        0 => plain_case(&d, xs),
        1 if i % 2 == 1 => compressed_case(&mut r, &d, xs),
        1 => plain_case(&d, xs),
        _ => {
            let steps = 1 + r.usize_below(3);
            incremental_case(&mut r, &d, xs, steps)
        }
    };
    out.evaluations += 1;
    let case = match case {
        Ok(c) => c,
        Err(e) => {
            out.finding(Finding { signature: classify_err(&e), what: e, witness: json!({"kind":"doc","doc":rdoc_to_json(&d),"xref_stream":xs,"variant":variant}) });
            return;
        }
    };
    out.count(&format!("files:{}", case.kind));
    out.digests.insert(crate::prng::fnv_bytes(&case.bytes));
    match validate(&case.bytes, &case.expect, variant != 2) {
        Ok(p) => {
            out.add("xref_entries_verified", p.stats.xref_entries_verified);
            out.add("xref_subsections", p.sections.iter().map(|s| s.subsections as u64).sum());
            out.add("stream_lengths_checked", p.stats.stream_lengths_checked);
            out.add("bytes_accounted", p.stats.bytes_accounted);
            out.add("xref_sections", p.stats.sections);
            out.max("max_revisions_in_a_file", p.stats.sections);
            if i == 0 {
                out.sample(json!({"kind":case.kind,"bytes":case.bytes.len(),"sections":p.stats.sections,"entries_verified":p.stats.xref_entries_verified,"head":String::from_utf8_lossy(&case.bytes[..case.bytes.len().min(200)])}));
            }
        }
        Err(e) => {
            out.finding(Finding {
                signature: classify_err(&e),
                what: format!("{}: {}", case.kind, e),
                witness: match &case.source {
                    Some((src, xs_out)) => json!({"kind":"resave","source_hex":hex(src),"xref_stream_out":xs_out,"file_text":String::from_utf8_lossy(&case.bytes[..case.bytes.len().min(2000)])}),
                    None => json!({"kind":"file","file_hex":hex(&case.bytes),"expect":rdoc_to_json(&case.expect),"check_header":variant!=2,"file_text":String::from_utf8_lossy(&case.bytes[..case.bytes.len().min(2000)])}),
                },
            });
        }
    }
}

pub fn run(cfg: &RunCfg) -> (PropMeta, ShardOut, Map<String, Value>) {
    let n = cfg.n(40_000, 1_500_000);
    let per = (n as usize + cfg.threads - 1) / cfg.threads;
    let out = shards(cfg.threads, |shard| {
        let mut out = ShardOut::default();
        for i in 0..per {
            run_one(cfg.seed, shard as u64, i as u64, &mut out);
        }
        out
    });
    let meta = PropMeta {
        level: "exploration",
        rule: "C01-style random documents saved by Document::save_to (xref table / xref stream; one case in six after Document::compress has deflated added redundant streams) and by IncrementalDocument::save_to after 1..3 rounds of random replace/add edits; one case in twelve loads a file with incremental updates (written by the library or by the reference writer) and saves it again in one piece (a third of these sources understate Size); every produced file is parsed by the independent strict reader (header + binary comment, startxref/Prev chain, 20-byte entries, W/Index/Length consistency, exact object-header offsets, Length == bytes up to endstream, Size > every number, every byte accounted, every object named by a section) and the recovered document is compared with the saved one. distinct = distinct file bytes.".into(),
        assumptions: vec![
            "the strict reader demands only what the property lists (e.g. it does not require an xref stream to list object 0, nor a single subsection in a never-updated file)".into(),
            "for incremental files version/binary mark are those of the first header".into(),
        ],
        exhaustive: false,
        min_distinct: 100,
    };
    (meta, out, Map::new())
}

pub fn replay(w: &Value) -> Vec<Finding> {
    if w.get("kind").and_then(|k| k.as_str()) == Some("resave") {
        let src = unhex(w.get("source_hex").and_then(|x| x.as_str()).unwrap_or(""));
        let xs_out = w.get("xref_stream_out").and_then(|x| x.as_bool()).unwrap_or(false);
        return match resave(&src, xs_out) {
            Err(e) => vec![Finding { signature: classify_err(&e), what: e, witness: w.clone() }],
            Ok(c) => match validate(&c.bytes, &c.expect, true) {
                Ok(_) => vec![],
                Err(e) => vec![Finding { signature: classify_err(&e), what: format!("{}: {}", c.kind, e), witness: w.clone() }],
            },
        };
    }
    if w.get("kind").and_then(|k| k.as_str()) == Some("file") {
        let bytes = unhex(w.get("file_hex").and_then(|x| x.as_str()).unwrap_or(""));
        let Some(expect) = w.get("expect").and_then(rdoc_from_json) else { return vec![] };
        let ch = w.get("check_header").and_then(|x| x.as_bool()).unwrap_or(true);
        // a file witness replays the *writer*: re-save the expected document and validate that
        // (the stored bytes document what was wrong when the finding was made)
        let _ = bytes;
        let mut out = vec![];
        for xs in [false, true] {
            if let Ok(c) = plain_case(&expect, xs) {
                if let Err(e) = validate(&c.bytes, &expect, ch) {
                    out.push(Finding { signature: classify_err(&e), what: e, witness: w.clone() });
                }
            }
        }
        return out;
    }
    let Some(d) = w.get("doc").and_then(rdoc_from_json) else { return vec![] };
    let xs = w.get("xref_stream").and_then(|x| x.as_bool()).unwrap_or(false);
    match plain_case(&d, xs) {
        Err(e) => vec![Finding { signature: classify_err(&e), what: e, witness: w.clone() }],
        Ok(c) => match validate(&c.bytes, &d, true) {
            Ok(_) => vec![],
            Err(e) => vec![Finding { signature: classify_err(&e), what: e, witness: w.clone() }],
        },
    }
}

#[allow(dead_code)]
fn _unused(_: &Document, _: &RObj) {}
