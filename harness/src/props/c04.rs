//! C04 — parsing untrusted bytes never panics, aborts or hangs.
//! Deciding monitor: the process monitor of monitor.rs (exit status / signal, panic records, CPU
//! time per case from /proc, counting allocator). This module supplies the hostile workload for
//! the eight byte-level entry-point groups and the worker main loop.

use crate::bridge::*;
use crate::gen;
use crate::monitor::*;
use crate::prng::Rng;
use crate::refimpl::cmap_ref;
use crate::refimpl::codecs;
use crate::refimpl::refwriter::*;
use crate::refimpl::robj::{RDoc, RObj};
use crate::util::*;
use lopdf::content::Content;
use lopdf::{Dictionary, Document, IncrementalDocument, Object, ObjectStream, Stream};
use serde_json::{json, Map, Value};
use std::collections::{BTreeMap, BTreeSet};
use std::path::{Path, PathBuf};

pub const TAG: &str = "C04";
pub const ENTRIES: [&str; 8] = ["load_mem", "incremental_load", "content_decode", "stream_filters", "object_stream", "xref_stream", "cmap_text", "text_string"];

#[derive(Clone, Debug)]
pub struct Case {
    pub entry: usize,
    pub bytes: Vec<u8>,
    /// stream dictionary for the stream-shaped entry points (3,4,5); font encoding name for 6
    pub aux: Vec<(Vec<u8>, RObj)>,
    pub text: Vec<u8>,
    pub origin: String,
}

impl Case {
    pub fn len(&self) -> usize {
        self.bytes.len() + self.text.len() + 64 * self.aux.len()
    }
    pub fn to_json(&self) -> Value {
        json!({"entry":ENTRIES[self.entry],"bytes_hex":hex(&self.bytes),"aux":robj_to_json(&RObj::Dict(self.aux.clone())),"text_hex":hex(&self.text),"origin":self.origin,
               "bytes_preview":String::from_utf8_lossy(&self.bytes[..self.bytes.len().min(300)])})
    }
    pub fn from_json(v: &Value) -> Option<Case> {
        let entry = ENTRIES.iter().position(|e| Some(*e) == v.get("entry").and_then(|x| x.as_str()))?;
        let aux = match robj_from_json(v.get("aux")?)? {
            RObj::Dict(d) => d,
            _ => vec![],
        };
        Some(Case { entry, bytes: unhex(v.get("bytes_hex")?.as_str()?), aux, text: unhex(v.get("text_hex")?.as_str()?), origin: v.get("origin").and_then(|x| x.as_str()).unwrap_or("").to_string() })
    }
}

// ---------------------------------------------------------------------------- executing a case

pub fn exec(c: &Case) {
    match c.entry {
        0 => {
            if let Ok(d) = Document::load_mem(&c.bytes) {
                // touching what was loaded is part of "loading returned a value"
                std::hint::black_box(d.objects.len());
            }
        }
        1 => {
            if let Ok(d) = IncrementalDocument::load_from(&c.bytes[..]) {
                std::hint::black_box(d.get_prev_documents().objects.len());
            }
        }
        2 => {
            if let Ok(ct) = Content::decode(&c.bytes) {
                std::hint::black_box(ct.operations.len());
            }
        }
        3 => {
            let s = Stream { dict: to_lo_dict(&c.aux), content: c.bytes.clone(), allows_compression: true, start_position: None };
            let _ = s.decompressed_content();
            let _ = s.get_plain_content();
            let mut s2 = s.clone();
            let _ = s2.decompress();
            let _ = s.filters();
        }
        4 => {
            let mut s = Stream { dict: to_lo_dict(&c.aux), content: c.bytes.clone(), allows_compression: true, start_position: None };
            if let Ok(os) = ObjectStream::new(&mut s) {
                std::hint::black_box(os.objects.len());
            }
        }
        5 => {
            let s = Stream { dict: to_lo_dict(&c.aux), content: c.bytes.clone(), allows_compression: true, start_position: None };
            if let Ok((x, _)) = lopdf::xref::decode_xref_stream(s) {
                std::hint::black_box(x.entries.len());
            }
        }
        6 => {
            // font dictionary -> get_font_encoding -> decode_text
            let mut doc = Document::new();
            let mut sd = Dictionary::new();
            for (k, v) in &c.aux {
                if k.starts_with(b"S:") {
                    sd.set(k[2..].to_vec(), to_lo(v));
                }
            }
            let sid = doc.add_object(Object::Stream(Stream { dict: sd, content: c.bytes.clone(), allows_compression: true, start_position: None }));
            let mut font = Dictionary::new();
            font.set("Type", Object::Name(b"Font".to_vec()));
            for (k, v) in &c.aux {
                if !k.starts_with(b"S:") {
                    font.set(k.clone(), to_lo(v));
                }
            }
            if !font.has(b"ToUnicode") {
                font.set("ToUnicode", Object::Reference(sid));
            }
            if let Ok(enc) = font.get_font_encoding(&doc) {
                let _ = Document::decode_text(&enc, &c.text);
                if matches!(enc, lopdf::Encoding::OneByteEncoding(_) | lopdf::Encoding::SimpleEncoding(_)) {
                    let s = String::from_utf8_lossy(&c.text).to_string();
                    let _ = Document::encode_text(&enc, &s);
                }
            }
        }
        _ => {
            let o = Object::String(c.bytes.clone(), if c.text.first() == Some(&1) { lopdf::StringFormat::Hexadecimal } else { lopdf::StringFormat::Literal });
            let _ = lopdf::decode_text_string(&o);
        }
    }
}

// ---------------------------------------------------------------------------- valid seeds

fn valid_pdf(r: &mut Rng, assets: &[Vec<u8>]) -> (Vec<u8>, &'static str) {
    match r.below(10) {
        0 | 1 if !assets.is_empty() => (r.pick(assets).clone(), "asset"),
        2 | 3 => {
            // lopdf's own writer
            let (g, sp) = (r.bool(), r.bool());
            let d = gen::rdoc(r, &gen::DocCfg { max_objects: 10, max_depth: 3, generations: g, sparse: sp });
            let mut doc = to_lo_doc(&d, r.bool());
            let mut b = vec![];
            let _ = doc.save_to(&mut b);
            (b, "lopdf-writer")
        }
        4 => {
            // multi-revision history
            let h = crate::props::c07::gen_history(r, 8, 3);
            let (w, _) = crate::props::c02::write_history(r.next_u64(), &BTreeSet::new(), &h, if r.bool() { XrefStyle::Table } else { XrefStyle::Stream }, r.bool());
            (w.bytes, "refwriter-history")
        }
        5 => (page_doc_bytes(r), "page-doc"),
        _ => {
            let d = crate::props::c02::legal_doc(r, 12);
            let (w, _) = crate::props::c02::write_history(r.next_u64(), &BTreeSet::new(), &History::from_doc(&d), if r.bool() { XrefStyle::Table } else { XrefStyle::Stream }, r.bool());
            (w.bytes, "refwriter")
        }
    }
}

/// a small document with a page tree, fonts, content streams (so structural keys are present)
fn page_doc_bytes(r: &mut Rng) -> Vec<u8> {
    let mut d = RDoc::new();
    let name = |s: &str| RObj::Name(s.as_bytes().to_vec());
    let k = |s: &str| s.as_bytes().to_vec();
    d.objects.insert((1, 0), RObj::Dict(vec![(k("Type"), name("Catalog")), (k("Pages"), RObj::Ref(2, 0)), (k("Outlines"), RObj::Ref(7, 0))]));
    d.objects.insert((2, 0), RObj::Dict(vec![(k("Type"), name("Pages")), (k("Kids"), RObj::Array(vec![RObj::Ref(3, 0)])), (k("Count"), RObj::Int(1)), (k("Resources"), RObj::Ref(5, 0))]));
    d.objects.insert((3, 0), RObj::Dict(vec![(k("Type"), name("Page")), (k("Parent"), RObj::Ref(2, 0)), (k("Contents"), RObj::Ref(4, 0)), (k("MediaBox"), RObj::Array(vec![RObj::Int(0), RObj::Int(0), RObj::Int(595), RObj::Int(842)]))]));
    let content = b"BT /F1 12 Tf 72 712 Td (Hello) Tj [(a) -120 (b)] TJ ET".to_vec();
    let (sd, body) = if r.bool() {
        (vec![(k("Filter"), name("FlateDecode"))], codecs::zlib_encode(&content, codecs::ZMode::Fixed, r))
    } else {
        (vec![], content)
    };
    d.objects.insert((4, 0), RObj::Stream(sd, body));
    d.objects.insert((5, 0), RObj::Dict(vec![(k("Font"), RObj::Dict(vec![(k("F1"), RObj::Ref(6, 0))]))]));
    d.objects.insert((6, 0), RObj::Dict(vec![(k("Type"), name("Font")), (k("Subtype"), name("Type1")), (k("BaseFont"), name("Helvetica")), (k("Encoding"), name("WinAnsiEncoding"))]));
    d.objects.insert((7, 0), RObj::Dict(vec![(k("Type"), name("Outlines")), (k("First"), RObj::Ref(8, 0)), (k("Last"), RObj::Ref(8, 0)), (k("Count"), RObj::Int(1))]));
    d.objects.insert((8, 0), RObj::Dict(vec![(k("Title"), RObj::Str(b"T".to_vec(), false)), (k("Parent"), RObj::Ref(7, 0)), (k("Dest"), RObj::Array(vec![RObj::Ref(3, 0), name("Fit")]))]));
    d.trailer = vec![(k("Root"), RObj::Ref(1, 0))];
    let (w, _) = crate::props::c02::write_history(r.next_u64(), &BTreeSet::new(), &History::from_doc(&d), if r.bool() { XrefStyle::Table } else { XrefStyle::Stream }, r.bool());
    w.bytes
}

/// serialise one direct object followed by a space (through lopdf's public content encoder)
fn lo_obj_bytes(o: &RObj) -> Vec<u8> {
    let c = Content { operations: vec![lopdf::content::Operation { operator: String::new(), operands: vec![to_lo(o)] }] };
    c.encode().unwrap_or_default()
}

fn valid_content(r: &mut Rng) -> Vec<u8> {
    let cfg = gen::ObjCfg { max_depth: 3, refs: false, ref_pool: vec![], max_str: 20, max_children: 4 };
    let mut out = vec![];
    for _ in 0..r.usize_below(20) {
        for _ in 0..r.usize_below(5) {
            let o = gen::direct_object(r, &cfg, 0);
            out.extend(lo_obj_bytes(&o));
        }
        out.extend_from_slice(r.pick(&["Tj", "TJ", "re", "cm", "q", "Q", "BT", "ET", "Tf", "Do", "'", "\"", "T*", "BDC", "EMC"]).as_bytes());
        out.push(*r.pick(b"\n \r"));
        if r.chance(1, 10) {
            out.extend_from_slice(b"BI /W 2 /H 2 /CS /RGB /BPC 8 ID 123456789012 EI\n");
        }
    }
    out
}

fn filter_case(r: &mut Rng) -> (Vec<(Vec<u8>, RObj)>, Vec<u8>) {
    let plain: Vec<u8> = match r.below(4) {
        0 => r.bytes(r.clone().usize_below(600)),
        1 => vec![r.u8(); r.clone().usize_below(3000)],
        2 => (0..r.usize_below(2000)).map(|i| (i % 7) as u8).collect(),
        _ => b"The quick brown fox jumps over the lazy dog. ".repeat(1 + r.usize_below(20)),
    };
    let nf = 1 + r.usize_below(3);
    let mut names = vec![];
    let mut parms = vec![];
    let mut data = plain;
    // built innermost-first, so names are pushed in reverse decoding order
    for _ in 0..nf {
        match r.below(3) {
            0 => {
                let mut p = vec![];
                if r.chance(1, 2) && !data.is_empty() {
                    let colors = 1 + r.usize_below(4);
                    let bpc = *r.pick(&[8usize, 16]);
                    let bpp = colors * bpc / 8;
                    let cols = 1 + r.usize_below(20);
                    let row = cols * bpp;
                    data.truncate(data.len() / row * row);
                    if !data.is_empty() {
                        let mut rr = r.clone();
                        data = codecs::png_encode(&data, colors, bpc, cols, &mut |_| [codecs::RowFilter::None, codecs::RowFilter::Sub, codecs::RowFilter::Up, codecs::RowFilter::Avg, codecs::RowFilter::Paeth][rr.usize_below(5)]);
                        p = vec![(b"Predictor".to_vec(), RObj::Int(10 + r.below(6) as i64)), (b"Colors".to_vec(), RObj::Int(colors as i64)), (b"BitsPerComponent".to_vec(), RObj::Int(bpc as i64)), (b"Columns".to_vec(), RObj::Int(cols as i64))];
                    }
                }
                data = codecs::zlib_encode(&data, codecs::ZMode::Mixed, r);
                names.push(RObj::Name(b"FlateDecode".to_vec()));
                parms.push(if p.is_empty() { RObj::Null } else { RObj::Dict(p) });
            }
            1 => {
                let early = r.bool();
                data = codecs::lzw_encode(&data, early, r);
                names.push(RObj::Name(b"LZWDecode".to_vec()));
                parms.push(if early { RObj::Null } else { RObj::Dict(vec![(b"EarlyChange".to_vec(), RObj::Int(0))]) });
            }
            _ => {
                data = codecs::a85_encode(&data, &codecs::A85Opts { use_z: r.bool(), whitespace_every: if r.bool() { 0 } else { 60 }, eod: r.chance(9, 10) });
                names.push(RObj::Name(b"ASCII85Decode".to_vec()));
                parms.push(RObj::Null);
            }
        }
    }
    names.reverse();
    parms.reverse();
    let mut d = vec![];
    if names.len() == 1 && r.bool() {
        d.push((b"Filter".to_vec(), names[0].clone()));
        if parms[0] != RObj::Null {
            d.push((b"DecodeParms".to_vec(), parms[0].clone()));
        }
    } else {
        d.push((b"Filter".to_vec(), RObj::Array(names)));
        if parms.iter().any(|p| *p != RObj::Null) {
            d.push((b"DecodeParms".to_vec(), RObj::Array(parms)));
        }
    }
    d.push((b"Length".to_vec(), RObj::Int(data.len() as i64)));
    (d, data)
}

fn objstm_case(r: &mut Rng) -> (Vec<(Vec<u8>, RObj)>, Vec<u8>) {
    let cfg = gen::ObjCfg { max_depth: 2, refs: true, ref_pool: vec![(1, 0), (2, 0)], max_str: 12, max_children: 4 };
    let n = r.usize_below(8);
    let mut idx = String::new();
    let mut body = vec![];
    for k in 0..n {
        idx.push_str(&format!("{} {} ", 10 + k, body.len()));
        body.extend(lo_obj_bytes(&gen::direct_object(r, &cfg, 0)));
    }
    let first = idx.len();
    let mut content = idx.into_bytes();
    content.extend(body);
    let mut d = vec![(b"Type".to_vec(), RObj::Name(b"ObjStm".to_vec())), (b"N".to_vec(), RObj::Int(n as i64)), (b"First".to_vec(), RObj::Int(first as i64))];
    if r.bool() {
        content = codecs::zlib_encode(&content, codecs::ZMode::Fixed, r);
        d.push((b"Filter".to_vec(), RObj::Name(b"FlateDecode".to_vec())));
    }
    (d, content)
}

fn xrefstm_case(r: &mut Rng) -> (Vec<(Vec<u8>, RObj)>, Vec<u8>) {
    let w = [r.usize_below(3), 1 + r.usize_below(4), r.usize_below(3)];
    let n = r.usize_below(30);
    let mut data = vec![];
    for _ in 0..n {
        for (i, wd) in w.iter().enumerate() {
            for k in 0..*wd {
                data.push(if i == 0 && k + 1 == *wd { r.below(3) as u8 } else { r.u8() });
            }
        }
    }
    let start = r.below(50) as i64;
    let mut d = vec![
        (b"Type".to_vec(), RObj::Name(b"XRef".to_vec())),
        (b"Size".to_vec(), RObj::Int(start + n as i64)),
        (b"W".to_vec(), RObj::Array(w.iter().map(|x| RObj::Int(*x as i64)).collect())),
    ];
    if r.bool() {
        d.push((b"Index".to_vec(), RObj::Array(vec![RObj::Int(start), RObj::Int(n as i64)])));
    }
    if r.bool() {
        data = codecs::zlib_encode(&data, codecs::ZMode::Fixed, r);
        d.push((b"Filter".to_vec(), RObj::Name(b"FlateDecode".to_vec())));
    }
    (d, data)
}

fn cmap_case(r: &mut Rng) -> (Vec<(Vec<u8>, RObj)>, Vec<u8>, Vec<u8>) {
    let defs = cmap_ref::gen_defs(r);
    let bytes = cmap_ref::render(&defs, r);
    let codes = cmap_ref::mapped_codes(&defs, 200);
    let mut text = vec![];
    for _ in 0..r.usize_below(20) {
        if !codes.is_empty() && r.chance(3, 4) {
            let (l, c) = *r.pick(&codes);
            text.extend(cmap_ref::code_bytes(l, c));
        } else {
            text.push(r.u8());
        }
    }
    let enc: &[u8] = *r.pick(&[&b"Identity-H"[..], b"Identity-V", b"", b"WinAnsiEncoding", b"MacRomanEncoding", b"MacExpertEncoding", b"StandardEncoding", b"PDFDocEncoding", b"UniGB-UCS2-H", b"UniGB-UTF16-H", b"Whatever"]);
    let mut aux = vec![];
    if !enc.is_empty() {
        aux.push((b"Encoding".to_vec(), RObj::Name(enc.to_vec())));
    }
    (aux, bytes, text)
}

// ---------------------------------------------------------------------------- mutators

const EXTREMES: &[&str] = &[
    "0", "-1", "1", "2147483647", "2147483648", "4294967295", "4294967296", "9223372036854775807", "9223372036854775808", "18446744073709551615",
    "18446744073709551616", "123456789012345678901234567890", "65535", "65536", "255", "256", "-2147483648", "-9223372036854775808", "4611686018427387904", "1000000000000",
];

const KEYWORDS: &[&[u8]] = &[b"obj", b"endobj", b"stream", b"endstream", b"xref", b"trailer", b"startxref", b"R", b"<<", b">>", b"[", b"]", b"(", b")", b"<", b">", b"/", b"%%EOF", b"null", b"true", b"BI", b"ID", b"EI", b"beginbfrange", b"endbfrange", b"beginbfchar", b"endcmap"];

fn digit_runs(b: &[u8]) -> Vec<(usize, usize)> {
    let mut v = vec![];
    let mut i = 0;
    while i < b.len() {
        if b[i].is_ascii_digit() {
            let s = i;
            while i < b.len() && b[i].is_ascii_digit() {
                i += 1;
            }
            v.push((s, i));
        } else {
            i += 1;
        }
    }
    v
}

pub fn mutate(r: &mut Rng, b: &mut Vec<u8>) -> &'static str {
    if b.is_empty() {
        *b = r.bytes(r.clone().usize_below(64));
        return "random-bytes";
    }
    match r.below(12) {
        0 => "none",
        1 => {
            for _ in 0..1 + r.usize_below(4) {
                let i = r.usize_below(b.len());
                b[i] ^= 1 << r.below(8);
            }
            "bit-flip"
        }
        2 => {
            for _ in 0..1 + r.usize_below(4) {
                let i = r.usize_below(b.len());
                b[i] = if r.bool() { *r.pick(gen::HOSTILE) } else { r.u8() };
            }
            "byte-replace"
        }
        3 => {
            let i = r.usize_below(b.len() + 1);
            let n = 1 + r.usize_below(8);
            let ins: Vec<u8> = (0..n).map(|_| *r.pick(gen::HOSTILE)).collect();
            b.splice(i..i, ins);
            "insert"
        }
        4 => {
            let i = r.usize_below(b.len());
            let n = (1 + r.usize_below(16)).min(b.len() - i);
            b.drain(i..i + n);
            "delete"
        }
        5 => {
            let i = r.usize_below(b.len());
            b.truncate(i);
            "truncate"
        }
        6 => {
            let i = r.usize_below(b.len());
            let n = (1 + r.usize_below(200)).min(b.len() - i);
            let chunk = b[i..i + n].to_vec();
            let j = r.usize_below(b.len() + 1);
            let times = 1 + r.usize_below(3);
            for _ in 0..times {
                b.splice(j..j, chunk.clone());
            }
            "splice-dup"
        }
        7 | 8 | 9 => {
            let runs = digit_runs(b);
            if runs.is_empty() {
                return "none";
            }
            for _ in 0..1 + r.usize_below(2) {
                let runs = digit_runs(b);
                let (s, e) = *r.pick(&runs);
                let v = r.pick(EXTREMES).as_bytes().to_vec();
                // keep an existing sign position simple: replace the digit run only
                let v = if v[0] == b'-' && s > 0 && b[s - 1] == b'-' { v[1..].to_vec() } else { v };
                b.splice(s..e, v);
            }
            "numeric-extreme"
        }
        10 => {
            // keyword swap
            let kw = *r.pick(KEYWORDS);
            let to = *r.pick(KEYWORDS);
            if let Some(p) = b.windows(kw.len()).position(|w| w == kw) {
                b.splice(p..p + kw.len(), to.to_vec());
            }
            "keyword-swap"
        }
        _ => {
            // cut at a token boundary
            let cuts: Vec<usize> = (0..b.len()).filter(|i| b" \n\r/<>[]()".contains(&b[*i])).collect();
            if !cuts.is_empty() {
                let c = *r.pick(&cuts);
                if r.bool() {
                    b.truncate(c);
                } else {
                    b.drain(..c);
                }
            }
            "token-boundary-cut"
        }
    }
}

fn mutate_aux(r: &mut Rng, aux: &mut Vec<(Vec<u8>, RObj)>) {
    if aux.is_empty() || r.chance(1, 2) {
        return;
    }
    let extreme = |r: &mut Rng| -> RObj {
        match r.below(10) {
            0 => RObj::Null,
            1 => RObj::Name(b"X".to_vec()),
            2 => RObj::Real(gen::real_value(r)),
            _ => RObj::Int(r.pick(EXTREMES).parse::<i64>().unwrap_or(i64::MAX)),
        }
    };
    let i = r.usize_below(aux.len());
    match &mut aux[i].1 {
        RObj::Int(_) => aux[i].1 = extreme(r),
        RObj::Array(a) if !a.is_empty() => {
            let j = r.usize_below(a.len());
            match &mut a[j] {
                RObj::Dict(d) if !d.is_empty() => {
                    let k = r.usize_below(d.len());
                    d[k].1 = extreme(r);
                }
                x => *x = extreme(r),
            }
            if r.chance(1, 4) {
                a.pop();
            }
        }
        RObj::Dict(d) if !d.is_empty() => {
            let k = r.usize_below(d.len());
            d[k].1 = extreme(r);
        }
        x => *x = extreme(r),
    }
    if r.chance(1, 6) {
        let extra: &[u8] = *r.pick(&[&b"Columns"[..], b"Colors", b"BitsPerComponent", b"Predictor", b"EarlyChange", b"N", b"First", b"Size", b"W", b"Index", b"Length"]);
        aux.push((extra.to_vec(), extreme(r)));
    }
}

// ---------------------------------------------------------------------------- adversarial templates

fn wrap_pdf(objects: &[(u32, Vec<u8>)], extra_trailer: &str) -> Vec<u8> {
    let mut out = b"%PDF-1.5\n".to_vec();
    let mut offs = vec![];
    for (n, body) in objects {
        offs.push((*n, out.len()));
        out.extend_from_slice(format!("{} 0 obj\n", n).as_bytes());
        out.extend_from_slice(body);
        out.extend_from_slice(b"\nendobj\n");
    }
    let xref = out.len();
    let max = objects.iter().map(|o| o.0).max().unwrap_or(0);
    out.extend_from_slice(format!("xref\n0 {}\n0000000000 65535 f \n", max + 1).as_bytes());
    for n in 1..=max {
        match offs.iter().find(|o| o.0 == n) {
            Some((_, off)) => out.extend_from_slice(format!("{:010} 00000 n \n", off).as_bytes()),
            None => out.extend_from_slice(b"0000000000 00000 f \n"),
        }
    }
    out.extend_from_slice(format!("trailer\n<</Size {}/Root 1 0 R{}>>\nstartxref\n{}\n%%EOF", max + 1, extra_trailer, xref).as_bytes());
    out
}

fn nest(open: &[u8], close: &[u8], n: usize, close_it: bool) -> Vec<u8> {
    let mut v = Vec::with_capacity(n * (open.len() + close.len()));
    for _ in 0..n {
        v.extend_from_slice(open);
    }
    if close_it {
        for _ in 0..n {
            v.extend_from_slice(close);
        }
    }
    v
}

pub fn template(r: &mut Rng) -> Case {
    let n = *r.pick(&[10usize, 100, 1000, 10_000, 100_000]);
    let closed = r.bool();
    let which = r.below(17);
    let mk = |entry: usize, bytes: Vec<u8>, origin: String| Case { entry, bytes, aux: vec![], text: vec![], origin };
    match which {
        0 | 1 | 2 => {
            let (o, c): (&[u8], &[u8]) = match which {
                0 => (b"[", b"]"),
                1 => (b"<</A", b">>"),
                _ => (b"[<</A", b">>]"),
            };
            let body = nest(o, c, n, closed);
            if r.bool() {
                mk(0, wrap_pdf(&[(1, b"<</Type/Catalog>>".to_vec()), (2, body)], ""), format!("template:nesting-object/{}/{}", String::from_utf8_lossy(o), n))
            } else {
                let mut b = body;
                b.extend_from_slice(b" Tj");
                mk(2, b, format!("template:nesting-content/{}/{}", String::from_utf8_lossy(o), n))
            }
        }
        3 => {
            let mut body = nest(b"(", b")", n, closed);
            body.extend_from_slice(b" Tj");
            mk(2, body, format!("template:string-brackets/{}", n))
        }
        4 => {
            // chain of streams whose Length refers to the next stream
            let k = n.min(3000);
            let mut objs = vec![(1u32, b"<</Type/Catalog>>".to_vec())];
            for i in 0..k {
                let next = if i + 1 == k { if r.bool() { 2 } else { (k + 5) as u32 } } else { (i + 3) as u32 };
                objs.push(((i + 2) as u32, format!("<</Length {} 0 R>>stream\nabc\nendstream", next).into_bytes()));
            }
            mk(0, wrap_pdf(&objs, ""), format!("template:length-chain/{}", k))
        }
        5 => {
            // Prev loops and long Prev chains
            let k = n.min(2000);
            let mut out = b"%PDF-1.4\n1 0 obj\n<</Type/Catalog>>\nendobj\n".to_vec();
            let mut prev: Option<usize> = None;
            let mut first = 0;
            for i in 0..k {
                let off = out.len();
                if i == 0 {
                    first = off;
                }
                out.extend_from_slice(b"xref\n0 2\n0000000000 65535 f \n0000000009 00000 n \ntrailer\n<</Size 2/Root 1 0 R");
                if let Some(p) = prev {
                    out.extend_from_slice(format!("/Prev {}", p).as_bytes());
                } else if r.bool() {
                    // loop back to the newest section (patched below is not possible; point at itself)
                    out.extend_from_slice(format!("/Prev {}", off).as_bytes());
                }
                out.extend_from_slice(b">>\n");
                prev = Some(off);
            }
            let _ = first;
            out.extend_from_slice(format!("startxref\n{}\n%%EOF", prev.unwrap_or(0)).as_bytes());
            mk(0, out, format!("template:prev-chain/{}", k))
        }
        6 => {
            // xref entries pointing into the middle of objects and at each other
            let mut b = wrap_pdf(&[(1, b"<</Type/Catalog/A[1 0 R 2 0 R]>>".to_vec()), (2, b"<</Length 3 0 R>>stream\nxyz\nendstream".to_vec()), (3, b"2 0 R".to_vec())], "");
            let runs = digit_runs(&b);
            let tens: Vec<(usize, usize)> = runs.into_iter().filter(|(s, e)| e - s == 10).collect();
            for (s, e) in tens {
                if r.bool() {
                    let v = format!("{:010}", r.below(b.len() as u64 + 20));
                    b.splice(s..e, v.into_bytes());
                }
            }
            mk(0, b, "template:xref-offsets-scrambled".into())
        }
        7 => {
            // object stream that names itself / huge N / First beyond data
            let body = b"2 0 3 2 9 9 <<>> [2 0 R]".to_vec();
            let d = format!("<</Type/ObjStm/N {}/First {}/Length {}>>stream\n", r.pick(EXTREMES), *r.pick(&[0i64, 12, 13, 24, 1000, -1]), body.len());
            let mut o2 = d.into_bytes();
            o2.extend_from_slice(&body);
            o2.extend_from_slice(b"\nendstream");
            mk(0, wrap_pdf(&[(1, b"<</Type/Catalog>>".to_vec()), (2, o2)], ""), "template:objstm-self".into())
        }
        8 => {
            // ASCII85 groups at the u32 boundary
            let g: &[u8] = *r.pick(&[&b"s8W-!"[..], b"s8W-\"", b"s8W-", b"s8W", b"s8", b"s", b"uuuuu", b"uuuu", b"zzzzz", b"!!!!!z", b"s8W-!s8W-\"~>", b"~>", b"z~>", b"!z~>"]);
            let mut bytes = g.repeat(1 + r.usize_below(3));
            if r.bool() {
                bytes.extend_from_slice(b"~>");
            }
            Case { entry: 3, bytes, aux: vec![(b"Filter".to_vec(), RObj::Name(b"ASCII85Decode".to_vec()))], text: vec![], origin: "template:a85-boundary".into() }
        }
        9 => {
            // CMap ranges: extreme bounds of every code width x every target shape (single unit, several units,
            // arrays of 0..4 elements far shorter than the range), plus a few fixed corner cases
            let fixed: &[&[u8]] = &[
                &b"<00000000> <FFFFFFFF> [<0041>]"[..],
                b"<0000> <FFFF> <FFF0>",
                b"<0000> <00FF> <D83DDFF0>",
                b"<00> <FF> [<0041> <0042>]",
                b"<0000> <0002> [<0041>]",
                b"<0005> <0001> <0041>",
                b"<0000> <FFFF> <0041>",
            ];
            let generated;
            let body: &[u8] = if r.bool() {
                *r.pick(fixed)
            } else {
                let w = 1 + r.usize_below(4);
                let max = if w == 4 { u32::MAX } else { (1u32 << (8 * w)) - 1 };
                let lo = *r.pick(&[0u32, 0, 1, max / 2, max.saturating_sub(1)]);
                let hi = *r.pick(&[max, max, max - 1, max / 2, lo.wrapping_add(300) & max]);
                let hexw = |v: u32| format!("{:0width$X}", v, width = 2 * w);
                let target = match r.below(6) {
                    0 => "<0041>".to_string(),
                    1 => "<FFFE>".to_string(),
                    2 => "<00660069>".to_string(),
                    3 => "<D83DDE00>".to_string(),
                    _ => format!("[{}]", (0..r.usize_below(5)).map(|i| format!("<{:04X}>", 0x41 + i)).collect::<Vec<_>>().join(" ")),
                };
                generated = format!("<{}> <{}> {}", hexw(lo), hexw(hi), target).into_bytes();
                &generated[..]
            };
            // the mapping part: one range (usual), nothing at all (a code space that maps nothing), empty sections, or
            // a single one-byte bfchar
            let sections = match r.below(8) {
                0 => String::new(),
                1 => "0 beginbfrange\nendbfrange\n0 beginbfchar\nendbfchar\n".to_string(),
                2 => "1 beginbfchar\n<41> <0041>\nendbfchar\n".to_string(),
                _ => format!("1 beginbfrange\n{}\nendbfrange\n", String::from_utf8_lossy(body)),
            };
            let cm = format!("/CIDInit /ProcSet findresource begin\n12 dict begin\nbegincmap\n/CMapName /X def\n/CMapType 2 def\n1 begincodespacerange\n<0000> <FFFF>\nendcodespacerange\n{}endcmap\nCMapName currentdict /CMap defineresource pop\nend\nend\n", sections);
            let text: Vec<u8> = match r.below(6) {
                0 => vec![0, 0, 0, 5, 0xff, 0xff, 0xff, 0xff],
                1 => vec![0, 1, 0, 2, 0xff, 0xff, 0x00, 0xff],
                2 => r.bytes(16),
                3 => vec![1u8; 300],
                4 => r.bytes(700),
                _ => (0..=255u8).collect(),
            };
            Case { entry: 6, bytes: cm.into_bytes(), aux: vec![(b"Encoding".to_vec(), RObj::Name(b"Identity-H".to_vec()))], text, origin: "template:cmap-ranges".into() }
        }
        10 => {
            // xref stream: absurd W / Index / Size
            let w = [*r.pick(EXTREMES), *r.pick(EXTREMES), *r.pick(EXTREMES)];
            let aux = vec![
                (b"Type".to_vec(), RObj::Name(b"XRef".to_vec())),
                (b"Size".to_vec(), RObj::Int(r.pick(EXTREMES).parse().unwrap_or(1))),
                (b"W".to_vec(), RObj::Array(w.iter().map(|x| RObj::Int(x.parse().unwrap_or(i64::MAX))).collect())),
                (b"Index".to_vec(), RObj::Array(vec![RObj::Int(r.pick(EXTREMES).parse().unwrap_or(0)), RObj::Int(r.pick(EXTREMES).parse().unwrap_or(1))])),
            ];
            Case { entry: 5, bytes: r.bytes(r.clone().usize_below(64)), aux, text: vec![], origin: "template:xrefstm-extremes".into() }
        }
        11 => {
            // predictor geometry extremes
            let data = codecs::zlib_encode(&r.bytes(64), codecs::ZMode::Stored, r);
            let p = vec![
                (b"Predictor".to_vec(), RObj::Int(10 + r.below(6) as i64)),
                (b"Columns".to_vec(), RObj::Int(r.pick(EXTREMES).parse().unwrap_or(1))),
                (b"Colors".to_vec(), RObj::Int(r.pick(EXTREMES).parse().unwrap_or(1))),
                (b"BitsPerComponent".to_vec(), RObj::Int(r.pick(EXTREMES).parse().unwrap_or(8))),
            ];
            Case { entry: 3, bytes: data, aux: vec![(b"Filter".to_vec(), RObj::Name(b"FlateDecode".to_vec())), (b"DecodeParms".to_vec(), RObj::Dict(p))], text: vec![], origin: "template:predictor-extremes".into() }
        }
        12 => {
            // inline image geometry extremes
            let b = format!("BI /W {} /H {} /CS /RGB /BPC {} ID abcdef EI", r.pick(EXTREMES), r.pick(EXTREMES), r.pick(EXTREMES));
            mk(2, b.into_bytes(), "template:inline-image-extremes".into())
        }
        13 => {
            // xref table subsection headers / trailer Size / startxref extremes
            let mut b = wrap_pdf(&[(1, b"<</Type/Catalog>>".to_vec())], "");
            let key: &[u8] = *r.pick(&[&b"0 2\n"[..], b"/Size 2", b"startxref\n"]);
            if let Some(p) = b.windows(key.len()).position(|w| w == key) {
                let rep = match key {
                    b"0 2\n" => format!("{} {}\n", r.pick(EXTREMES), r.pick(EXTREMES)),
                    b"/Size 2" => format!("/Size {}", r.pick(EXTREMES)),
                    _ => format!("startxref\n{}", r.pick(EXTREMES)),
                };
                b.splice(p..p + key.len(), rep.into_bytes());
            }
            mk(0, b, "template:xref-header-extremes".into())
        }
        14 => {
            // page tree with absurd Count, cyclic Kids (load only; queries are C12/C13)
            let b = wrap_pdf(
                &[(1, b"<</Type/Catalog/Pages 2 0 R>>".to_vec()), (2, format!("<</Type/Pages/Kids[2 0 R 3 0 R]/Count {}>>", r.pick(EXTREMES)).into_bytes()), (3, b"<</Type/Page/Parent 2 0 R>>".to_vec())],
                "",
            );
            mk(if r.bool() { 0 } else { 1 }, b, "template:page-tree".into())
        }
        15 => {
            // chains of objects that are bare references, reached from a stream's Length (followed while loading) and
            // from the catalog: straight chains of any length, loops through the first link, loops entered after a
            // tail (rho shape), dangling ends
            let tail = *r.pick(&[0usize, 1, 2, 3, 30, 200]);
            let cycle = *r.pick(&[0usize, 1, 2, 3, 17]);
            let first = 5u32;
            let mut objs: Vec<(u32, Vec<u8>)> = vec![
                (1, format!("<</Type/Catalog/Pages {} 0 R/Alias {} 0 R>>", first, first).into_bytes()),
                (2, format!("<</Length {} 0 R>>stream\nabcdef\nendstream", first).into_bytes()),
            ];
            let total = tail + cycle;
            for i in 0..total {
                let me = first + i as u32;
                let next = if i + 1 < total { me + 1 } else if cycle > 0 { first + tail as u32 } else { 9999 };
                objs.push((me, format!("{} 0 R", next).into_bytes()));
            }
            if total == 0 || (cycle == 0 && r.bool()) {
                // the chain ends in a value instead of nowhere
                let end = first + total as u32;
                if let Some(last) = objs.last_mut() {
                    if total > 0 {
                        last.1 = format!("{} 0 R", end).into_bytes();
                    }
                }
                objs.push((end, if r.bool() { b"6".to_vec() } else { b"<</Type/Pages/Kids[]/Count 0>>".to_vec() }));
            }
            mk(if r.bool() { 0 } else { 1 }, wrap_pdf(&objs, ""), format!("template:reference-chain/tail{}/cycle{}", tail, cycle))
        }
        _ => {
            // LZW / Flate garbage of size n
            let len = n.min(20_000);
            let name: &[u8] = if r.bool() { b"LZWDecode" } else { b"FlateDecode" };
            let mut bytes = if r.bool() { r.bytes(len) } else { vec![r.u8(); len] };
            if name == b"FlateDecode" && r.bool() {
                bytes = codecs::zlib_encode(&vec![0u8; n.min(100_000) * 10], codecs::ZMode::Fixed, r);
            }
            Case { entry: 3, bytes, aux: vec![(b"Filter".to_vec(), RObj::Name(name.to_vec()))], text: vec![], origin: format!("template:codec-garbage/{}", len) }
        }
    }
}

// ---------------------------------------------------------------------------- case generation

pub fn gen_case(seed: u64, shard: u64, index: u64, assets: &[Vec<u8>]) -> Case {
    let mut r = Rng::for_case(seed, TAG, shard, index);
    if r.chance(1, 8) {
        return template(&mut r);
    }
    let pick = r.below(100);
    let (entry, mut bytes, mut aux, mut text, origin): (usize, Vec<u8>, Vec<(Vec<u8>, RObj)>, Vec<u8>, &'static str) = if pick < 35 {
        let (b, o) = valid_pdf(&mut r, assets);
        (0, b, vec![], vec![], o)
    } else if pick < 40 {
        let (b, o) = valid_pdf(&mut r, assets);
        (1, b, vec![], vec![], o)
    } else if pick < 55 {
        (2, valid_content(&mut r), vec![], vec![], "content")
    } else if pick < 70 {
        let (a, b) = filter_case(&mut r);
        (3, b, a, vec![], "filters")
    } else if pick < 78 {
        let (a, b) = objstm_case(&mut r);
        (4, b, a, vec![], "objstm")
    } else if pick < 85 {
        let (a, b) = xrefstm_case(&mut r);
        (5, b, a, vec![], "xrefstm")
    } else if pick < 95 {
        let (a, b, t) = cmap_case(&mut r);
        (6, b, a, t, "cmap")
    } else {
        let t = match r.below(4) {
            0 => {
                let mut v = vec![0xFE, 0xFF];
                v.extend(r.bytes(r.clone().usize_below(20)));
                v
            }
            1 => {
                let mut v = vec![0xEF, 0xBB, 0xBF];
                v.extend(r.bytes(r.clone().usize_below(20)));
                v
            }
            2 => vec![0xFE, 0xFF, 0xD8, 0x00],
            _ => r.bytes(r.clone().usize_below(30)),
        };
        (7, t, vec![], vec![r.u8() & 1], "text-string")
    };
    let m = mutate(&mut r, &mut bytes);
    mutate_aux(&mut r, &mut aux);
    if entry == 6 && r.chance(1, 3) {
        text = r.bytes(r.clone().usize_below(40));
    }
    // inputs <= 256 KiB (templates may exceed, up to 1 MiB)
    bytes.truncate(256 << 10);
    Case { entry, bytes, aux, text, origin: format!("{}+{}", origin, m) }
}

pub fn load_assets() -> Vec<Vec<u8>> {
    let mut v = vec![];
    if let Ok(rd) = std::fs::read_dir("/repo/assets") {
        let mut paths: Vec<_> = rd.filter_map(|e| e.ok().map(|e| e.path())).filter(|p| p.extension().map(|x| x == "pdf").unwrap_or(false)).collect();
        paths.sort();
        for p in paths {
            if let Ok(b) = std::fs::read(&p) {
                if !b.is_empty() && b.len() < (256 << 10) {
                    v.push(b);
                }
            }
        }
    }
    v
}

// ---------------------------------------------------------------------------- worker main

pub struct WorkerArgs {
    pub seed: u64,
    pub shard: u64,
    pub from: u64,
    pub status: String,
    pub log: String,
    pub one: Option<u64>,
    pub case_file: Option<String>,
}

pub fn parse_worker_args(args: &[String]) -> WorkerArgs {
    let mut w = WorkerArgs { seed: 1, shard: 0, from: 0, status: "/dev/null".into(), log: "/dev/null".into(), one: None, case_file: None };
    let mut i = 0;
    while i + 1 < args.len() + 1 {
        let a = args.get(i).map(|s| s.as_str()).unwrap_or("");
        let v = args.get(i + 1).cloned().unwrap_or_default();
        match a {
            "--seed" => w.seed = v.parse().unwrap_or(1),
            "--shard" => w.shard = v.parse().unwrap_or(0),
            "--from" => w.from = v.parse().unwrap_or(0),
            "--status" => w.status = v,
            "--log" => w.log = v,
            "--one" => w.one = v.parse().ok(),
            "--case-file" => w.case_file = Some(v),
            _ => {
                i += 1;
                continue;
            }
        }
        i += 2;
    }
    w
}

/// generic worker loop shared by C04 / C12 / C13: `make(index)` builds the case, `run` executes it
pub fn worker_loop<C>(a: &WorkerArgs, make: &(dyn Fn(u64) -> (C, usize, String, u64) + Sync), run: &(dyn Fn(&C) + Sync)) {
    if std::env::var("VH_NO_RLIMIT").is_err() {
        set_rlimit_as(6 << 30);
    }
    install_worker_panic_hook();
    let deadline: f64 = std::env::var("VH_DEADLINE_S").ok().and_then(|s| s.parse().ok()).unwrap_or(1e9);
    let max_cases: u64 = std::env::var("VH_MAX_CASES").ok().and_then(|s| s.parse().ok()).unwrap_or(u64::MAX);
    let t0 = std::time::Instant::now();
    let mut w = Worker::open(&a.status, &a.log);
    let mut counters: BTreeMap<String, u64> = BTreeMap::new();
    let mut digests: Vec<u64> = vec![];
    let mut samples: Vec<Value> = vec![];
    let mut cases = 0u64;
    let mut idx = a.one.unwrap_or(a.from);
    // run on a thread with the platform's default main-thread stack size (8 MiB)
    std::thread::scope(|s| {
        std::thread::Builder::new()
            .stack_size(8 << 20)
            .spawn_scoped(s, || {
                loop {
                    if a.one.is_none() && (t0.elapsed().as_secs_f64() >= deadline || cases >= max_cases) {
                        break;
                    }
                    w.generating(idx);
                    let (case, len, label, digest) = make(idx);
                    w.begin_case(idx, len);
                    let o = run_monitored(len, || run(&case));
                    cases += 1;
                    *counters.entry(format!("cases:{}", label)).or_insert(0) += 1;
                    let e = counters.entry("max_case_cpu_ms".into()).or_insert(0);
                    *e = (*e).max(o.cpu_ms);
                    let e = counters.entry("max_peak_alloc_bytes".into()).or_insert(0);
                    *e = (*e).max(o.peak_extra as u64);
                    if len > 0 {
                        let e = counters.entry("max_alloc_to_input_ratio_x100".into()).or_insert(0);
                        *e = (*e).max((o.max_request as u64 * 100) / len as u64);
                    }
                    if digests.len() < 4000 {
                        digests.push(digest);
                    }
                    if samples.len() < 1 && cases == 3 {
                        samples.push(json!({"index":idx,"label":label,"input_len":len}));
                    }
                    if let Some((msg, frames)) = o.panic {
                        let file = msg.rsplit(" @ ").next().unwrap_or("").rsplit('/').next().unwrap_or("").split(':').next().unwrap_or("").to_string();
                        w.log(json!({"t":"finding","index":idx,"signature":format!("panic|{}|{}", message_class(&msg), frames.first().cloned().unwrap_or(file)),
                            "what":format!("panic: {} (lopdf frames: {})", msg, frames.join(" <- "))}));
                    }
                    for (sig, what) in crate::props::ORACLE_FINDINGS.with(|f| f.borrow_mut().drain(..).collect::<Vec<_>>()) {
                        w.log(json!({"t":"finding","index":idx,"signature":sig,"what":what}));
                    }
                    if let Some((msg, frames)) = o.alloc {
                        w.log(json!({"t":"finding","index":idx,"signature":format!("alloc|allocation unrelated to input size|{}", frames.first().cloned().unwrap_or_default()),
                            "what":format!("{} (lopdf frames: {})", msg, frames.join(" <- "))}));
                    }
                    if cases % 50 == 0 || a.one.is_some() {
                        w.log(json!({"t":"summary","cases":if a.one.is_some() {1} else {50},"counters":counters,"digests":digests,"samples":samples}));
                        counters.clear();
                        digests.clear();
                        samples.clear();
                    }
                    if a.one.is_some() {
                        break;
                    }
                    idx += 1;
                }
                if a.one.is_none() {
                    w.log(json!({"t":"summary","cases":cases % 50,"counters":counters,"digests":digests,"samples":samples}));
                }
            })
            .expect("spawn case thread");
    });
}

pub fn worker_main(args: &[String]) {
    let a = parse_worker_args(args);
    let assets = load_assets();
    if let Some(f) = &a.case_file {
        // replay of a self-contained witness
        let v: Value = serde_json::from_str(&std::fs::read_to_string(f).expect("case file")).expect("json");
        let case = Case::from_json(&v).expect("case json");
        let a2 = WorkerArgs { one: Some(0), ..parse_worker_args(args) };
        worker_loop(&a2, &|_| (case.clone(), case.len(), ENTRIES[case.entry].to_string(), 0), &|c: &Case| exec(c));
        return;
    }
    worker_loop(
        &a,
        &|i| {
            let c = gen_case(a.seed, a.shard, i, &assets);
            let len = c.len();
            let label = format!("{}/{}", ENTRIES[c.entry], c.origin.split('/').next().unwrap_or(""));
            let dg = crate::prng::fnv_bytes(&c.bytes) ^ (c.entry as u64);
            (c, len, label, dg)
        },
        &|c: &Case| exec(c),
    );
}

// ---------------------------------------------------------------------------- supervisor entry

pub fn sup_cfg(cfg: &RunCfg, secs_quick: f64, secs_thorough: f64) -> SupCfg {
    SupCfg {
        prop: cfg.prop.clone(),
        workers: cfg.threads,
        run_secs: if cfg.quick() { secs_quick } else { secs_thorough } * cfg.scale,
        max_cases: 0,
        seed: cfg.seed,
        work_dir: cfg.work_dir(),
        cpu_budget_base_s: 5.0,
        cpu_budget_per_byte_s: 50e-6,
    }
}

pub fn run(cfg: &RunCfg) -> (PropMeta, ShardOut, Map<String, Value>) {
    let sc = sup_cfg(cfg, 25.0, 600.0);
    let assets = load_assets();
    let seed = cfg.seed;
    let res = supervise(
        &sc,
        &|k, from, status: &Path, log: &Path| {
            vec!["worker".into(), "C04".into(), "--seed".into(), seed.to_string(), "--shard".into(), k.to_string(), "--from".into(), from.to_string(), "--status".into(), status.display().to_string(), "--log".into(), log.display().to_string()]
        },
        &|k, idx| vec!["worker".into(), "C04".into(), "--seed".into(), seed.to_string(), "--shard".into(), k.to_string(), "--one".into(), idx.to_string()],
        &|k, idx| gen_case(seed, k as u64, idx, &assets).to_json(),
    );
    let meta = PropMeta {
        level: "exploration",
        rule: "isolated worker processes call the 8 byte-level entry-point groups (Document::load_mem, IncrementalDocument::load_from, Content::decode, Stream filters, ObjectStream::new, decode_xref_stream, get_font_encoding+decode_text, decode_text_string) on structure-aware mutations (bit/byte/insert/delete/truncate/splice/numeric extremes/keyword swap/token cut) of valid inputs (repository assets, lopdf-written and reference-written files and histories, content streams, filter chains, object/xref streams, CMaps) and on size-parameterised adversarial templates; the supervisor watches exit status/signal, CPU time per case (budget 5 s + 50 us/byte), panic records and the counting allocator (single request > max(64 MiB, 4096 x len) or peak > 256 MiB + 8192 x len). distinct = distinct (entry, input bytes) digests (first 4000 per 500 cases).".into(),
        assumptions: vec![
            "lopdf built with overflow-checks and debug-assertions on (harness release profile)".into(),
            "time is decided on process CPU time; wall-clock only yields inconclusive".into(),
            "worker address space limited to 6 GiB; entry points run on an 8 MiB stack, rayon workers keep rayon's default".into(),
        ],
        exhaustive: false,
        min_distinct: 1000,
    };
    let mut extra = Map::new();
    extra.insert("run_seconds".into(), json!(sc.run_secs));
    extra.insert("workers".into(), json!(sc.workers));
    let mut out = res.out;
    if !cfg.quick() {
        memcheck_stage(cfg, &mut out, &mut extra);
    }
    {
        debug_stack_stage(cfg, &mut out, &mut extra);
    }
    (meta, out, extra)
}

/// thorough tier: replay a slice of the workload under valgrind memcheck. lopdf forbids unsafe
/// code, so this observes the unsafe code of its dependencies (nom/memchr, weezl, miniz_oxide,
/// hashbrown, aes/sha2) as driven by lopdf on hostile inputs. An error whose stack has a lopdf
/// frame is a violation; any other report is recorded as a note (inconclusive about lopdf).
fn memcheck_stage(cfg: &RunCfg, out: &mut ShardOut, extra: &mut Map<String, Value>) {
    let exe = std::env::current_exe().expect("exe");
    let dir = cfg.work_dir();
    let _ = std::fs::create_dir_all(&dir);
    let log = dir.join("memcheck.log");
    let wlog = dir.join("memcheck-worker.log");
    let _ = std::fs::remove_file(&wlog);
    let cases = 600;
    let res = std::process::Command::new("timeout")
        .arg("1200")
        .args(["valgrind", "--tool=memcheck", "--error-exitcode=9", "--num-callers=40"])
        .arg(format!("--log-file={}", log.display()))
        .arg(&exe)
        .args(["worker", "C04", "--seed", &cfg.seed.to_string(), "--shard", "77", "--from", "0", "--log"])
        .arg(&wlog)
        .env("VH_MAX_CASES", cases.to_string())
        .env("VH_NO_RLIMIT", "1")
        .env("RAYON_NUM_THREADS", "2")
        .output();
    match res {
        Err(e) => out.inconclusive.push(format!("memcheck stage could not start: {}", e)),
        Ok(o) => {
            let text = std::fs::read_to_string(&log).unwrap_or_default();
            let errors = text.lines().find(|l| l.contains("ERROR SUMMARY")).unwrap_or("").to_string();
            let ran = std::fs::read_to_string(&wlog).unwrap_or_default().lines().filter_map(|l| serde_json::from_str::<Value>(l).ok()).filter(|v| v["t"] == "summary").map(|v| v["cases"].as_u64().unwrap_or(0)).sum::<u64>();
            extra.insert("memcheck".into(), json!({"cases_replayed": ran, "summary": errors, "exit": o.status.code()}));
            out.evaluations += ran;
            if o.status.code() == Some(9) {
                let with_lopdf = text.contains("lopdf::");
                if with_lopdf {
                    let first = text.lines().find(|l| l.contains("lopdf::")).unwrap_or("").to_string();
                    out.finding(Finding { signature: "C04/memcheck".into(), what: format!("valgrind memcheck reported a memory error under a lopdf frame: {}", first), witness: json!({"kind":"memcheck","log_tail":text.chars().rev().take(4000).collect::<String>().chars().rev().collect::<String>()}) });
                } else {
                    out.counters.insert("memcheck_reports_without_lopdf_frame".into(), 1);
                }
            } else if ran < cases / 2 {
                out.inconclusive.push(format!("memcheck stage replayed only {} cases (exit {:?})", ran, o.status.code()));
            }
        }
    }
}

/// replay a self-contained witness in a child process under the same monitor
pub fn replay_with(prop: &str, w: &Value) -> Vec<Finding> {
    let Some(case) = w.get("case") else { return vec![] };
    let dir = std::env::temp_dir().join(format!("vh-replay-{}-{}", prop, std::process::id()));
    let _ = std::fs::create_dir_all(&dir);
    let cf = dir.join("case.json");
    let _ = std::fs::write(&cf, serde_json::to_string(case).unwrap());
    let sc = SupCfg { prop: prop.into(), workers: 1, run_secs: 60.0, max_cases: 1, seed: 0, work_dir: dir.clone(), cpu_budget_base_s: 5.0, cpu_budget_per_byte_s: 50e-6 };
    let cfs = cf.display().to_string();
    let p = prop.to_string();
    let case2 = case.clone();
    let res = supervise(
        &sc,
        &|_, _, status: &Path, log: &Path| vec!["worker".into(), p.clone(), "--case-file".into(), cfs.clone(), "--status".into(), status.display().to_string(), "--log".into(), log.display().to_string()],
        &|_, _| vec!["worker".into(), p.clone(), "--case-file".into(), cfs.clone()],
        &|_, _| case2.clone(),
    );
    let _ = std::fs::remove_dir_all(&dir);
    res.out.findings
}

pub fn replay(w: &Value) -> Vec<Finding> {
    if let Some(d) = w.get("case").and_then(|c| c.get("dbg_nesting")) {
        let kind = d.get("entry").and_then(|x| x.as_str()).unwrap_or("cd").to_string();
        let depth = d.get("depth").and_then(|x| x.as_u64()).unwrap_or(64) as usize;
        let verif = PathBuf::from(std::env::var("VERIF_DIR").unwrap_or_else(|_| "/verif".into()));
        return match dbg_binary(&verif) {
            Ok(bin) => match dbg_run(&bin, &kind, depth) {
                Some(false) if DBG_REPEAT_KINDS.iter().any(|k| k.0 == kind) => vec![dbg_repeat_finding(&kind, depth)],
                Some(false) => vec![dbg_finding(&kind, depth)],
                _ => vec![],
            },
            Err(_) => vec![],
        };
    }
    replay_with("C04", w)
}

// ------------------------------------------------------------------ unoptimised-build stage
//
// The monitors above run lopdf at opt-level 2. The recursive-descent parser's frames are several times larger in
// an unoptimised build (what `cargo build` / `cargo test` of an application give by default), so "never overflows
// the stack" is observed there as well: a small crate (/verif/dbg_c04, dev profile) parses nesting templates on a
// thread with the 2 MiB stack that spawned threads and rayon pool threads get by default.

const DBG_KINDS: [(&str, &str); 4] = [
    ("cd", "Content::decode, dictionary operand"),
    ("ca", "Content::decode, array operand"),
    ("fd", "Document::load_mem, dictionary object"),
    ("fa", "Document::load_mem, array object"),
];
const DBG_DEPTHS: [usize; 13] = [4, 8, 16, 24, 32, 48, 64, 72, 80, 96, 128, 192, 256];

fn dbg_binary(verif: &Path) -> Result<PathBuf, String> {
    static BUILT: std::sync::OnceLock<Result<PathBuf, String>> = std::sync::OnceLock::new();
    BUILT
        .get_or_init(|| {
            let root = std::env::var("VERIF_TARGET").map(PathBuf::from).unwrap_or_else(|_| verif.join("target"));
            let target = root.join("dbg");
            let mut cmd = std::process::Command::new("cargo");
            cmd.args(["build", "--offline", "--manifest-path"]).arg(verif.join("dbg_c04").join("Cargo.toml")).arg("--target-dir").arg(&target);
            if let Ok(p) = std::env::var("VERIF_LOPDF_PATH") {
                cmd.arg("--config").arg(format!("paths=[\"{}\"]", p));
            }
            cmd.env("CARGO_NET_OFFLINE", "true");
            match cmd.output() {
                Ok(o) if o.status.success() => Ok(target.join("debug").join("dbg_c04")),
                Ok(o) => Err(format!("unoptimised build failed: {}", String::from_utf8_lossy(&o.stderr).lines().rev().take(3).collect::<Vec<_>>().join(" | "))),
                Err(e) => Err(format!("cargo could not be started: {}", e)),
            }
        })
        .clone()
}

/// Some(true): the call returned; Some(false): the process was killed (stack overflow abort); None: could not run
fn dbg_run(bin: &Path, kind: &str, depth: usize) -> Option<bool> {
    let o = std::process::Command::new("timeout").arg("60").arg(bin).arg(kind).arg(depth.to_string()).output().ok()?;
    if o.status.success() && String::from_utf8_lossy(&o.stdout).contains("returned") {
        return Some(true);
    }
    let err = String::from_utf8_lossy(&o.stderr);
    if err.contains("overflowed its stack") || o.status.code().is_none() || o.status.code() == Some(134) || o.status.code() == Some(139) {
        return Some(false);
    }
    None
}

/// repetition templates of the unoptimised-build stage: the count is a number of repeated items, not a nesting depth
const DBG_REPEAT_KINDS: [(&str, &str); 4] = [
    ("eof", "Document::load_mem, file with that many %%EOF comment lines in front of its real tail"),
    ("cmt", "Document::load_mem, that many comment lines in front of an object"),
    ("par", "Document::load_mem, literal string object with that many nested parentheses"),
    ("cpar", "Content::decode, literal string operand with that many nested parentheses"),
];
const DBG_COUNTS: [usize; 3] = [1_000, 20_000, 200_000];

fn dbg_repeat_finding(kind: &str, count: usize) -> Finding {
    let what = DBG_REPEAT_KINDS.iter().find(|k| k.0 == kind).map(|k| k.1).unwrap_or(kind);
    Finding {
        signature: format!("stack_overflow|unoptimised build, 2 MiB thread|{}|count<={}", kind, DBG_COUNTS[DBG_COUNTS.len() - 1]),
        what: format!("unoptimised (dev profile) build: {} (count {}) overflows the 2 MiB stack of a spawned thread and aborts the process", what, count),
        witness: json!({"kind":"dbg-nesting","case":{"dbg_nesting":{"entry":kind,"depth":count}}}),
    }
}

fn dbg_finding(kind: &str, depth: usize) -> Finding {
    let bucket = if depth <= 32 { "depth<=32" } else { "depth 33..=256" };
    let what = DBG_KINDS.iter().find(|k| k.0 == kind).map(|k| k.1).unwrap_or(kind);
    Finding {
        signature: format!("stack_overflow|unoptimised build, 2 MiB thread|{}|{}", kind, bucket),
        what: format!("unoptimised (dev profile) build: {} nested {} levels overflows the 2 MiB stack of a spawned thread and aborts the process (input of about {} bytes)", what, depth, depth * 6 + 8),
        witness: json!({"kind":"dbg-nesting","case":{"dbg_nesting":{"entry":kind,"depth":depth}}}),
    }
}

fn debug_stack_stage(cfg: &RunCfg, out: &mut ShardOut, extra: &mut Map<String, Value>) {
    let bin = match dbg_binary(&cfg.verif_dir) {
        Ok(b) => b,
        Err(e) => {
            extra.insert("unoptimised_build_stage".into(), json!({"skipped": e}));
            return;
        }
    };
    let mut report = Map::new();
    for (kind, _) in DBG_KINDS {
        let mut max_ok = 0usize;
        let mut first_bad = None;
        for depth in DBG_DEPTHS {
            out.evaluations += 1;
            match dbg_run(&bin, kind, depth) {
                Some(true) => max_ok = depth,
                Some(false) => {
                    first_bad = Some(depth);
                    break;
                }
                None => break,
            }
        }
        report.insert(kind.to_string(), json!({"deepest_template_that_returned": max_ok, "first_that_overflowed": first_bad}));
        if let Some(d) = first_bad {
            out.finding(dbg_finding(kind, d));
        }
    }
    for (kind, _) in DBG_REPEAT_KINDS {
        let mut max_ok = 0usize;
        let mut first_bad = None;
        for count in DBG_COUNTS {
            out.evaluations += 1;
            match dbg_run(&bin, kind, count) {
                Some(true) => max_ok = count,
                Some(false) => {
                    first_bad = Some(count);
                    break;
                }
                None => break,
            }
        }
        report.insert(kind.to_string(), json!({"largest_count_that_returned": max_ok, "first_that_overflowed": first_bad}));
        if let Some(c) = first_bad {
            out.finding(dbg_repeat_finding(kind, c));
        }
    }
    extra.insert("unoptimised_build_stage".into(), Value::Object(report));
}
