//! C13 — read-only queries are total on arbitrary object graphs.
//! Deciding monitor: process monitor (signals, panics, CPU time, allocator) around every public
//! read-only query, on typed-chaos documents and long-chain templates.

use crate::bridge::*;
use crate::gen;
use crate::monitor::*;
use crate::prng::Rng;
use crate::props::c04::{parse_worker_args, sup_cfg, worker_loop, WorkerArgs};
use crate::refimpl::cmap_ref;
use crate::refimpl::robj::{RDoc, RObj};
use crate::util::*;
use lopdf::{Document, Object};
use serde_json::{json, Map, Value};
use std::path::Path;

pub const TAG: &str = "C13";

const KEYS: &[&str] = &[
    "Type", "Kids", "Parent", "Count", "Contents", "Resources", "Font", "XObject", "ColorSpace", "Annots", "Outlines", "First", "Last", "Next", "Prev", "Dest", "A", "D", "S", "Title",
    "Names", "Dests", "Encoding", "ToUnicode", "Filter", "Length", "Subtype", "Width", "Height", "BitsPerComponent", "Pages", "Root", "MediaBox", "BaseFont", "DecodeParms", "Encrypt", "Info", "F1", "Im1",
];
const TYPE_NAMES: &[&str] = &["Catalog", "Pages", "Page", "Font", "XObject", "Image", "Outlines", "Action", "GoTo", "GoToR", "Fit", "XYZ", "Annot", "Link", "Metadata", "ObjStm", "XRef", "Identity-H", "WinAnsiEncoding", "FlateDecode", "Standard"];

fn k(s: &str) -> Vec<u8> {
    s.as_bytes().to_vec()
}
fn name(s: &str) -> RObj {
    RObj::Name(s.as_bytes().to_vec())
}

fn chaos_value(r: &mut Rng, n: u32, depth: usize) -> RObj {
    match r.below(12) {
        0 => RObj::Null,
        1 => RObj::Bool(r.bool()),
        2 => RObj::Int(*r.pick(&[0i64, 1, -1, 2, 3, 1000, i64::MAX, i64::MIN, 1_000_000_000_000, 4294967296, -2147483648])),
        3 => RObj::Real(gen::real_value(r)),
        4 => name(*r.pick(TYPE_NAMES)),
        5 => RObj::Str(gen::hostile_bytes(r, 12), r.bool()),
        6 | 7 => RObj::Ref(r.below(n as u64 + 3) as u32, if r.chance(1, 10) { 1 } else { 0 }),
        8 | 9 if depth < 3 => {
            let m = r.usize_below(5);
            RObj::Array((0..m).map(|_| chaos_value(r, n, depth + 1)).collect())
        }
        10 if depth < 3 => {
            let m = r.usize_below(5);
            let mut d: Vec<(Vec<u8>, RObj)> = vec![];
            for _ in 0..m {
                let key = k(*r.pick(KEYS));
                if !d.iter().any(|(kk, _)| *kk == key) {
                    d.push((key, chaos_value(r, n, depth + 1)));
                }
            }
            RObj::Dict(d)
        }
        _ => RObj::Array(vec![]),
    }
}

#[derive(Clone, Copy, PartialEq)]
enum Role {
    Catalog,
    Pages,
    Page,
    Font,
    Content,
    OutlineRoot,
    OutlineItem,
    Action,
    NameTree,
    Resources,
    Image,
    RefArray,
    CMapStream,
    Misc,
    /// an indirect object that is nothing but a reference (to itself, to another alias, to anything)
    Alias,
}

fn content_bytes(r: &mut Rng) -> Vec<u8> {
    let mut s = String::new();
    for _ in 0..r.usize_below(8) {
        match r.below(8) {
            0 => s.push_str("BT "),
            1 => s.push_str("ET "),
            2 => s.push_str(&format!("/{} 12 Tf ", r.pick(&["F1", "F2", "Im1", "X"]))),
            3 => s.push_str("(Hello) Tj "),
            4 => s.push_str("[(a) -200 (b) [(c)] <41>] TJ "),
            5 => s.push_str("Tf "),
            6 => s.push_str("/Im1 Do "),
            _ => s.push_str("12 Tf (x) Tj "),
        }
    }
    s.into_bytes()
}

/// typed-chaos document: every key the query code reads is bound either plausibly or chaotically
pub fn chaos_doc(r: &mut Rng) -> RDoc {
    let n = 3 + r.below(30) as u32;
    let chaos_pct = *r.pick(&[5u64, 20, 40, 70]);
    let roles: Vec<Role> = (1..=n)
        .map(|i| {
            if i == 1 {
                Role::Catalog
            } else if i == 2 {
                Role::Pages
            } else {
                *r.pick(&[
                    Role::Pages, Role::Page, Role::Page, Role::Font, Role::Content, Role::OutlineRoot, Role::OutlineItem, Role::OutlineItem, Role::Action, Role::NameTree, Role::Resources, Role::Image, Role::RefArray,
                    Role::CMapStream, Role::Misc, Role::Alias,
                ])
            }
        })
        .collect();
    let of_role = |role: Role, r: &mut Rng| -> RObj {
        let c: Vec<u32> = (1..=n).filter(|i| roles[(*i - 1) as usize] == role).collect();
        if c.is_empty() || r.chance(1, 10) {
            RObj::Ref(1 + r.below(n as u64) as u32, 0)
        } else {
            RObj::Ref(*r.pick(&c), 0)
        }
    };
    let mut d = RDoc::new();
    for i in 1..=n {
        let role = roles[(i - 1) as usize];
        let mut e: Vec<(Vec<u8>, RObj)> = vec![];
        let mut put = |r: &mut Rng, key: &str, plausible: RObj, e: &mut Vec<(Vec<u8>, RObj)>| {
            if r.chance(1, 12) {
                return; // key absent
            }
            let v = if r.below(100) < chaos_pct { chaos_value(r, n, 0) } else { plausible };
            e.push((k(key), v));
        };
        let obj = match role {
            Role::Catalog => {
                put(r, "Type", name("Catalog"), &mut e);
                let p = of_role(Role::Pages, r);
                put(r, "Pages", p, &mut e);
                let o = of_role(Role::OutlineRoot, r);
                put(r, "Outlines", o, &mut e);
                if r.bool() {
                    let nt = of_role(Role::NameTree, r);
                    put(r, "Dests", nt, &mut e);
                } else {
                    let nt = of_role(Role::NameTree, r);
                    put(r, "Names", RObj::Dict(vec![(k("Dests"), nt)]), &mut e);
                }
                RObj::Dict(e)
            }
            Role::Pages => {
                put(r, "Type", name("Pages"), &mut e);
                let kids: Vec<RObj> = (0..r.usize_below(5)).map(|_| if r.bool() { of_role(Role::Page, r) } else { of_role(Role::Pages, r) }).collect();
                let kv = if r.chance(1, 5) { of_role(Role::RefArray, r) } else { RObj::Array(kids) };
                put(r, "Kids", kv, &mut e);
                let cnt = RObj::Int(r.below(5) as i64);
                put(r, "Count", cnt, &mut e);
                let p = of_role(Role::Pages, r);
                put(r, "Parent", p, &mut e);
                let res = of_role(Role::Resources, r);
                put(r, "Resources", res, &mut e);
                RObj::Dict(e)
            }
            Role::Page => {
                put(r, "Type", name("Page"), &mut e);
                let p = of_role(Role::Pages, r);
                put(r, "Parent", p, &mut e);
                let c = match r.below(3) {
                    0 => of_role(Role::Content, r),
                    1 => RObj::Array((0..r.usize_below(4)).map(|_| of_role(Role::Content, r)).collect()),
                    _ => of_role(Role::RefArray, r),
                };
                put(r, "Contents", c, &mut e);
                let res = if r.bool() {
                    of_role(Role::Resources, r)
                } else {
                    RObj::Dict(vec![(k("Font"), RObj::Dict(vec![(k("F1"), of_role(Role::Font, r))])), (k("XObject"), RObj::Dict(vec![(k("Im1"), of_role(Role::Image, r))]))])
                };
                put(r, "Resources", res, &mut e);
                let an = if r.bool() { of_role(Role::RefArray, r) } else { RObj::Array((0..r.usize_below(3)).map(|_| of_role(Role::Action, r)).collect()) };
                put(r, "Annots", an, &mut e);
                RObj::Dict(e)
            }
            Role::Font => {
                put(r, "Type", name("Font"), &mut e);
                put(r, "Subtype", name("Type1"), &mut e);
                let enc = name(*r.pick(&["WinAnsiEncoding", "MacRomanEncoding", "Identity-H", "StandardEncoding", "PDFDocEncoding", "MacExpertEncoding", "UniGB-UCS2-H", "Custom"]));
                put(r, "Encoding", enc, &mut e);
                let tu = of_role(Role::CMapStream, r);
                put(r, "ToUnicode", tu, &mut e);
                RObj::Dict(e)
            }
            Role::Content => {
                if r.chance(1, 4) {
                    put(r, "Filter", name("FlateDecode"), &mut e);
                }
                RObj::Stream(e, content_bytes(r))
            }
            Role::CMapStream => {
                let defs = cmap_ref::gen_defs(r);
                let mut b = cmap_ref::render(&defs, r);
                if r.chance(1, 3) {
                    crate::props::c04::mutate(r, &mut b);
                }
                RObj::Stream(e, b)
            }
            Role::OutlineRoot => {
                put(r, "Type", name("Outlines"), &mut e);
                let f = of_role(Role::OutlineItem, r);
                put(r, "First", f, &mut e);
                let l = of_role(Role::OutlineItem, r);
                put(r, "Last", l, &mut e);
                let cnt = RObj::Int(r.below(4) as i64);
                put(r, "Count", cnt, &mut e);
                RObj::Dict(e)
            }
            Role::OutlineItem => {
                // titles: plain, or with a UTF-16BE / UTF-16LE / UTF-8 byte order mark followed by 0..8 arbitrary bytes
                // (so odd lengths, lone surrogates and truncated sequences occur), or an object of another kind
                let t = match r.below(8) {
                    0 => of_role(Role::Misc, r),
                    1 | 2 => RObj::Str(b"Title".to_vec(), false),
                    _ => {
                        let mut b: Vec<u8> = r.pick(&[&b""[..], b"\xfe\xff", b"\xfe\xff", b"\xff\xfe", b"\xef\xbb\xbf"]).to_vec();
                        let n = r.usize_below(9);
                        b.extend(r.bytes(n));
                        RObj::Str(b, r.bool())
                    }
                };
                put(r, "Title", t, &mut e);
                let p = of_role(Role::OutlineItem, r);
                put(r, "Parent", p, &mut e);
                if r.chance(2, 3) {
                    let nx = of_role(Role::OutlineItem, r);
                    put(r, "Next", nx, &mut e);
                }
                if r.chance(1, 3) {
                    let f = of_role(Role::OutlineItem, r);
                    put(r, "First", f, &mut e);
                }
                if r.bool() {
                    let a = if r.bool() { of_role(Role::Action, r) } else { RObj::Dict(vec![(k("S"), name("GoTo")), (k("D"), RObj::Array(vec![of_role(Role::Page, r), name("Fit")]))]) };
                    put(r, "A", a, &mut e);
                } else {
                    let dst = match r.below(5) {
                        4 => of_role(Role::Alias, r),
                        0 => RObj::Array(vec![of_role(Role::Page, r), name("Fit")]),
                        1 => RObj::Str(b"named".to_vec(), false),
                        2 => RObj::Array(vec![of_role(Role::Page, r)]),
                        _ => of_role(Role::RefArray, r),
                    };
                    put(r, "Dest", dst, &mut e);
                }
                RObj::Dict(e)
            }
            Role::Action => {
                let sn = name(*r.pick(&["GoTo", "GoToR", "URI"]));
                put(r, "S", sn, &mut e);
                let dd = match r.below(3) {
                    0 => RObj::Array(vec![of_role(Role::Page, r), name("Fit")]),
                    1 => RObj::Array(vec![]),
                    _ => RObj::Str(b"named".to_vec(), false),
                };
                put(r, "D", dd, &mut e);
                put(r, "Subtype", name("Link"), &mut e);
                RObj::Dict(e)
            }
            Role::NameTree => {
                if r.bool() {
                    let kids: Vec<RObj> = (0..r.usize_below(3)).map(|_| of_role(Role::NameTree, r)).collect();
                    put(r, "Kids", RObj::Array(kids), &mut e);
                }
                let mut names = vec![];
                for _ in 0..r.usize_below(4) {
                    names.push(if r.chance(1, 8) { RObj::Int(3) } else { RObj::Str(b"named".to_vec(), false) });
                    names.push(match r.below(4) {
                        0 => of_role(Role::Action, r),
                        1 => RObj::Dict(vec![(k("D"), RObj::Array(vec![of_role(Role::Page, r), name("Fit")]))]),
                        2 => of_role(Role::RefArray, r),
                        _ => RObj::Dict(vec![]),
                    });
                }
                if r.chance(1, 4) {
                    names.pop();
                }
                put(r, "Names", RObj::Array(names), &mut e);
                RObj::Dict(e)
            }
            Role::Resources => {
                let f = if r.bool() { RObj::Dict(vec![(k("F1"), of_role(Role::Font, r)), (k("F2"), of_role(Role::Font, r))]) } else { of_role(Role::Misc, r) };
                put(r, "Font", f, &mut e);
                let x = RObj::Dict(vec![(k("Im1"), of_role(Role::Image, r))]);
                put(r, "XObject", x, &mut e);
                RObj::Dict(e)
            }
            Role::Image => {
                put(r, "Type", name("XObject"), &mut e);
                put(r, "Subtype", name("Image"), &mut e);
                put(r, "Width", RObj::Int(2), &mut e);
                put(r, "Height", RObj::Int(2), &mut e);
                let cs = match r.below(3) {
                    0 => name("DeviceRGB"),
                    1 => RObj::Array(vec![]),
                    _ => RObj::Array(vec![name("ICCBased"), RObj::Ref(1, 0)]),
                };
                put(r, "ColorSpace", cs, &mut e);
                put(r, "BitsPerComponent", RObj::Int(8), &mut e);
                if r.bool() {
                    put(r, "Filter", RObj::Array(vec![name("FlateDecode")]), &mut e);
                }
                RObj::Stream(e, r.bytes(12))
            }
            Role::RefArray => RObj::Array((0..r.usize_below(6)).map(|_| chaos_value(r, n, 2)).collect()),
            Role::Misc => chaos_value(r, n, 0),
            Role::Alias => match r.below(3) {
                0 => RObj::Ref(i, 0),
                1 => of_role(Role::Alias, r),
                _ => RObj::Ref(1 + r.below(n as u64) as u32, 0),
            },
        };
        d.objects.insert((i, 0), obj);
    }
    d.trailer = vec![(k("Root"), if r.chance(1, 10) { chaos_value(r, n, 0) } else { RObj::Ref(1, 0) })];
    if r.chance(1, 6) {
        d.trailer.push((k("Encrypt"), chaos_value(r, n, 0)));
    }
    d
}

/// long-chain templates that random chaos would take too long to build
pub fn chain_doc(r: &mut Rng) -> (RDoc, String) {
    let l = *r.pick(&[10u32, 10, 200, 200, 1000, 1000, 20_000, 20_000, 200_000]);
    let cyc = r.bool();
    let which = r.below(10);
    let mut d = RDoc::new();
    let dict = |e: Vec<(&str, RObj)>| RObj::Dict(e.into_iter().map(|(a, b)| (k(a), b)).collect());
    d.trailer = vec![(k("Root"), RObj::Ref(1, 0))];
    let label;
    match which {
        0 => {
            // page whose Parent chain is long or cyclic, Resources by reference at every level
            label = "parent-chain";
            d.objects.insert((1, 0), dict(vec![("Type", name("Catalog")), ("Pages", RObj::Ref(3, 0))]));
            d.objects.insert((2, 0), dict(vec![("Type", name("Page")), ("Parent", RObj::Ref(3, 0)), ("Resources", RObj::Ref(3, 0)), ("Contents", RObj::Ref(2, 0))]));
            for i in 0..l {
                let next = if i + 1 == l { if cyc { 3 } else { 0 } } else { 4 + i };
                let mut e = vec![("Type", name("Pages")), ("Kids", RObj::Array(vec![RObj::Ref(2, 0)])), ("Count", RObj::Int(1)), ("Resources", RObj::Ref(3 + i, 0))];
                if next != 0 {
                    e.push(("Parent", RObj::Ref(next, 0)));
                }
                d.objects.insert((3 + i, 0), dict(e));
            }
        }
        1 | 2 => {
            // outline items linked by Next (1) or nested by First (2), long or cyclic
            label = if which == 1 { "outline-next-chain" } else { "outline-first-chain" };
            d.objects.insert((1, 0), dict(vec![("Type", name("Catalog")), ("Pages", RObj::Ref(2, 0)), ("Outlines", RObj::Ref(3, 0))]));
            d.objects.insert((2, 0), dict(vec![("Type", name("Pages")), ("Kids", RObj::Array(vec![])), ("Count", RObj::Int(0))]));
            d.objects.insert((3, 0), dict(vec![("Type", name("Outlines")), ("First", RObj::Ref(4, 0))]));
            for i in 0..l {
                let next = if i + 1 == l { if cyc { 4 } else { 0 } } else { 5 + i };
                let mut e = vec![("Title", RObj::Str(format!("t{}", i).into_bytes(), false)), ("Dest", RObj::Array(vec![RObj::Ref(2, 0), name("Fit")]))];
                if next != 0 {
                    e.push((if which == 1 { "Next" } else { "First" }, RObj::Ref(next, 0)));
                }
                d.objects.insert((4 + i, 0), dict(e));
            }
        }
        3 => {
            // deep page tree: every Pages node has one kid, long or cyclic
            label = "kids-chain";
            d.objects.insert((1, 0), dict(vec![("Type", name("Catalog")), ("Pages", RObj::Ref(2, 0))]));
            for i in 0..l {
                let kid = if i + 1 == l { if cyc { 2 } else { 2 + l } } else { 3 + i };
                d.objects.insert((2 + i, 0), dict(vec![("Type", name("Pages")), ("Kids", RObj::Array(vec![RObj::Ref(kid, 0)])), ("Count", RObj::Int(1))]));
            }
            d.objects.insert((2 + l, 0), dict(vec![("Type", name("Page")), ("Parent", RObj::Ref(1 + l, 0))]));
        }
        4 => {
            // reference chain (object i is a reference to object i+1)
            label = "reference-chain";
            d.objects.insert((1, 0), dict(vec![("Type", name("Catalog")), ("Pages", RObj::Ref(2, 0))]));
            for i in 0..l {
                let next = if i + 1 == l { if cyc { 2 } else { 1 } } else { 3 + i };
                d.objects.insert((2 + i, 0), RObj::Ref(next, 0));
            }
        }
        5 => {
            // name tree Kids nesting
            label = "nametree-kids-chain";
            d.objects.insert((1, 0), dict(vec![("Type", name("Catalog")), ("Pages", RObj::Ref(2, 0)), ("Outlines", RObj::Ref(3, 0)), ("Dests", RObj::Ref(4, 0))]));
            d.objects.insert((2, 0), dict(vec![("Type", name("Pages")), ("Kids", RObj::Array(vec![])), ("Count", RObj::Int(0))]));
            d.objects.insert((3, 0), dict(vec![("Type", name("Outlines"))]));
            for i in 0..l {
                let next = if i + 1 == l { if cyc { 4 } else { 0 } } else { 5 + i };
                let mut e = vec![("Names", RObj::Array(vec![RObj::Str(b"n".to_vec(), false), RObj::Dict(vec![(k("D"), RObj::Array(vec![RObj::Ref(2, 0), name("Fit")]))])]))];
                if next != 0 {
                    e.push(("Kids", RObj::Array(vec![RObj::Ref(next, 0)])));
                }
                d.objects.insert((4 + i, 0), dict(e));
            }
        }
        6 => {
            // page with an absurd Count on its Pages parent and many kids
            label = "count-extremes";
            d.objects.insert((1, 0), dict(vec![("Type", name("Catalog")), ("Pages", RObj::Ref(2, 0))]));
            let c = *r.pick(&[1_000_000_000_000i64, i64::MAX, -5, 4294967296]);
            d.objects.insert((2, 0), dict(vec![("Type", name("Pages")), ("Kids", RObj::Array(vec![RObj::Ref(3, 0), RObj::Ref(4, 0)])), ("Count", RObj::Int(c))]));
            d.objects.insert((3, 0), dict(vec![("Type", name("Pages")), ("Kids", RObj::Array(vec![RObj::Ref(4, 0)])), ("Count", RObj::Int(c)), ("Parent", RObj::Ref(2, 0))]));
            d.objects.insert((4, 0), dict(vec![("Type", name("Page")), ("Parent", RObj::Ref(3, 0))]));
            // half of these: a real page first, then several sibling nodes that each claim the absurd count (the
            // claims of all pending nodes together exceed what a machine word holds)
            if r.bool() {
                let k = 2 + r.below(5) as u32;
                let mut kids = vec![RObj::Ref(4, 0)];
                for i in 0..k {
                    let id = 10 + i;
                    d.objects.insert((id, 0), dict(vec![("Type", name("Pages")), ("Kids", RObj::Array(vec![RObj::Ref(4, 0)])), ("Count", RObj::Int(c)), ("Parent", RObj::Ref(2, 0))]));
                    kids.push(RObj::Ref(id, 0));
                }
                d.objects.insert((2, 0), dict(vec![("Type", name("Pages")), ("Kids", RObj::Array(kids)), ("Count", RObj::Int(c))]));
            }
        }
        7 => {
            // Contents: array of l references / reference chain to array
            label = "contents-array";
            d.objects.insert((1, 0), dict(vec![("Type", name("Catalog")), ("Pages", RObj::Ref(2, 0))]));
            d.objects.insert((2, 0), dict(vec![("Type", name("Pages")), ("Kids", RObj::Array(vec![RObj::Ref(3, 0)])), ("Count", RObj::Int(1))]));
            let m = l.min(20_000);
            d.objects.insert((3, 0), dict(vec![("Type", name("Page")), ("Parent", RObj::Ref(2, 0)), ("Contents", RObj::Array((0..m).map(|i| RObj::Ref(4 + (i % 3), 0)).collect()))]));
            d.objects.insert((4, 0), RObj::Stream(vec![], b"BT (a) Tj ET ".to_vec()));
            d.objects.insert((5, 0), RObj::Stream(vec![(k("Filter"), name("FlateDecode"))], b"not zlib".to_vec()));
        }
        9 => {
            // layered lattices: every node of a level lists ALL nodes of the next level, so the structure is
            // acyclic and small (levels x width nodes) but has width^levels distinct paths - a walk that
            // guards only against cycles on the current path, not against revisiting, never finishes.
            // Built for the three child-list shapes: name-tree Kids, page-tree Kids, outline First/Next.
            label = "lattice";
            let levels = *r.pick(&[12u32, 24, 40, 60]);
            let width = 2 + r.below(2) as u32;
            let mut next_id = 10u32;
            let mut alloc = |n: u32| -> Vec<u32> {
                let v: Vec<u32> = (next_id..next_id + n).collect();
                next_id += n;
                v
            };
            let names: Vec<Vec<u32>> = (0..levels).map(|_| alloc(width)).collect();
            let pages: Vec<Vec<u32>> = (0..levels).map(|_| alloc(width)).collect();
            let items: Vec<Vec<u32>> = (0..levels).map(|_| alloc(width)).collect();
            let leaf_page = alloc(1)[0];
            d.objects.insert((1, 0), dict(vec![("Type", name("Catalog")), ("Pages", RObj::Ref(pages[0][0], 0)), ("Names", RObj::Dict(vec![(k("Dests"), RObj::Ref(names[0][0], 0))])), ("Outlines", RObj::Ref(2, 0))]));
            d.objects.insert((2, 0), dict(vec![("Type", name("Outlines")), ("First", RObj::Ref(items[0][0], 0)), ("Last", RObj::Ref(items[0][width as usize - 1], 0))]));
            d.objects.insert((leaf_page, 0), dict(vec![("Type", name("Page")), ("Parent", RObj::Ref(pages[levels as usize - 1][0], 0))]));
            for l in 0..levels as usize {
                let last = l + 1 == levels as usize;
                for (j, id) in names[l].iter().enumerate() {
                    let mut e = vec![];
                    if last {
                        e.push(("Names", RObj::Array(vec![RObj::Str(format!("d{}", j).into_bytes(), false), RObj::Array(vec![RObj::Ref(leaf_page, 0), name("Fit")])])));
                    } else {
                        e.push(("Kids", RObj::Array(names[l + 1].iter().map(|x| RObj::Ref(*x, 0)).collect())));
                    }
                    d.objects.insert((*id, 0), dict(e));
                }
                for id in &pages[l] {
                    let kids: Vec<RObj> = if last { vec![RObj::Ref(leaf_page, 0)] } else { pages[l + 1].iter().map(|x| RObj::Ref(*x, 0)).collect() };
                    d.objects.insert((*id, 0), dict(vec![("Type", name("Pages")), ("Kids", RObj::Array(kids)), ("Count", RObj::Int(1))]));
                }
                for (j, id) in items[l].iter().enumerate() {
                    let mut e = vec![("Title", RObj::Str(format!("i{}-{}", l, j).into_bytes(), false)), ("Dest", RObj::Array(vec![RObj::Ref(leaf_page, 0), name("Fit")]))];
                    if j + 1 < items[l].len() {
                        e.push(("Next", RObj::Ref(items[l][j + 1], 0)));
                    }
                    if !last {
                        e.push(("First", RObj::Ref(items[l + 1][0], 0)));
                    }
                    d.objects.insert((*id, 0), dict(e));
                }
            }
        }
        _ => {
            // wide flat page tree (budget behaviour of the page iterator)
            label = "wide-page-tree";
            d.objects.insert((1, 0), dict(vec![("Type", name("Catalog")), ("Pages", RObj::Ref(2, 0))]));
            let m = l.min(100_000);
            d.objects.insert((2, 0), dict(vec![("Type", name("Pages")), ("Kids", RObj::Array((0..m).map(|i| RObj::Ref(3 + i, 0)).collect())), ("Count", RObj::Int(m as i64))]));
            for i in 0..m {
                d.objects.insert((3 + i, 0), dict(vec![("Type", name("Page")), ("Parent", RObj::Ref(2, 0))]));
            }
        }
    }
    (d, format!("template:{}/{}{}", label, l, if cyc { "/cyclic" } else { "" }))
}

pub struct QCase {
    pub doc: Document,
    pub label: String,
    pub model: RDoc,
}

pub fn gen_case(seed: u64, shard: u64, index: u64) -> QCase {
    let mut r = Rng::for_case(seed, TAG, shard, index);
    let (model, label) = if r.chance(1, 10) {
        chain_doc(&mut r)
    } else {
        (chaos_doc(&mut r), "chaos".to_string())
    };
    let doc = to_lo_doc(&model, false);
    QCase { doc, label, model }
}

/// every public read-only query; results are discarded, only totality is observed
pub fn run_queries(doc: &Document) {
    // the per-case CPU budget covers the whole bundle of queries: on very large documents the
    // per-object queries are issued for a handful of ids only
    let per_object = if doc.objects.len() > 2000 { 4 } else { 64 };
    let ids: Vec<(u32, u16)> = doc.objects.keys().cloned().take(per_object).collect();
    let _ = doc.catalog();
    let _ = doc.get_encrypted();
    let _ = doc.is_encrypted();
    let _ = doc.get_crypt_filters();
    let pages = doc.get_pages();
    std::hint::black_box(doc.page_iter().count());
    let _ = doc.page_iter().size_hint();
    let page_nums: Vec<u32> = pages.keys().cloned().take(8).collect();
    let _ = doc.extract_text(&page_nums);
    let _ = doc.extract_text(&[1, 2, 99]);
    let _ = doc.extract_text_chunks(&page_nums);
    let mut nd = Default::default();
    let _ = doc.get_outlines(None, None, &mut nd);
    let _ = doc.get_toc();
    for id in ids.iter().chain(pages.values().take(8)) {
        let id = *id;
        let _ = doc.get_object(id);
        let _ = doc.get_dictionary(id);
        let _ = doc.has_object(id);
        let _ = doc.get_page_contents(id);
        let _ = doc.get_page_content(id);
        let _ = doc.get_and_decode_page_content(id);
        let _ = doc.get_page_resources(id);
        let _ = doc.get_page_fonts(id);
        let _ = doc.get_page_annotations(id);
        let _ = doc.get_page_images(id);
        let _ = doc.get_object_page(id);
        if let Some(o) = doc.objects.get(&id) {
            let _ = doc.dereference(o);
            let _ = o.type_name();
            if let Ok(dd) = o.as_dict() {
                let _ = dd.get_font_encoding(doc);
                let _ = dd.get_deref(b"Parent", doc);
                let mut m = Default::default();
                let _ = doc.get_outline(dd, &mut m);
                let mut m2 = Default::default();
                let _ = doc.get_named_destinations(dd, &mut m2);
                for key in [&b"Resources"[..], b"Font", b"A", b"Next"] {
                    let _ = doc.get_dict_in_dict(dd, key);
                }
            }
            if let Ok(s) = o.as_stream() {
                let _ = s.decompressed_content();
                let _ = s.get_plain_content();
                let _ = s.decode_content();
                let _ = s.filters();
            }
        }
    }
    // traverse_objects takes &mut self but only visits
    let mut c = doc.clone();
    let refs = c.traverse_objects(|_| {});
    std::hint::black_box(refs.len());
    let _ = c.get_object_mut(ids.first().cloned().unwrap_or((1, 0)));
    let _ = c.catalog_mut();
    let _ = Object::Null.as_datetime();
}

pub fn worker_main(args: &[String]) {
    let a = parse_worker_args(args);
    if let Some(f) = &a.case_file {
        let v: Value = serde_json::from_str(&std::fs::read_to_string(f).expect("case file")).expect("json");
        let model = v.get("doc").and_then(rdoc_from_json).expect("doc");
        let a2 = WorkerArgs { one: Some(0), ..parse_worker_args(args) };
        let n = model.objects.len();
        worker_loop(&a2, &|_| (to_lo_doc(&model, false), n, "witness".to_string(), 0), &|d: &Document| run_queries(d));
        return;
    }
    worker_loop(
        &a,
        &|i| {
            let c = gen_case(a.seed, a.shard, i);
            let n = c.model.objects.len();
            let dg = if n > 5000 { i } else { gen::digest_rdoc(&c.model) };
            (c.doc, n, c.label.split('/').take(2).collect::<Vec<_>>().join("/"), dg)
        },
        &|d: &Document| run_queries(d),
    );
}

fn describe(seed: u64, k: usize, idx: u64) -> Value {
    let c = gen_case(seed, k as u64, idx);
    if c.model.objects.len() > 3000 {
        // large templates: keep the recipe, not 200k objects
        json!({"label":c.label,"seed":seed,"shard":k,"index":idx,"objects":c.model.objects.len()})
    } else {
        json!({"label":c.label,"doc":rdoc_to_json(&c.model)})
    }
}

pub fn run(cfg: &RunCfg) -> (PropMeta, ShardOut, Map<String, Value>) {
    let mut sc = sup_cfg(cfg, 20.0, 480.0);
    // budget per object of the document, not per byte
    sc.cpu_budget_per_byte_s = 100e-6;
    let seed = cfg.seed;
    let res = supervise(
        &sc,
        &|k, from, status: &Path, log: &Path| {
            vec!["worker".into(), "C13".into(), "--seed".into(), seed.to_string(), "--shard".into(), k.to_string(), "--from".into(), from.to_string(), "--status".into(), status.display().to_string(), "--log".into(), log.display().to_string()]
        },
        &|k, idx| vec!["worker".into(), "C13".into(), "--seed".into(), seed.to_string(), "--shard".into(), k.to_string(), "--one".into(), idx.to_string()],
        &|k, idx| describe(seed, k, idx),
    );
    let meta = PropMeta {
        level: "exploration",
        rule: "typed-chaos documents (3..32 objects playing catalog/pages/page/font/content/outline/action/name-tree/resources/image roles; every key the queries read is absent, plausible, or bound to a random kind / dangling / self / cyclic reference, at chaos rates 5..70%) and long-chain templates (Parent, Next, First, Kids, reference, name-tree Kids chains and cycles of length 10..200,000; absurd Count; 20,000-entry Contents; 100,000-page flat tree). An isolated worker calls every public read-only query on each document; the supervisor watches signals, panics, CPU time (5 s + 100 us per object) and allocations. distinct = distinct documents.".into(),
        assumptions: vec!["queries are called through the public API only; in-memory object nesting stays shallow (depth <= 4)".into()],
        exhaustive: false,
        min_distinct: 1000,
    };
    let mut extra = Map::new();
    extra.insert("run_seconds".into(), json!(sc.run_secs));
    (meta, res.out, extra)
}

pub fn replay(w: &Value) -> Vec<Finding> {
    // witnesses carry either the document or the recipe (seed/shard/index) of a large template
    let Some(case) = w.get("case") else { return vec![] };
    let case = if case.get("doc").is_some() {
        case.clone()
    } else {
        let g = |kk: &str| case.get(kk).and_then(|x| x.as_u64()).unwrap_or(0);
        let c = gen_case(g("seed"), g("shard"), g("index"));
        json!({"label":c.label,"doc":rdoc_to_json(&c.model)})
    };
    crate::props::c04::replay_with("C13", &json!({"case":case}))
}
