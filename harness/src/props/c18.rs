//! C18 — dates convert to PDF date strings and back.
//! Oracle: refimpl::civil computes the expected string from (unix seconds, offset minutes); every
//! backend's string must equal it and every backend must read it back to the same instant (and
//! offset, where the backend keeps one). Offsets -23:59..+23:59 are enumerated exhaustively.

use crate::prng::Rng;
use crate::refimpl::civil;
use crate::util::*;
use lopdf::Object;
use serde_json::{json, Map, Value};

pub const TAG: &str = "C18";

#[cfg(feature = "par")]
mod imp {
    use super::*;

    pub const MIN_SECS: i64 = -62_135_596_800; // 0001-01-01T00:00:00Z
    // jiff's Timestamp ends at 9999-12-30T22:00:00Z; stay two days inside so that every backend and every
    // offset can represent the instant
    pub const MAX_SECS: i64 = 253_402_207_200 - 172_800;

    fn obj_string(o: &Object) -> String {
        match o {
            Object::String(b, _) => String::from_utf8_lossy(b).to_string(),
            _ => "<not a string>".into(),
        }
    }

    /// produce with backend `a` (None = the expected string itself, i.e. "another producer")
    pub fn produce(a: &str, secs: i64, off_min: i32) -> Result<Object, String> {
        match a {
            "jiff-zoned" => {
                let off = jiff::tz::Offset::from_seconds(off_min * 60).map_err(|e| e.to_string())?;
                let z = jiff::Timestamp::from_second(secs).map_err(|e| e.to_string())?.to_zoned(jiff::tz::TimeZone::fixed(off));
                Ok(z.into())
            }
            "jiff-timestamp" => Ok(jiff::Timestamp::from_second(secs).map_err(|e| e.to_string())?.into()),
            "time" => {
                let off = time::UtcOffset::from_whole_seconds(off_min * 60).map_err(|e| e.to_string())?;
                Ok(time::OffsetDateTime::from_unix_timestamp(secs).map_err(|e| e.to_string())?.to_offset(off).into())
            }
            "chrono-utc" => {
                use chrono::TimeZone;
                Ok(chrono::Utc.timestamp_opt(secs, 0).single().ok_or("chrono range")?.into())
            }
            "chrono-local" => {
                use chrono::TimeZone;
                // the caller has arranged TZ and runs us on a fresh thread
                Ok(chrono::Local.timestamp_opt(secs, 0).single().ok_or("chrono range")?.into())
            }
            _ => Err("unknown backend".into()),
        }
    }

    /// parse with backend `b`: (unix seconds, offset seconds if the backend keeps one)
    pub fn consume(b: &str, o: &Object) -> Result<(i64, Option<i32>), String> {
        let dt = o.as_datetime().ok_or("as_datetime returned None")?;
        match b {
            "jiff" => {
                let z: jiff::Zoned = dt.try_into().map_err(|e: jiff::Error| e.to_string())?;
                Ok((z.timestamp().as_second(), Some(z.offset().seconds())))
            }
            "time" => {
                let t: time::OffsetDateTime = dt.try_into().map_err(|e: time::Error| e.to_string())?;
                Ok((t.unix_timestamp(), Some(t.offset().whole_seconds())))
            }
            "chrono" => {
                let c: chrono::DateTime<chrono::Local> = dt.try_into().map_err(|e: chrono::format::ParseError| e.to_string())?;
                Ok((c.timestamp(), None))
            }
            _ => Err("unknown backend".into()),
        }
    }

    pub const CONSUMERS: [&str; 3] = ["chrono", "jiff", "time"];

    pub fn check_one(a: &str, secs: i64, off_min: i32, out: &mut ShardOut) -> Vec<(String, String)> {
        let mut v = vec![];
        let utc_type = a == "jiff-timestamp" || a == "chrono-utc";
        let eff_off = if utc_type { 0 } else { off_min };
        let expect = if utc_type { civil::pdf_date_z(secs) } else { civil::pdf_date(secs, off_min) };
        let o = match crate::props::catch(|| produce(a, secs, off_min)) {
            Err(p) => return vec![(format!("{}/produce-panic", a), format!("Object::from panicked for secs={} offset={}min: {}", secs, off_min, p))],
            Ok(Err(e)) => return vec![(format!("{}/harness", a), format!("could not build the date value: {}", e))],
            Ok(Ok(o)) => o,
        };
        out.evaluations += 1;
        let got = obj_string(&o);
        if got != expect {
            v.push((format!("{}/format", a), format!("{} writes {:?} for instant {} at offset {:+} min; the PDF date is {:?}", a, got, secs, off_min, expect)));
            return v;
        }
        for b in CONSUMERS {
            out.evaluations += 1;
            match crate::props::catch(|| consume(b, &o)) {
                Err(p) => v.push((format!("{}->{}/parse-panic", a, b), format!("{} panicked reading {:?}: {}", b, got, p))),
                Ok(Err(e)) => v.push((format!("{}->{}/parse", a, b), format!("{} cannot read {:?} written by {}: {}", b, got, a, e))),
                Ok(Ok((s, off))) => {
                    if s != secs {
                        v.push((format!("{}->{}/instant", a, b), format!("{} reads {:?} as instant {}, it denotes {}", b, got, s, secs)));
                    } else if let Some(of) = off {
                        if of != eff_off * 60 {
                            v.push((format!("{}->{}/offset", a, b), format!("{} reads {:?} with offset {} s, it carries {} s", b, got, of, eff_off * 60)));
                        }
                    }
                }
            }
        }
        v
    }

    /// forms of ISO 32000-1 7.9.4 written by other producers
    pub fn spec_forms(out: &mut ShardOut) -> Vec<(String, String)> {
        let mut v = vec![];
        let forms: Vec<(&str, String, i64)> = vec![
            ("date-only", "D:20040229".into(), civil::unix_from_fields(2004, 2, 29, 0, 0, 0, 0)),
            ("minute-precision", "D:199812231952-08'00'".into(), civil::unix_from_fields(1998, 12, 23, 19, 52, 0, -480)),
            ("full", "D:19981223195200-08'00'".into(), civil::unix_from_fields(1998, 12, 23, 19, 52, 0, -480)),
            ("utc-z", "D:19981223195200Z".into(), civil::unix_from_fields(1998, 12, 23, 19, 52, 0, 0)),
            ("minute-precision-z", "D:199812231952Z".into(), civil::unix_from_fields(1998, 12, 23, 19, 52, 0, 0)),
            ("positive-offset", "D:20200101120000+05'30'".into(), civil::unix_from_fields(2020, 1, 1, 12, 0, 0, 330)),
        ];
        for (name, s, secs) in forms {
            v.extend(check_form(name, &s, secs, out));
        }
        v
    }

    /// one date string in one of the specification's forms, read by every backend
    pub fn check_form(name: &str, s: &str, secs: i64, out: &mut ShardOut) -> Vec<(String, String)> {
        let mut v = vec![];
        let o = Object::string_literal(s.to_string());
        for b in CONSUMERS {
            out.evaluations += 1;
            match crate::props::catch(|| consume(b, &o)) {
                Err(p) => v.push((format!("spec-form/{}/{}/panic", name, b), format!("{} panicked on {:?}: {}", b, s, p))),
                Ok(Err(e)) => v.push((format!("spec-form/{}/{}", name, b), format!("{} cannot parse the specification's {} form {:?}: {}", b, name, s, e))),
                Ok(Ok((t, _))) => {
                    if t != secs {
                        v.push((format!("spec-form/{}/{}/instant", name, b), format!("{} reads {:?} as {}, it denotes {}", b, s, t, secs)));
                    }
                }
            }
        }
        v
    }

    /// the forms of 7.9.4 for an arbitrary moment: (form name, string, instant it denotes)
    pub fn form_of(which: u64, secs: i64, off: i32) -> (&'static str, String, i64) {
        let (y, m, d, h, mi, _s) = civil::fields(secs, off);
        let sign = if off < 0 { '-' } else { '+' };
        let (oh, om) = (off.abs() / 60, off.abs() % 60);
        match which % 5 {
            0 => ("date-only", format!("D:{:04}{:02}{:02}", y, m, d), civil::unix_from_fields(y, m, d, 0, 0, 0, 0)),
            1 => ("minute-precision", format!("D:{:04}{:02}{:02}{:02}{:02}{}{:02}'{:02}'", y, m, d, h, mi, sign, oh, om), civil::unix_from_fields(y, m, d, h, mi, 0, off)),
            2 => ("full", civil::pdf_date(secs, off), secs),
            3 => ("utc-z", civil::pdf_date_z(secs), secs),
            _ => {
                let (y, m, d, h, mi, _) = civil::fields(secs, 0);
                ("minute-precision-z", format!("D:{:04}{:02}{:02}{:02}{:02}Z", y, m, d, h, mi), civil::unix_from_fields(y, m, d, h, mi, 0, 0))
            }
        }
    }

    pub fn posix_tz(off_min: i32) -> String {
        // POSIX sign is reversed: "<+0530>-05:30" is UTC+05:30
        let a = off_min.abs();
        let sign = if off_min < 0 { '-' } else { '+' };
        let rev = if off_min < 0 { '+' } else { '-' };
        format!("<{}{:02}{:02}>{}{:02}:{:02}", sign, a / 60, a % 60, rev, a / 60, a % 60)
    }

    pub fn sample_instant(r: &mut Rng) -> i64 {
        match r.below(6) {
            0 => {
                // year / century / leap boundaries
                let y = *r.pick(&[1i64, 2, 99, 100, 999, 1000, 1582, 1600, 1900, 1969, 1970, 2000, 2024, 2038, 2100, 9998, 9999]);
                let (m, d) = *r.pick(&[(1u32, 1u32), (12, 31), (2, 28), (3, 1), (6, 30)]);
                let (h, mi, s) = *r.pick(&[(0u32, 0u32, 0u32), (23, 59, 59), (12, 0, 0), (0, 0, 1)]);
                civil::unix_from_fields(y, m, d, h, mi, s, 0).clamp(MIN_SECS + 90_000, MAX_SECS - 90_000)
            }
            1 => {
                let y = 4 * (1 + r.below(2499) as i64);
                let leap = (y % 4 == 0 && y % 100 != 0) || y % 400 == 0;
                civil::unix_from_fields(y, 2, if leap { 29 } else { 28 }, r.below(24) as u32, r.below(60) as u32, r.below(60) as u32, 0).clamp(MIN_SECS + 90_000, MAX_SECS - 90_000)
            }
            2 => r.range(0, 2_000_000_000),
            _ => r.range(MIN_SECS + 90_000, MAX_SECS - 90_000),
        }
    }
}

#[cfg(feature = "par")]
pub fn run(cfg: &RunCfg) -> (PropMeta, ShardOut, Map<String, Value>) {
    use imp::*;
    let mut out = ShardOut::default();
    let fixed_instant: i64 = civil::unix_from_fields(2001, 9, 9, 1, 46, 40, 0);
    let push = |out: &mut ShardOut, vs: Vec<(String, String)>, w: Value| {
        for (sig, what) in vs {
            out.finding(Finding { signature: format!("C18/{}", sig), what, witness: w.clone() });
        }
    };
    // ---- chrono Local: the offset is driven through TZ; chrono caches the zone per thread, so
    // every offset is evaluated on a fresh thread. Nothing else runs while TZ is being changed.
    let chrono_offsets: Vec<i32> = if cfg.quick() { (-1439..=1439).step_by(1).collect() } else { (-1439..=1439).collect() };
    let saved_tz = std::env::var("TZ").ok();
    for off in &chrono_offsets {
        std::env::set_var("TZ", posix_tz(*off));
        let secs_list = vec![fixed_instant, civil::unix_from_fields(1, 1, 2, 0, 0, 0, 0) + 86_400, civil::unix_from_fields(9999, 12, 27, 23, 59, 59, 0)];
        let off = *off;
        let res = std::thread::spawn(move || {
            let mut o = ShardOut::default();
            let mut v = vec![];
            for s in secs_list {
                v.extend(check_one("chrono-local", s, off, &mut o));
            }
            (o.evaluations, v)
        })
        .join();
        match res {
            Ok((n, v)) => {
                out.evaluations += n;
                out.add("chrono_local_offsets_checked", 1);
                out.digests.insert(crate::prng::fnv(&format!("chrono-local:{}", off)));
                push(&mut out, v, json!({"kind":"date","backend":"chrono-local","secs":fixed_instant,"offset_min":off}));
            }
            Err(_) => out.inconclusive.push("chrono-local worker thread panicked".into()),
        }
    }
    match saved_tz {
        Some(t) => std::env::set_var("TZ", t),
        None => std::env::remove_var("TZ"),
    }
    // ---- jiff / time: every offset at the fixed instant (exhaustive), then sampled instants
    for off in -1439..=1439 {
        for a in ["jiff-zoned", "time"] {
            let v = check_one(a, fixed_instant, off, &mut out);
            out.digests.insert(crate::prng::fnv(&format!("{}:{}", a, off)));
            push(&mut out, v, json!({"kind":"date","backend":a,"secs":fixed_instant,"offset_min":off}));
        }
        out.add("fixed_offsets_checked", 1);
    }
    let v = spec_forms(&mut out);
    push(&mut out, v, json!({"kind":"spec-forms"}));
    let n = cfg.n(60_000, 12_000_000);
    let per = (n as usize + cfg.threads - 1) / cfg.threads;
    let seed = cfg.seed;
    let sampled = shards(cfg.threads, |shard| {
        let mut o = ShardOut::default();
        for i in 0..per {
            let mut r = Rng::for_case(seed, TAG, shard as u64, i as u64);
            let secs = sample_instant(&mut r);
            let off = match r.below(5) {
                0 => 0,
                1 => *r.pick(&[-1439, 1439, -720, 840, 330, -210, 345, 1, -1, 59, -59, 60, -60]),
                _ => r.range(-1439, 1439) as i32,
            };
            let a = *r.pick(&["jiff-zoned", "time", "jiff-timestamp", "chrono-utc"]);
            // keep the local year inside 0001..9999
            let (y, ..) = civil::fields(secs, off);
            if !(1..=9999).contains(&y) {
                continue;
            }
            o.digests.insert(crate::prng::fnv(&format!("{}:{}:{}", a, secs, off)));
            o.count(&format!("sampled:{}", a));
            for (sig, what) in check_one(a, secs, off, &mut o) {
                o.finding(Finding { signature: format!("C18/{}", sig), what, witness: json!({"kind":"date","backend":a,"secs":secs,"offset_min":off}) });
            }
            // every fourth sample is also written in one of the forms other producers use and read by every backend
            if i % 4 == 1 && (1..=9998).contains(&y) {
                let (name, text, denotes) = form_of(r.below(5), secs, off);
                o.count(&format!("sampled_form:{}", name));
                for (sig, what) in check_form(name, &text, denotes, &mut o) {
                    o.finding(Finding { signature: format!("C18/{}", sig), what, witness: json!({"kind":"spec-form-sample","name":name,"string":text,"secs":denotes}) });
                }
            }
            if i == 0 && shard < 2 {
                o.sample(json!({"backend":a,"unix_seconds":secs,"offset_minutes":off,"expected":if a.ends_with("utc") || a.ends_with("timestamp") { civil::pdf_date_z(secs) } else { civil::pdf_date(secs, off) }}));
            }
        }
        o
    });
    out.merge(sampled);
    let meta = PropMeta {
        level: "exploration",
        rule: "for backends chrono (DateTime<Local> with the offset driven through POSIX TZ strings on fresh threads, DateTime<Utc>), jiff (Zoned with fixed offsets, Timestamp) and time (OffsetDateTime): Object::from(value) must equal the reference PDF date string D:YYYYMMDDHHmmSS+HH'mm' (or ...Z for UTC types) computed by independent civil-date arithmetic, and as_datetime().try_into() with each of the three backends must give the same instant and, for jiff/time, the same offset. All 2,879 offsets -23:59..+23:59 are enumerated at a fixed instant (and two near the ends of the year range) for every offset-carrying backend; instants are sampled over years 0001..9999 incl. leap days and boundaries; the specification's date-only, minute-precision and Z forms are parsed with every backend, for fixed examples and for every fourth sampled moment. distinct = distinct (backend, instant, offset).".into(),
        assumptions: vec!["second precision; local year stays within 0001..9999".into(), "chrono's DateTime<Local> result is converted to the local zone, so only the instant is compared for chrono as consumer".into()],
        exhaustive: false,
        min_distinct: 2000,
    };
    let mut extra = Map::new();
    extra.insert("offset_sweep_exhaustive".into(), json!(true));
    (meta, out, extra)
}

#[cfg(not(feature = "par"))]
pub fn run(_cfg: &RunCfg) -> (PropMeta, ShardOut, Map<String, Value>) {
    let mut out = ShardOut::default();
    out.inconclusive.push("C18 needs the default-features build (date-time backends)".into());
    (PropMeta { level: "exploration", rule: String::new(), assumptions: vec![], exhaustive: false, min_distinct: 2 }, out, Map::new())
}

#[cfg(feature = "par")]
pub fn replay(w: &Value) -> Vec<Finding> {
    let mut o = ShardOut::default();
    let vs = match w.get("kind").and_then(|x| x.as_str()) {
        Some("spec-forms") => imp::spec_forms(&mut o),
        Some("spec-form-sample") => {
            let name = w["name"].as_str().unwrap_or("full").to_string();
            let name: &str = ["date-only", "minute-precision", "full", "utc-z", "minute-precision-z"].iter().find(|x| **x == name).cloned().unwrap_or("full");
            imp::check_form(name, w["string"].as_str().unwrap_or(""), w["secs"].as_i64().unwrap_or(0), &mut o)
        }
        Some("date") => {
            let a = w["backend"].as_str().unwrap_or("jiff-zoned").to_string();
            let secs = w["secs"].as_i64().unwrap_or(0);
            let off = w["offset_min"].as_i64().unwrap_or(0) as i32;
            if a == "chrono-local" {
                std::env::set_var("TZ", imp::posix_tz(off));
                std::thread::spawn(move || {
                    let mut o2 = ShardOut::default();
                    imp::check_one("chrono-local", secs, off, &mut o2)
                })
                .join()
                .unwrap_or_default()
            } else {
                let a: &str = ["jiff-zoned", "time", "jiff-timestamp", "chrono-utc"].iter().find(|x| **x == a).cloned().unwrap_or("jiff-zoned");
                imp::check_one(a, secs, off, &mut o)
            }
        }
        _ => vec![],
    };
    vs.into_iter().map(|(s, what)| Finding { signature: format!("C18/{}", s), what, witness: w.clone() }).collect()
}

#[cfg(not(feature = "par"))]
pub fn replay(_w: &Value) -> Vec<Finding> {
    vec![]
}

#[allow(dead_code)]
fn _u(_: &Rng, _: &Object) {}
