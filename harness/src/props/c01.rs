//! C01 — save then load returns the same document.
//! Events: (model document, bytes from Document::save_to, Document::load_mem result), two cycles,
//! both cross-reference formats. Oracle: bridge::diff_docs on the model side.

use crate::bridge::*;
use crate::gen;
use crate::prng::Rng;
use crate::refimpl::robj::{RDoc, RObj};
use crate::util::*;
use lopdf::Document;
use serde_json::{json, Map, Value};
use std::collections::BTreeMap;

pub const TAG: &str = "C01";

fn extra_ok(_id: &(u32, u16), o: &RObj) -> bool {
    // the writer's own cross-reference stream, which the loader keeps as an object
    is_xref_stream_obj(o)
}

/// One observation: save, load, compare; repeat on the loaded document.
/// Returns the list of differences (empty = held) or an error description.
pub fn roundtrip_diffs(d: &RDoc, xref_stream: bool) -> Vec<((u32, u16), String)> {
    let mut doc = to_lo_doc(d, xref_stream);
    let mut cur_expected = d.clone();
    for cycle in 0..2 {
        let mut bytes = Vec::new();
        if let Err(e) = doc.save_to(&mut bytes) {
            return vec![((0, 0), format!("cycle {}: save_to failed: {}", cycle, e))];
        }
        let loaded = match Document::load_mem(&bytes) {
            Ok(l) => l,
            Err(e) => return vec![((0, 0), format!("cycle {}: load_mem failed: {:?}", cycle, e))],
        };
        let got = from_lo_doc(&loaded);
        let diffs = diff_docs(&cur_expected, &got, true, &extra_ok);
        if !diffs.is_empty() {
            return diffs.into_iter().map(|(id, s)| (id, format!("cycle {}: {}", cycle, s))).collect();
        }
        // Length bookkeeping of loaded streams
        for (id, o) in &loaded.objects {
            if let lopdf::Object::Stream(s) = o {
                let l = s.dict.get(b"Length").and_then(|l| l.as_i64()).ok();
                if l != Some(s.content.len() as i64) {
                    return vec![(*id, format!("cycle {}: stream Length {:?} != content length {}", cycle, l, s.content.len()))];
                }
            }
        }
        // second cycle starts from what was loaded (minus the writer's xref stream objects,
        // which the writer regenerates)
        cur_expected = got;
        cur_expected.objects.retain(|_, o| !is_xref_stream_obj(o));
        cur_expected.trailer.retain(|(k, _)| !XREF_BOOKKEEPING.contains(&k.as_slice()));
        doc = loaded;
    }
    vec![]
}

fn single(o: &RObj) -> RDoc {
    let mut d = RDoc::new();
    let obj = match o {
        // a direct stream cannot be written; wrap other kinds as they are
        _ => o.clone(),
    };
    d.objects.insert((1, 0), obj);
    d
}

fn fails_single(o: &RObj) -> bool {
    !roundtrip_diffs(&single(o), false).is_empty()
}

/// Minimisation is costly (hundreds of save/load round trips per object). On a tree that fails thousands of cases
/// only the first findings of a run are minimised; the rest are reported with the object as generated.
static MINIMISATIONS_LEFT: std::sync::atomic::AtomicIsize = std::sync::atomic::AtomicIsize::new(64);

/// smallest failing sub-object (object-level delta debugging)
pub fn minimise_obj(o: &RObj) -> RObj {
    if MINIMISATIONS_LEFT.fetch_sub(1, std::sync::atomic::Ordering::Relaxed) <= 0 {
        return o.clone();
    }
    let mut cur = o.clone();
    'outer: loop {
        let children: Vec<RObj> = match &cur {
            RObj::Array(a) => a.clone(),
            RObj::Dict(d) | RObj::Stream(d, _) => {
                let mut v: Vec<RObj> = d.iter().map(|(_, v)| v.clone()).collect();
                v.extend(d.iter().map(|(k, _)| RObj::Name(k.clone())));
                v.extend(d.iter().map(|(k, _)| RObj::Dict(vec![(k.clone(), RObj::Null)])));
                v
            }
            _ => vec![],
        };
        for c in children {
            // (a candidate has to be smaller than what it replaces: `<</K null>>` is its own child)
            if robj_eq(&c, &cur) {
                continue;
            }
            if fails_single(&c) {
                cur = c;
                continue 'outer;
            }
        }
        // shrink containers by removing members
        match &cur {
            RObj::Array(a) if a.len() > 1 => {
                for i in 0..a.len() {
                    let mut b = a.clone();
                    b.remove(i);
                    if fails_single(&RObj::Array(b.clone())) {
                        cur = RObj::Array(b);
                        continue 'outer;
                    }
                }
            }
            RObj::Dict(d) if d.len() > 1 => {
                for i in 0..d.len() {
                    let mut b = d.clone();
                    b.remove(i);
                    if fails_single(&RObj::Dict(b.clone())) {
                        cur = RObj::Dict(b);
                        continue 'outer;
                    }
                }
            }
            _ => {}
        }
        break;
    }
    // byte-level shrinking of names / strings / stream bodies
    let shrink = |bytes: &Vec<u8>, rebuild: &dyn Fn(Vec<u8>) -> RObj| -> Vec<u8> {
        let mut b = bytes.clone();
        let mut budget = 4000;
        let mut changed = true;
        while changed && budget > 0 {
            changed = false;
            // remove chunks, then single bytes
            let mut chunk = (b.len() / 2).max(1);
            while chunk >= 1 && budget > 0 {
                let mut i = 0;
                while i + chunk <= b.len() && budget > 0 {
                    let mut c = b.clone();
                    c.drain(i..i + chunk);
                    budget -= 1;
                    if fails_single(&rebuild(c.clone())) {
                        b = c;
                        changed = true;
                    } else {
                        i += chunk;
                    }
                }
                if chunk == 1 {
                    break;
                }
                chunk /= 2;
            }
        }
        b
    };
    match cur.clone() {
        RObj::Name(n) => RObj::Name(shrink(&n, &|b| RObj::Name(b))),
        RObj::Str(s, h) => RObj::Str(shrink(&s, &move |b| RObj::Str(b, h)), h),
        RObj::Stream(d, c) => {
            let dd = d.clone();
            RObj::Stream(d, shrink(&c, &move |b| RObj::Stream(dd.clone(), b)))
        }
        RObj::Dict(d) if d.len() == 1 => {
            let v = d[0].1.clone();
            RObj::Dict(vec![(shrink(&d[0].0, &move |b| RObj::Dict(vec![(b, v.clone())])), d[0].1.clone())])
        }
        o => o,
    }
}

fn max_paren_depth(s: &[u8]) -> usize {
    let (mut d, mut m) = (0usize, 0usize);
    for &c in s {
        if c == b'(' {
            d += 1;
            m = m.max(d);
        } else if c == b')' && d > 0 {
            d -= 1;
        }
    }
    m
}

/// signature of a minimised witness: names the mechanism, not the input
pub fn classify(o: &RObj) -> String {
    match o {
        RObj::Real(r) => {
            let txt = format!("{}", r);
            if !txt.contains('.') && (r.abs() as f64) >= 9.2e18 {
                "real/integral-beyond-i64".into()
            } else if !txt.contains('.') {
                "real/integral".into()
            } else {
                "real/fractional".into()
            }
        }
        RObj::Int(_) => "int".into(),
        RObj::Str(s, hex) => {
            if !*hex && max_paren_depth(s) > 100 {
                "string-literal/balanced-paren-depth>100".into()
            } else if s.len() <= 3 {
                format!("string-{}/bytes:{}", if *hex { "hex" } else { "literal" }, crate::util::hex(s))
            } else {
                format!("string-{}/len{}", if *hex { "hex" } else { "literal" }, s.len().min(9))
            }
        }
        RObj::Name(n) => {
            if n.len() <= 3 {
                format!("name/bytes:{}", crate::util::hex(n))
            } else {
                "name/long".into()
            }
        }
        RObj::Dict(d) if d.len() == 1 => format!("dict-key:{}+{}", if d[0].0.len() <= 3 { crate::util::hex(&d[0].0) } else { "long".into() }, d[0].1.kind()),
        RObj::Stream(d, c) => format!("stream/dict{}/body{}", d.len().min(3), c.len().min(9)),
        o => format!("{}", o.kind()),
    }
}

pub fn finding_for(d: &RDoc, xref_stream: bool, diffs: &[((u32, u16), String)]) -> Finding {
    let (id, msg) = &diffs[0];
    let (sig, min_json) = if let Some(o) = d.objects.get(id) {
        if fails_single(o) {
            let m = minimise_obj(o);
            (format!("C01/object/{}", classify(&m)), robj_to_json(&m))
        } else {
            // depends on context (neighbouring objects, numbering, header); keep the document
            (format!("C01/context/{}", o.kind()), Value::Null)
        }
    } else if *id == (0, 65535) {
        let t = RObj::Dict(d.trailer.clone());
        if fails_single(&t) {
            let m = minimise_obj(&t);
            (format!("C01/object/{}", classify(&m)), robj_to_json(&m))
        } else {
            ("C01/trailer".to_string(), Value::Null)
        }
    } else if msg.contains("version") || msg.contains("binary_mark") {
        ("C01/header".to_string(), Value::Null)
    } else if msg.contains("load_mem failed") || msg.contains("save_to failed") {
        // whole-document failure: look for a culprit object
        let mut s = ("C01/document".to_string(), Value::Null);
        let t = RObj::Dict(d.trailer.clone());
        for o in d.objects.values().chain(std::iter::once(&t)) {
            if fails_single(o) {
                let m = minimise_obj(o);
                s = (format!("C01/object/{}", classify(&m)), robj_to_json(&m));
                break;
            }
        }
        s
    } else {
        ("C01/unexpected-object".to_string(), Value::Null)
    };
    Finding {
        signature: sig,
        what: format!("save→load changed the document: {}", msg),
        witness: json!({"kind":"rdoc","xref_stream":xref_stream,"doc":rdoc_to_json(d),"minimised_object":min_json,"first_difference":msg}),
    }
}

pub fn check_doc(d: &RDoc, xref_stream: bool) -> Option<Finding> {
    let diffs = roundtrip_diffs(d, xref_stream);
    if diffs.is_empty() {
        None
    } else {
        Some(finding_for(d, xref_stream, &diffs))
    }
}

fn observe(d: &RDoc, out: &mut ShardOut, bytes_seen: &mut [[bool; 256]; 4], adj: &mut [[u64; 10]; 10]) {
    for o in d.objects.values() {
        o.walk(&mut |x| match x {
            RObj::Name(n) => n.iter().for_each(|&b| bytes_seen[0][b as usize] = true),
            RObj::Str(s, _) => s.iter().for_each(|&b| bytes_seen[1][b as usize] = true),
            RObj::Dict(dd) => {
                dd.iter().for_each(|(k, _)| k.iter().for_each(|&b| bytes_seen[2][b as usize] = true));
                for w in dd.windows(2) {
                    adj[w[0].1.kind_index()][w[1].1.kind_index()] += 1;
                }
            }
            RObj::Stream(_, c) => c.iter().for_each(|&b| bytes_seen[3][b as usize] = true),
            RObj::Array(a) => {
                for w in a.windows(2) {
                    adj[w[0].kind_index()][w[1].kind_index()] += 1;
                }
            }
            RObj::Real(r) => {
                let k = if r.fract() != 0.0 {
                    "reals_fractional"
                } else if r.abs() >= 9.2e18 {
                    "reals_integral_beyond_i64"
                } else {
                    "reals_integral"
                };
                out.count(k);
            }
            _ => {}
        });
    }
}

pub fn run(cfg: &RunCfg) -> (PropMeta, ShardOut, Map<String, Value>) {
    let n_docs = cfg.n(3000, 120_000);
    let per = (n_docs as usize + cfg.threads - 1) / cfg.threads;
    let out = shards(cfg.threads, |shard| {
        let mut out = ShardOut::default();
        let mut seen = [[false; 256]; 4];
        let mut adj = [[0u64; 10]; 10];
        for i in 0..per {
            let mut r = Rng::for_case(cfg.seed, TAG, shard as u64, i as u64);
            let dcfg = gen::DocCfg { max_objects: 40, max_depth: 1 + r.usize_below(6), generations: true, sparse: true };
            let mut d = gen::rdoc(&mut r, &dcfg);
            // one document in eight is tiny and ends with an object whose bytes look like the end of a PDF file
            // (an embedded file, a quoted trailer): the real end-of-file structure then shares the last few
            // hundred bytes of the output with look-alikes of its own keywords
            if i % 8 == 5 {
                let tiny = gen::DocCfg { max_objects: 1 + r.usize_below(3), max_depth: 2, generations: false, sparse: false };
                d = gen::rdoc(&mut r, &tiny);
                let snippet: &[u8] = *r.pick(&[
                    &b"startxref\n9\n%%EOF\n"[..],
                    b"trailer\n<</Size 1/Root 1 0 R>>\nstartxref\n0\n%%EOF",
                    b"%%EOF",
                    b"\nxref\n0 1\n0000000000 65535 f \ntrailer\n<< >>\nstartxref\n18\n%%EOF\n",
                    b"endstream\nendobj\nstartxref\n1\n%%EOF\n",
                ]);
                let id = (d.objects.keys().map(|k| k.0).max().unwrap_or(0) + 1, 0);
                let o = match r.below(3) {
                    0 => RObj::Stream(vec![], snippet.to_vec()),
                    1 => RObj::Str(snippet.to_vec(), false),
                    _ => RObj::Array(vec![RObj::Str(snippet.to_vec(), true), RObj::Str(snippet.to_vec(), false)]),
                };
                d.objects.insert(id, o);
                out.count("documents_ending_with_a_file_tail_lookalike");
            }
            let nontrivial = !d.objects.is_empty();
            observe(&d, &mut out, &mut seen, &mut adj);
            for xs in [false, true] {
                out.evaluations += 1;
                if let Some(f) = check_doc(&d, xs) {
                    out.finding(f);
                }
            }
            if nontrivial {
                out.digests.insert(gen::digest_rdoc(&d));
            }
            if i == 0 {
                out.sample(json!({"shard":shard,"index":i,"doc":d.show().chars().take(600).collect::<String>()}));
            }
        }
        // special cases: deep balanced parentheses in strings, long names
        if shard == 0 {
            for depth in [1usize, 50, 99, 100, 101, 150] {
                let mut s = vec![b'('; depth];
                s.extend(vec![b')'; depth]);
                let mut d = RDoc::new();
                d.objects.insert((1, 0), RObj::Str(s, false));
                out.evaluations += 1;
                out.digests.insert(gen::digest_rdoc(&d));
                if let Some(f) = check_doc(&d, false) {
                    out.finding(f);
                }
            }
        }
        // exhaustive byte-pair sweep through the document writer/reader: this shard's share
        // of the 256 first bytes; every pair as name, literal string, hex string, dict key
        let mut a = shard;
        while a < 256 {
            let mut d = RDoc::new();
            let mut n = 1u32;
            for b in 0..256usize {
                let pair = vec![a as u8, b as u8];
                d.objects.insert((n, 0), RObj::Name(pair.clone()));
                d.objects.insert((n + 1, 0), RObj::Str(pair.clone(), false));
                d.objects.insert((n + 2, 0), RObj::Str(pair.clone(), true));
                d.objects.insert((n + 3, 0), RObj::Dict(vec![(pair.clone(), RObj::Int(b as i64)), (b"Z".to_vec(), RObj::Name(pair))]));
                n += 4;
            }
            out.evaluations += 1;
            out.add("byte_pairs_swept", 256);
            out.digests.insert(gen::digest_rdoc(&d));
            if let Some(f) = check_doc(&d, a % 2 == 1) {
                out.finding(f);
            }
            a += cfg.threads;
        }
        let mut cov: BTreeMap<&str, u64> = BTreeMap::new();
        for (k, name) in ["name", "string", "key", "stream"].iter().enumerate() {
            cov.insert(name, seen[k].iter().filter(|x| **x).count() as u64);
        }
        for (k, v) in cov {
            out.max(&format!("max_byte_values_seen_in_{}", k), v);
        }
        out.max("max_kind_adjacencies_seen", adj.iter().flatten().filter(|x| **x > 0).count() as u64);
        out
    });
    let meta = PropMeta {
        level: "exploration",
        rule: "seeded random abstract documents (all ten kinds, nesting<=6, sparse numbers, generations, hostile bytes, every finite-real class) -> lopdf Document via public fields -> save_to -> load_mem, twice, x {xref table, xref stream}; plus all 65,536 byte pairs as name / literal string / hex string / dictionary key. A case is non-trivial when the document has at least one object; distinct = distinct canonical printing of the abstract document.".into(),
        assumptions: vec![
            "streams only as top-level objects; one generation per object number; max_id >= every object number".into(),
            "top-level dictionaries/streams typed ObjStm/XRef/Linearized and trailer keys Encrypt/Prev/XRefStm are outside the domain (the writer/loader treat them as file structure)".into(),
            "string Literal/Hexadecimal format and dictionary key order are spelling, not content".into(),
            "this binary was built with lopdf default features iff the evidence says features=par; the driver runs both builds".into(),
        ],
        exhaustive: false,
        min_distinct: 50,
    };
    let mut extra = Map::new();
    extra.insert("byte_pair_sweep_exhaustive".into(), json!(true));
    extra.insert("features".into(), json!(if cfg!(feature = "par") { "par(default features)" } else { "seq(no default features)" }));
    (meta, out, extra)
}

pub fn replay(w: &Value) -> Vec<Finding> {
    let Some(d) = w.get("doc").and_then(rdoc_from_json) else { return vec![] };
    let xs = w.get("xref_stream").and_then(|x| x.as_bool()).unwrap_or(false);
    check_doc(&d, xs).into_iter().collect()
}
