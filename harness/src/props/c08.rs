//! C08 — loading is deterministic under every thread schedule.
//! Stage 1 (deciding): through hook H1 every permutation of the per-container blocks appended by
//! the parallel phase is applied (k! orders for k <= 6 object streams); the canonical digest of
//! the loaded document must not depend on it and must equal the sequential build's digest.
//! Stage 2: repeated loads inside rayon pools of 1,2,3,4,8,16 threads with seeded delays at the
//! hook; digests must agree; the distinct completion orders actually observed are counted.

use crate::bridge::*;
use crate::prng::Rng;
use crate::props::c07::gen_history;
use crate::refimpl::refwriter::*;
use crate::refimpl::robj::{RDoc, RObj};
use crate::util::*;
use lopdf::Document;
use serde_json::{json, Map, Value};
use std::collections::{BTreeMap, BTreeSet, HashSet};

pub const TAG: &str = "C08";

pub fn digest(doc: &Document) -> u64 {
    let m = from_lo_doc(doc);
    crate::prng::fnv_bytes(format!("{}|max_id={}", m.show(), doc.max_id).as_bytes())
}

/// deterministic file #i of the workload: (bytes, number of object streams)
pub fn gen_file(seed: u64, i: u64, want_many: bool) -> (Vec<u8>, usize) {
    let mut tries = 0u64;
    loop {
        let mut r = Rng::for_case(seed, TAG, tries, i);
        tries += 1;
        let mut h = gen_history(&mut r, if want_many { 60 } else { 14 }, 4);
        // every fifth file is a history in which each of three updates rewrites (almost) all objects, so that the object
        // streams together hold more objects than the cross-reference table has rows - as in documents that were
        // re-saved incrementally many times
        if i % 5 == 3 {
            // densely numbered base revision (the table then has about as many rows as there are objects)
            let n = if want_many { 40 + r.usize_below(20) } else { 6 + r.usize_below(8) } as u32;
            let mut objects: BTreeMap<(u32, u16), RObj> = BTreeMap::new();
            objects.insert((1, 0), RObj::Dict(vec![(b"Type".to_vec(), RObj::Name(b"Catalog".to_vec()))]));
            for num in 2..=n {
                let o = match r.below(3) {
                    0 => RObj::Int(num as i64),
                    1 => RObj::Str(format!("object {}", num).into_bytes(), false),
                    _ => RObj::Dict(vec![(b"N".to_vec(), RObj::Int(num as i64)), (b"Next".to_vec(), RObj::Ref(1 + num % n, 0))]),
                };
                objects.insert((num, 0), o);
            }
            h.revisions[0] = Revision { objects, trailer: vec![(b"Root".to_vec(), RObj::Ref(1, 0))] };
            let base = h.revisions[0].clone();
            h.revisions.truncate(1);
            for k in 1..=3i64 {
                let mut rev = Revision { objects: BTreeMap::new(), trailer: base.trailer.clone() };
                for (id, o) in &base.objects {
                    if id.1 == 0 && !matches!(o, RObj::Stream(..)) && !r.chance(1, 8) {
                        rev.objects.insert(*id, RObj::Array(vec![o.clone(), RObj::Int(k)]));
                    }
                }
                h.revisions.push(rev);
            }
        }
        let mut dis = BTreeSet::new();
        for f in ["str-raw-cr-eol", "str-raw-crlf-eol"] {
            dis.insert(f.to_string());
        }
        // every third file also carries "ghost" copies: an object number present in several
        // object streams that no cross-reference entry names (not legal PDF, but bytes a loader
        // can meet; determinism is claimed for all bytes)
        let wseed = r.next_u64();
        let w = {
            let mut ch = Choices::new(wseed);
            ch.disabled = dis.clone();
            let mut rw = RefWriter::new(&mut ch);
            rw.ghost_objects = i % 3 == 2;
            rw.objstm_lengths_indirect = i % 5 == 3;
            rw.write(&h, XrefStyle::Stream, true)
        };
        let k = w.objstm_ids.len();
        if (want_many && k >= 8) || (!want_many && (2..=6).contains(&k)) || tries > 200 {
            return (w.bytes, k);
        }
    }
}

/// file #i of the wide-container stage: 256..1340 small objects, all of them in object streams of up to `limit` objects
pub fn gen_wide_file(seed: u64, i: u64) -> (Vec<u8>, usize) {
    let mut r = Rng::for_case(seed, "C08-wide", 0, i);
    let n = *r.pick(&[256u32, 257, 300, 301, 511, 512, 513, 777, 1000, 1001, 1300]) + if r.chance(1, 3) { r.below(40) as u32 } else { 0 };
    let mut objects: BTreeMap<(u32, u16), RObj> = BTreeMap::new();
    objects.insert((1, 0), RObj::Dict(vec![(b"Type".to_vec(), RObj::Name(b"Catalog".to_vec()))]));
    for num in 2..=n {
        let o = match r.below(4) {
            0 => RObj::Int(num as i64),
            1 => RObj::Str(format!("object {}", num).into_bytes(), false),
            2 => RObj::Array(vec![RObj::Ref(1 + num % n, 0), RObj::Name(format!("N{}", num).into_bytes())]),
            _ => RObj::Dict(vec![(b"N".to_vec(), RObj::Int(num as i64)), (b"Next".to_vec(), RObj::Ref(1 + num % n, 0))]),
        };
        objects.insert((num, 0), o);
    }
    let mut h = gen_history(&mut r, 3, 1);
    h.revisions.truncate(1);
    h.revisions[0] = Revision { objects, trailer: vec![(b"Root".to_vec(), RObj::Ref(1, 0))] };
    let mut ch = Choices::new(r.next_u64());
    for f in ["str-raw-cr-eol", "str-raw-crlf-eol"] {
        ch.disabled.insert(f.to_string());
    }
    let limit = if r.bool() { n as usize + 10 } else { 256 + r.usize_below(600) };
    let mut rw = RefWriter::new(&mut ch);
    rw.pack_limit = limit;
    let w = rw.write(&h, XrefStyle::Stream, true);
    (w.bytes, (n as usize).min(limit))
}

/// the filter of the filtered-load stage: drops the odd-numbered objects, keeps the rest unchanged
pub fn keep_even_numbers(id: (u32, u16), o: &mut lopdf::Object) -> Option<((u32, u16), lopdf::Object)> {
    if id.0 % 2 == 1 && id.0 > 4 {
        None
    } else {
        Some((id, o.clone()))
    }
}

/// child process entry: `vh c08-filtered <file> <threads> <reps>` prints one digest per completed load
pub fn filtered_child_main(args: &[String]) {
    let path = std::path::PathBuf::from(&args[0]);
    let threads: usize = args[1].parse().unwrap_or(3);
    let reps: u64 = args[2].parse().unwrap_or(10);
    #[cfg(feature = "par")]
    {
        use std::io::Write;
        let pool = rayon::ThreadPoolBuilder::new().num_threads(threads).build().expect("pool");
        let so = std::io::stdout();
        for _ in 0..reps {
            let d = pool.install(|| Document::load_filtered(&path, keep_even_numbers).map(|d| digest(&d)).unwrap_or(0));
            let mut l = so.lock();
            let _ = writeln!(l, "{:x}", d);
            let _ = l.flush();
        }
    }
    #[cfg(not(feature = "par"))]
    {
        let _ = threads;
        for _ in 0..reps {
            println!("{:x}", Document::load_filtered(&path, keep_even_numbers).map(|d| digest(&d)).unwrap_or(0));
        }
    }
}

pub enum FilteredOutcome {
    Digests(Vec<u64>),
    /// number of loads completed before the process stopped making progress
    Blocked(usize),
    Inconclusive(String),
}

fn cpu_secs(pid: u32) -> Option<f64> {
    let s = std::fs::read_to_string(format!("/proc/{}/stat", pid)).ok()?;
    let rest = &s[s.rfind(')')? + 2..];
    let f: Vec<&str> = rest.split(' ').collect();
    let ut: f64 = f.get(11)?.parse().ok()?;
    let st: f64 = f.get(12)?.parse().ok()?;
    Some((ut + st) / 100.0)
}

pub fn filtered_child(path: &std::path::Path, threads: usize, reps: u64) -> FilteredOutcome {
    use std::io::Read;
    let exe = match std::env::current_exe() {
        Ok(e) => e,
        Err(e) => return FilteredOutcome::Inconclusive(format!("current_exe: {}", e)),
    };
    let mut child = match std::process::Command::new(exe).arg("c08-filtered").arg(path).arg(threads.to_string()).arg(reps.to_string()).stdout(std::process::Stdio::piped()).stderr(std::process::Stdio::null()).spawn() {
        Ok(c) => c,
        Err(e) => return FilteredOutcome::Inconclusive(format!("spawn: {}", e)),
    };
    let pid = child.id();
    // stdout is drained by a thread so that the child never blocks on a full pipe
    let mut so = child.stdout.take().expect("piped");
    let reader = std::thread::spawn(move || {
        let mut s = String::new();
        let _ = so.read_to_string(&mut s);
        s
    });
    let start = std::time::Instant::now();
    let mut last_cpu = cpu_secs(pid).unwrap_or(0.0);
    let mut last_progress = std::time::Instant::now();
    loop {
        match child.try_wait() {
            Ok(Some(st)) => {
                let text = reader.join().unwrap_or_default();
                let ds: Vec<u64> = text.lines().filter_map(|l| u64::from_str_radix(l.trim(), 16).ok()).collect();
                if !st.success() || ds.len() as u64 != reps {
                    return FilteredOutcome::Inconclusive(format!("child ended with {:?} after {} of {} loads", st.code(), ds.len(), reps));
                }
                return FilteredOutcome::Digests(ds);
            }
            Ok(None) => {}
            Err(e) => return FilteredOutcome::Inconclusive(format!("wait: {}", e)),
        }
        std::thread::sleep(std::time::Duration::from_millis(100));
        let cpu = cpu_secs(pid).unwrap_or(last_cpu);
        if cpu > last_cpu + 0.02 {
            last_cpu = cpu;
            last_progress = std::time::Instant::now();
        }
        let stalled = last_progress.elapsed().as_secs_f64();
        if stalled > 20.0 {
            // no CPU consumed for 20 s although loads remain: every thread is waiting
            let _ = child.kill();
            let _ = child.wait();
            let text = reader.join().unwrap_or_default();
            return FilteredOutcome::Blocked(text.lines().count());
        }
        if start.elapsed().as_secs_f64() > 600.0 {
            let _ = child.kill();
            let _ = child.wait();
            let _ = reader.join();
            return FilteredOutcome::Inconclusive("child still busy after 600 s".into());
        }
    }
}

/// file #i of the encrypted-file stage (None when the library refuses to encrypt it)
pub fn gen_encrypted_file(seed: u64, i: u64) -> Option<Vec<u8>> {
    let mut r = Rng::for_case(seed, "C08-encrypted", 0, i);
    let mut conf = crate::props::c05::gen_conf(&mut r, i);
    // the user password is empty, so that Document::load_mem decrypts on its own
    conf.user = String::new();
    conf.user_prepared = vec![];
    let name = |s: &str| RObj::Name(s.as_bytes().to_vec());
    let k = |s: &str| s.as_bytes().to_vec();
    let container = |members: &[(u32, String)]| -> RObj {
        let mut index = String::new();
        let mut data = String::new();
        for (n, body) in members {
            index.push_str(&format!("{} {} ", n, data.len()));
            data.push_str(body);
            data.push(' ');
        }
        RObj::Stream(vec![(k("Type"), name("ObjStm")), (k("N"), RObj::Int(members.len() as i64)), (k("First"), RObj::Int(index.len() as i64))], format!("{}{}", index, data).into_bytes())
    };
    let mut d = RDoc::new();
    d.objects.insert((1, 0), RObj::Dict(vec![(k("Type"), name("Catalog")), (k("Shared"), RObj::Ref(50, 0))]));
    let fillers = 100 + r.usize_below(400);
    let mut big: Vec<(u32, String)> = (0..fillers as u32).map(|j| (100 + j, format!("(filler {} of the large container)", j))).collect();
    big.insert(r.usize_below(big.len()), (50, "(copy of object 50 in the large container)".to_string()));
    // the large container takes the lowest or the highest of the three numbers
    let order: [u32; 3] = if r.bool() { [3, 45, 46] } else { [46, 3, 45] };
    d.objects.insert((order[0], 0), container(&big));
    d.objects.insert((order[1], 0), container(&[(50, "(copy of object 50 in a small container)".to_string()), (60, "(sixty)".to_string())]));
    d.objects.insert((order[2], 0), container(&[(61, "(sixty-one)".to_string()), (50, "(copy of object 50 in another small container)".to_string())]));
    d.trailer = vec![(k("Root"), RObj::Ref(1, 0)), (k("ID"), RObj::Array(vec![RObj::Str(r.bytes(16), true), RObj::Str(r.bytes(16), true)]))];
    // (the library's own writer leaves object streams out, so the file is encrypted by the reference handler and
    // written by the reference writer)
    Some(crate::props::c05::reference_encrypted_file(&conf, &d, &mut r))
}

fn factorial(k: usize) -> i64 {
    (1..=k as i64).product()
}

#[cfg(feature = "par")]
fn load_in_pool(bytes: &[u8], threads: usize) -> Option<Document> {
    let pool = rayon::ThreadPoolBuilder::new().num_threads(threads).build().ok()?;
    pool.install(|| Document::load_mem(bytes).ok())
}
#[cfg(not(feature = "par"))]
fn load_in_pool(bytes: &[u8], _threads: usize) -> Option<Document> {
    Document::load_mem(bytes).ok()
}

pub fn run(cfg: &RunCfg) -> (PropMeta, ShardOut, Map<String, Value>) {
    use lopdf::verif::{DELAY_SEED, MERGE_PERM};
    use std::sync::atomic::Ordering;
    let n1 = cfg.n(60, 1500);
    let n2 = cfg.n(40, 600);
    let mut out = ShardOut::default();
    // digests of the sequential build for the same files (from the --merge sub-run)
    let seq: BTreeMap<String, u64> = std::env::var("VH_MERGE_FILE")
        .ok()
        .and_then(|p| std::fs::read_to_string(p).ok())
        .and_then(|s| serde_json::from_str::<Value>(&s).ok())
        .and_then(|v| v["counters"].as_object().map(|m| m.iter().filter(|(k, _)| k.starts_with("digest:")).map(|(k, v)| (k.clone(), v.as_u64().unwrap_or(0))).collect()))
        .unwrap_or_default();
    let is_seq = !cfg!(feature = "par");
    let mut orders_seen: HashSet<Vec<u32>> = HashSet::new();
    // ---- stage 1: exhaustive merge orders
    for i in 0..n1 {
        let (bytes, k) = gen_file(cfg.seed, i, false);
        MERGE_PERM.store(-1, Ordering::Relaxed);
        DELAY_SEED.store(0, Ordering::Relaxed);
        let Ok(base) = Document::load_mem(&bytes) else {
            out.count("files_not_loadable");
            continue;
        };
        let d0 = digest(&base);
        out.counters.insert(format!("digest:s1:{}", i), d0);
        out.evaluations += 1;
        out.digests.insert(crate::prng::fnv_bytes(&bytes));
        if is_seq {
            continue;
        }
        out.add(&format!("stage1_files_with_{}_object_streams", k), 1);
        if let Some(sd) = seq.get(&format!("digest:s1:{}", i)) {
            out.count("compared_with_sequential_build");
            if *sd != d0 {
                out.finding(Finding {
                    signature: "C08/differs-from-sequential".into(),
                    what: format!("file {}: parallel load digest {:x} != sequential build digest {:x}", i, d0, sd),
                    witness: json!({"kind":"file","file_hex":hex(&bytes),"object_streams":k}),
                });
            }
        }
        let nperm = factorial(k.min(6));
        for p in 0..nperm {
            MERGE_PERM.store(p, Ordering::Relaxed);
            let d = Document::load_mem(&bytes).map(|d| digest(&d)).unwrap_or(0);
            out.evaluations += 1;
            out.count("merge_orders_enumerated");
            if d != d0 {
                out.finding(Finding {
                    signature: "C08/merge-order-dependent".into(),
                    what: format!("file {} ({} object streams): merge order #{} gives digest {:x}, natural order gives {:x}", i, k, p, d, d0),
                    witness: json!({"kind":"file","file_hex":hex(&bytes),"object_streams":k,"perm":p}),
                });
                break;
            }
        }
        MERGE_PERM.store(-1, Ordering::Relaxed);
        if i < 2 {
            out.sample(json!({"stage":1,"file":i,"bytes":bytes.len(),"object_streams":k,"merge_orders":nperm,"digest":format!("{:x}", d0)}));
        }
    }
    // ---- stage 2: real schedules
    for i in 0..n2 {
        let (bytes, k) = gen_file(cfg.seed, 1_000_000 + i, true);
        MERGE_PERM.store(-1, Ordering::Relaxed);
        DELAY_SEED.store(0, Ordering::Relaxed);
        let Ok(base) = Document::load_mem(&bytes) else {
            out.count("files_not_loadable");
            continue;
        };
        let d0 = digest(&base);
        out.counters.insert(format!("digest:s2:{}", i), d0);
        out.evaluations += 1;
        out.digests.insert(crate::prng::fnv_bytes(&bytes));
        if is_seq {
            continue;
        }
        if let Some(sd) = seq.get(&format!("digest:s2:{}", i)) {
            out.count("compared_with_sequential_build");
            if *sd != d0 {
                out.finding(Finding {
                    signature: "C08/differs-from-sequential".into(),
                    what: format!("stage-2 file {}: parallel load digest {:x} != sequential build digest {:x}", i, d0, sd),
                    witness: json!({"kind":"file","file_hex":hex(&bytes),"object_streams":k}),
                });
            }
        }
        let mut file_orders: HashSet<Vec<u32>> = HashSet::new();
        for (round, threads) in [1usize, 2, 3, 4, 8, 16, 2, 3, 4, 8, 16, 16].iter().enumerate() {
            DELAY_SEED.store(cfg.seed.wrapping_mul(31).wrapping_add(i * 100 + round as u64) | 1, Ordering::Relaxed);
            lopdf::verif::reset_order();
            let d = load_in_pool(&bytes, *threads).map(|d| digest(&d)).unwrap_or(0);
            let order = lopdf::verif::take_last_order();
            out.evaluations += 1;
            out.count(&format!("pool_loads_{}_threads", threads));
            file_orders.insert(order.clone());
            orders_seen.insert(order);
            if d != d0 {
                out.finding(Finding {
                    signature: "C08/schedule-dependent".into(),
                    what: format!("stage-2 file {} ({} object streams): load on a pool of {} threads gives digest {:x}, default load gives {:x}", i, k, threads, d, d0),
                    witness: json!({"kind":"file","file_hex":hex(&bytes),"object_streams":k,"threads":threads}),
                });
                break;
            }
        }
        DELAY_SEED.store(0, Ordering::Relaxed);
        out.max("max_distinct_completion_orders_for_one_file", file_orders.len() as u64);
        if file_orders.len() < 2 {
            out.count("low_diversity_files");
        }
        if i < 1 {
            out.sample(json!({"stage":2,"file":i,"bytes":bytes.len(),"object_streams":k,"distinct_completion_orders":file_orders.len()}));
        }
    }
    // ---- stage 2b: wide object streams (hundreds of objects in one container, as ordinary producers write them): how
    // the index of one container is divided among the workers must not show in the result
    let n3 = cfg.n(12, 80);
    for i in 0..n3 {
        let (bytes, widest) = gen_wide_file(cfg.seed, i);
        MERGE_PERM.store(-1, Ordering::Relaxed);
        DELAY_SEED.store(0, Ordering::Relaxed);
        let Ok(base) = Document::load_mem(&bytes) else {
            out.count("files_not_loadable");
            continue;
        };
        let d0 = digest(&base);
        out.counters.insert(format!("digest:s2b:{}", i), d0);
        out.evaluations += 1;
        out.digests.insert(crate::prng::fnv_bytes(&bytes));
        if is_seq {
            continue;
        }
        out.max("max_objects_in_one_object_stream", widest as u64);
        if let Some(sd) = seq.get(&format!("digest:s2b:{}", i)) {
            out.count("compared_with_sequential_build");
            if *sd != d0 {
                out.finding(Finding {
                    signature: "C08/differs-from-sequential".into(),
                    what: format!("wide file {} ({} objects in one object stream): parallel load digest {:x} != sequential build digest {:x}", i, widest, d0, sd),
                    witness: json!({"kind":"file","file_hex":hex(&bytes),"object_streams":1,"widest":widest}),
                });
            }
        }
        for threads in [1usize, 2, 3, 4, 5, 6, 7, 8, 16] {
            let d = load_in_pool(&bytes, threads).map(|d| digest(&d)).unwrap_or(0);
            out.evaluations += 1;
            out.count("wide_object_stream_pool_loads");
            if d != d0 {
                out.finding(Finding {
                    signature: "C08/schedule-dependent".into(),
                    what: format!("wide file {} ({} objects in one object stream): load on a pool of {} threads gives digest {:x}, default load gives {:x}", i, widest, threads, d, d0),
                    witness: json!({"kind":"file","file_hex":hex(&bytes),"object_streams":1,"threads":threads,"widest":widest}),
                });
                break;
            }
        }
    }
    // ---- stage 2c: the filtered loader (Document::load_filtered) shares the parallel phase but takes its own branch
    // for object streams. Loads run in a child process: a load that never returns cannot be abandoned in-process. The
    // verdict on a child that does not finish is taken from its CPU clock, not from wall time: a process whose threads
    // all wait for each other stops consuming CPU (violation), one that is merely slow keeps consuming it (inconclusive).
    let n4 = cfg.n(2, 10);
    let reps = cfg.n(250, 1000);
    for i in 0..n4 {
        let (bytes, k) = gen_file(cfg.seed, 2_000_000 + i, true);
        let dir = cfg.work_dir().join("C08");
        let _ = std::fs::create_dir_all(&dir);
        let path = dir.join(format!("filtered-{}-{}.pdf", if is_seq { "seq" } else { "par" }, i));
        if std::fs::write(&path, &bytes).is_err() {
            out.inconclusive.push("could not write the work file of the filtered-load stage".into());
            break;
        }
        out.digests.insert(crate::prng::fnv_bytes(&bytes));
        if is_seq {
            // sequential build: in-process, there is no pool to wait for
            let d = Document::load_filtered(&path, keep_even_numbers).map(|d| digest(&d)).unwrap_or(0);
            out.counters.insert(format!("digest:s2c:{}", i), d);
            out.evaluations += 1;
            let _ = std::fs::remove_file(&path);
            continue;
        }
        let mut first: Option<u64> = seq.get(&format!("digest:s2c:{}", i)).copied();
        if first.is_some() {
            out.count("compared_with_sequential_build");
        }
        for threads in [3usize, 4, 8, 16] {
            match filtered_child(&path, threads, reps) {
                FilteredOutcome::Digests(ds) => {
                    out.evaluations += ds.len() as u64;
                    out.add("filtered_pool_loads", ds.len() as u64);
                    for d in ds {
                        let want = *first.get_or_insert(d);
                        if d != want {
                            out.finding(Finding {
                                signature: "C08/filtered-load/differs".into(),
                                what: format!("file with {} object streams: load_filtered on a pool of {} threads gives digest {:x}, expected {:x} (sequential build / first load)", k, threads, d, want),
                                witness: json!({"kind":"filtered","file_hex":hex(&bytes),"object_streams":k,"threads":threads,"reps":reps}),
                            });
                            break;
                        }
                    }
                }
                FilteredOutcome::Blocked(done) => {
                    out.finding(Finding {
                        signature: "C08/filtered-load/never-returns".into(),
                        what: format!("file with {} object streams: after {} good loads, load_filtered on a pool of {} threads did not return and the process stopped consuming CPU (its threads wait for each other)", k, done, threads),
                        witness: json!({"kind":"filtered","file_hex":hex(&bytes),"object_streams":k,"threads":threads,"reps":reps}),
                    });
                    break;
                }
                FilteredOutcome::Inconclusive(why) => out.inconclusive.push(format!("filtered-load stage: {}", why)),
            }
        }
        let _ = std::fs::remove_file(&path);
    }
    // ---- stage 2d: encrypted files. Their object streams are unpacked after decryption (Document::decrypt_raw), a
    // second place where objects of several containers meet. Files: a large container and two small ones that all
    // carry the same object number, encrypted by the reference handler with an empty user password (so that loading decrypts).
    let n5 = cfg.n(3, 16);
    for i in 0..n5 {
        let Some(bytes) = gen_encrypted_file(cfg.seed, i) else {
            out.count("encrypted_files_not_built");
            continue;
        };
        MERGE_PERM.store(-1, Ordering::Relaxed);
        DELAY_SEED.store(0, Ordering::Relaxed);
        let Ok(base) = Document::load_mem(&bytes) else {
            out.count("files_not_loadable");
            continue;
        };
        let d0 = digest(&base);
        out.counters.insert(format!("digest:s2d:{}", i), d0);
        out.evaluations += 1;
        out.digests.insert(crate::prng::fnv_bytes(&bytes));
        if base.is_encrypted() {
            out.count("encrypted_files_left_encrypted");
        }
        if is_seq {
            continue;
        }
        if let Some(sd) = seq.get(&format!("digest:s2d:{}", i)) {
            out.count("compared_with_sequential_build");
            if *sd != d0 {
                out.finding(Finding {
                    signature: "C08/differs-from-sequential".into(),
                    what: format!("encrypted file {}: parallel load digest {:x} != sequential build digest {:x}", i, d0, sd),
                    witness: json!({"kind":"file","file_hex":hex(&bytes),"object_streams":3,"encrypted":true}),
                });
            }
        }
        for (round, threads) in [1usize, 2, 3, 4, 8, 16, 2, 3, 4, 8, 16, 16].iter().enumerate() {
            let _ = round;
            let d = load_in_pool(&bytes, *threads).map(|d| digest(&d)).unwrap_or(0);
            out.evaluations += 1;
            out.count("encrypted_file_pool_loads");
            if d != d0 {
                out.finding(Finding {
                    signature: "C08/schedule-dependent".into(),
                    what: format!("encrypted file {} (three object streams with one shared number): load on a pool of {} threads gives digest {:x}, default load gives {:x}", i, threads, d, d0),
                    witness: json!({"kind":"file","file_hex":hex(&bytes),"object_streams":3,"threads":threads,"encrypted":true}),
                });
                break;
            }
        }
    }
    // ---- stage 3 (thorough, default-features build only): Miri on the rayon loader
    if !is_seq && !cfg.quick() {
        miri_stage(cfg, &mut out);
    }
    out.counters.insert("distinct_completion_orders_observed".into(), orders_seen.len() as u64);
    if !is_seq && orders_seen.len() < 20 {
        out.inconclusive.push(format!("sampling stage saw only {} distinct completion orders", orders_seen.len()));
    }
    if !is_seq {
        // do not leak per-file digests into the evidence counters
        out.counters.retain(|k, _| !k.starts_with("digest:"));
        if out.counters.get("compared_with_sequential_build").copied().unwrap_or(0) == 0 {
            out.inconclusive.push("no digest of the sequential build was available for comparison".into());
        }
    }
    let meta = PropMeta {
        level: "fault_enumeration",
        rule: "stage 1: files with 2..6 object streams (multi-revision histories, so the same object number occurs in several containers; zero-length streams and indirect lengths included): through hook H1 every one of the k! orders in which the parallel phase can append the containers' objects is applied and the canonical digest (objects, trailer, max_id, version) must equal the natural-order digest and the digest computed by the no-default-features (sequential) build; stage 2: files with >= 8 object streams loaded 12 times in rayon pools of 1..16 threads with seeded delays before the accumulator lock; digests must agree and the completion orders actually observed are counted; stage 2b: files whose object streams hold 256..1300 objects each, loaded in pools of 1..8 and 16 threads and by the sequential build (how the index of one container is divided among workers must not show); stage 2c: Document::load_filtered with a filter that drops odd-numbered objects, repeated in child processes on pools of 3..16 threads - every load must return (a child whose CPU clock stands still for 20 s with loads outstanding is blocked) with the digest of the sequential build; stage 2d: files encrypted by the reference handler (empty user password) whose three object streams share an object number, unpacked after decryption - pools of 1..16 threads and the sequential build must agree. distinct = distinct files.".into(),
        assumptions: vec![
            "the merge of object-stream contents is the only point where completion order can reach the result (anchor of the property); interleavings inside the parse of one object are sampled (pools, delays), not enumerated".into(),
            "the Miri stage of DESIGN.md §4 C08 runs only in the thorough tier".into(),
        ],
        exhaustive: true,
        min_distinct: 20,
    };
    let mut extra = Map::new();
    extra.insert("features".into(), json!(if is_seq { "seq" } else { "par" }));
    (meta, out, extra)
}

fn miri_stage(cfg: &RunCfg, out: &mut ShardOut) {
    // the input (two object streams holding the same object number, uncompressed xref stream) is
    // built inside the Miri harness itself: Miri interprets ~10^4 times slower than native code
    let (bytes, k): (Vec<u8>, usize) = (vec![], 2);
    let manifest = cfg.verif_dir.join("miri_c08").join("Cargo.toml");
    let seeds = 16;
    let t0 = std::time::Instant::now();
    let res = std::process::Command::new("timeout")
        .arg("1500")
        .args(["cargo", "+nightly", "miri", "run", "--offline", "--manifest-path"])
        .arg(&manifest)
        .arg("--target-dir")
        .arg(cfg.verif_dir.join("target").join("miri"))
        .env("MIRIFLAGS", format!("-Zmiri-tree-borrows -Zmiri-ignore-leaks -Zmiri-many-seeds=0..{}", seeds))
        .env_remove("RUSTFLAGS")
        .output();
    match res {
        Err(e) => out.inconclusive.push(format!("Miri stage could not be started: {}", e)),
        Ok(o) => {
            let stdout = String::from_utf8_lossy(&o.stdout).to_string();
            let stderr = String::from_utf8_lossy(&o.stderr).to_string();
            let digests: Vec<&str> = stdout.lines().filter(|l| l.starts_with("digest=")).collect();
            let distinct: BTreeSet<&str> = digests.iter().cloned().collect();
            out.counters.insert("miri_seeds_run".into(), digests.len() as u64);
            out.counters.insert("miri_wall_seconds".into(), t0.elapsed().as_secs());
            out.counters.insert("miri_object_streams_in_file".into(), k as u64);
            out.evaluations += digests.len() as u64;
            let ub = stderr.contains("Undefined Behavior") || stderr.contains("data race") || stderr.contains("error: unsupported operation");
            if ub {
                let first = stderr.lines().find(|l| l.contains("Undefined Behavior") || l.contains("data race")).unwrap_or("").to_string();
                out.finding(Finding {
                    signature: "C08/miri/undefined-behaviour-or-data-race".into(),
                    what: format!("Miri reported: {}", first),
                    witness: json!({"kind":"miri","file_hex":hex(&bytes),"stderr_tail":stderr.chars().rev().take(3000).collect::<String>().chars().rev().collect::<String>()}),
                });
            } else if digests.iter().any(|d| !d.ends_with("obj3=B")) {
                out.finding(Finding {
                    signature: "C08/miri/wrong-copy".into(),
                    what: format!("under Miri the object named by the cross-reference entry was not the one loaded: {:?}", distinct),
                    witness: json!({"kind":"miri"}),
                });
            } else if distinct.len() > 1 {
                out.finding(Finding {
                    signature: "C08/miri/schedule-dependent".into(),
                    what: format!("under Miri's randomised scheduler {} different digests were produced: {:?}", distinct.len(), distinct),
                    witness: json!({"kind":"miri","file_hex":hex(&bytes)}),
                });
            } else if !o.status.success() || digests.len() < seeds {
                out.inconclusive.push(format!("Miri stage did not complete ({} of {} seeds, exit {:?}): {}", digests.len(), seeds, o.status.code(), stderr.lines().rev().take(3).collect::<Vec<_>>().join(" | ")));
            } else {
                out.sample(json!({"stage":"miri","seeds":digests.len(),"digest":digests[0],"object_streams":k,"bytes":bytes.len()}));
            }
        }
    }
}

pub fn replay(w: &Value) -> Vec<Finding> {
    use lopdf::verif::MERGE_PERM;
    use std::sync::atomic::Ordering;
    let bytes = unhex(w.get("file_hex").and_then(|x| x.as_str()).unwrap_or(""));
    let k = w.get("object_streams").and_then(|x| x.as_u64()).unwrap_or(2) as usize;
    if w.get("kind").and_then(|x| x.as_str()) == Some("filtered") {
        let threads = w.get("threads").and_then(|x| x.as_u64()).unwrap_or(3) as usize;
        let reps = w.get("reps").and_then(|x| x.as_u64()).unwrap_or(250);
        let path = std::env::temp_dir().join(format!("vh-c08-filtered-{}.pdf", std::process::id()));
        if std::fs::write(&path, &bytes).is_err() {
            return vec![];
        }
        let res = filtered_child(&path, threads, reps * 4);
        let _ = std::fs::remove_file(&path);
        return match res {
            FilteredOutcome::Blocked(done) => vec![Finding { signature: "C08/filtered-load/never-returns".into(), what: format!("load_filtered did not return after {} good loads", done), witness: w.clone() }],
            FilteredOutcome::Digests(ds) if ds.windows(2).any(|p| p[0] != p[1]) => vec![Finding { signature: "C08/filtered-load/differs".into(), what: "repeated filtered loads disagree".into(), witness: w.clone() }],
            _ => vec![],
        };
    }
    MERGE_PERM.store(-1, Ordering::Relaxed);
    let Ok(base) = Document::load_mem(&bytes) else { return vec![] };
    let d0 = digest(&base);
    for p in 0..factorial(k.min(6)) {
        MERGE_PERM.store(p, Ordering::Relaxed);
        let d = Document::load_mem(&bytes).map(|d| digest(&d)).unwrap_or(0);
        if d != d0 {
            MERGE_PERM.store(-1, Ordering::Relaxed);
            return vec![Finding { signature: "C08/merge-order-dependent".into(), what: format!("merge order #{} changes the loaded document", p), witness: w.clone() }];
        }
    }
    MERGE_PERM.store(-1, Ordering::Relaxed);
    vec![]
}
