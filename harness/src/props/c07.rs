//! C07 — incremental updates: latest revision wins, history preserved.
//! (a) reference-writer histories: load_mem of every prefix vs the latest-wins model;
//! (b) the same kind of edit scripts replayed through IncrementalDocument, checked after every
//!     step: prefix bytes, appended part (strict reader), prev view unchanged, reload == model.

use crate::bridge::*;
use crate::gen;
use crate::prng::Rng;
use crate::props::c02::{legal_doc, write_history};
use crate::refimpl::refwriter::*;
use crate::refimpl::robj::{RDoc, RObj};
use crate::refimpl::strictreader::{Entry, StrictReader};
use crate::util::*;
use lopdf::{Document, IncrementalDocument, Object};
use serde_json::{json, Map, Value};
use std::collections::{BTreeMap, BTreeSet};

pub const TAG: &str = "C07";

pub fn gen_history(r: &mut Rng, max_objects: usize, max_revs: usize) -> History {
    let d = legal_doc(r, max_objects);
    let mut h = History::from_doc(&d);
    let nrev = 1 + r.usize_below(max_revs);
    let mut cur = d.clone();
    for _ in 0..nrev {
        let mut rev = Revision { objects: BTreeMap::new(), trailer: cur.trailer.clone() };
        let ids: Vec<(u32, u16)> = cur.objects.keys().cloned().collect();
        let cfg = gen::ObjCfg { max_depth: 2, refs: true, ref_pool: ids.clone(), max_str: 20, max_children: 4 };
        let p = 1 + r.below(3);
        for id in &ids {
            if r.chance(p, 5) {
                let mut o = if matches!(cur.objects[id], RObj::Stream(..)) && r.bool() {
                    RObj::Stream(vec![], gen::stream_body(r, 40))
                } else {
                    gen::top_object(r, &cfg)
                };
                sanitize_for_refwriter(&mut o);
                rev.objects.insert(*id, o);
            }
        }
        let mx = cur.max_num();
        for k in 0..r.usize_below(4) as u32 {
            let mut o = gen::top_object(r, &cfg);
            sanitize_for_refwriter(&mut o);
            rev.objects.insert((mx + 1 + k, 0), o);
        }
        if r.chance(1, 3) {
            // trailer change (e.g. new Info)
            rev.trailer.retain(|(k, _)| k != b"Info");
            if let Some(id) = ids.first() {
                rev.trailer.push((b"Info".to_vec(), RObj::Ref(id.0, id.1)));
            }
        }
        for (id, o) in &rev.objects {
            cur.objects.insert(*id, o.clone());
        }
        cur.trailer = rev.trailer.clone();
        h.revisions.push(rev);
    }
    h
}

/// a long history: 34..70 small updates that keep rewriting a few "hot" objects, so that most objects are defined by
/// the oldest sections only (documents that are signed or annotated again and again look like this)
pub fn gen_long_history(r: &mut Rng) -> History {
    let nb = 6 + r.usize_below(10);
    let d = legal_doc(r, nb);
    let mut h = History::from_doc(&d);
    let ids: Vec<(u32, u16)> = d.objects.keys().cloned().collect();
    let hot: Vec<(u32, u16)> = (0..1 + r.usize_below(3)).map(|_| *r.pick(&ids)).collect();
    let cfg = gen::ObjCfg { max_depth: 1, refs: true, ref_pool: ids.clone(), max_str: 12, max_children: 3 };
    let mut mx = d.max_num();
    let nrev = 34 + r.usize_below(37);
    for _ in 0..nrev {
        let mut rev = Revision { objects: BTreeMap::new(), trailer: d.trailer.clone() };
        let id = *r.pick(&hot);
        let mut o = gen::top_object(r, &cfg);
        sanitize_for_refwriter(&mut o);
        // (a number keeps its kind: a stream is replaced by a stream, so that it stays out of object streams)
        if matches!(d.objects[&id], RObj::Stream(..)) {
            o = RObj::Stream(vec![], gen::stream_body(r, 20));
        }
        rev.objects.insert(id, o);
        if r.chance(1, 6) {
            mx += 1;
            let mut o = gen::top_object(r, &cfg);
            sanitize_for_refwriter(&mut o);
            rev.objects.insert((mx, 0), o);
        }
        h.revisions.push(rev);
    }
    h
}

fn history_to_json(h: &History) -> Value {
    json!({"version":h.version,"revisions":h.revisions.iter().map(|r| {
        let mut d = RDoc::new(); d.objects = r.objects.clone(); d.trailer = r.trailer.clone(); rdoc_to_json(&d)
    }).collect::<Vec<_>>()})
}

/// where object `n` lives in each revision of the file (strict reader's view)
fn placements(file: &[u8], n: u32) -> String {
    match StrictReader::new(file).parse() {
        Err(_) => "?".into(),
        Ok(p) => p
            .sections
            .iter()
            .rev()
            .map(|s| match s.entries.get(&n) {
                Some(Entry::InUse { .. }) => "plain",
                Some(Entry::Compressed { .. }) => "objstm",
                Some(Entry::Free) => "free",
                None => "-",
            })
            .collect::<Vec<_>>()
            .join(">"),
    }
}

fn check_history(h: &History, wseed: u64, style: XrefStyle, objstm: bool, out: &mut ShardOut) -> Vec<Finding> {
    check_history_with(h, wseed, style, objstm, false, out)
}

/// `stale_size`: the update sections repeat the Size of the revision they update although they add objects (what a
/// sloppy producer writes and the reader is expected to put right)
fn check_history_with(h: &History, wseed: u64, style: XrefStyle, objstm: bool, stale_size: bool, out: &mut ShardOut) -> Vec<Finding> {
    // the lexical layer is C02's subject; its known raw-CR finding is kept out of the histories
    let mut dis = BTreeSet::new();
    dis.insert("str-raw-cr-eol".to_string());
    dis.insert("str-raw-crlf-eol".to_string());
    let (w, used) = if stale_size {
        let mut ch = Choices::new(wseed);
        ch.disabled = dis.clone();
        let mut rw = RefWriter::new(&mut ch);
        rw.stale_update_size = true;
        let w = rw.write(h, style, objstm);
        out.count("histories_with_stale_size_in_updates");
        (w, ch.used)
    } else {
        write_history(wseed, &dis, h, style, objstm)
    };
    for f in used.keys() {
        if f.starts_with("object-streams") || f.starts_with("xref") || f.starts_with("indirect") {
            out.add(&format!("feature:{}", f), 1);
        }
    }
    let mut fs = vec![];
    for (ri, end) in w.revision_ends.iter().enumerate() {
        let file = &w.bytes[..*end];
        let expect = h.merged(ri);
        out.count(&format!("prefix_loads_rev{}", ri.min(4)));
        let diffs = match crate::props::catch(|| Document::load_mem(file)) {
            Err(p) => vec![((0, 0), format!("load_mem panicked: {}", p))],
            Ok(Err(e)) => vec![((0, 0), format!("load_mem failed: {:?}", e))],
            Ok(Ok(doc)) => crate::props::c02::diff_loaded(&expect, &doc, &w.container_ids),
        };
        if ri > 0 {
            let over = h.revisions[ri].objects.keys().filter(|id| h.merged(ri - 1).objects.contains_key(id)).count();
            out.add("overridden_objects_read_back", over as u64);
        }
        if let Some((id, msg)) = diffs.first() {
            // is it a stale copy (value of an older revision)? name the container transition
            let stale = (0..ri).rev().any(|k| {
                h.merged(k).objects.get(id).map(|old| {
                    // does the loaded value equal the old one?
                    Document::load_mem(file).ok().and_then(|d| d.objects.get(id).map(|o| robj_eq(old, &from_lo(o)))).unwrap_or(false)
                }).unwrap_or(false)
            });
            let sig = if stale {
                format!("C07/stale-object/{}", placements(&file[w.header_offset..], id.0))
            } else {
                format!("C07/prefix-load/{}", if msg.contains("missing") { "missing-object" } else if msg.contains("unexpected") { "extra-object" } else { "different-object" })
            };
            fs.push(Finding {
                signature: sig,
                what: format!("revision {} of {}: {}", ri, h.revisions.len() - 1, msg),
                witness: json!({"kind":"history","file_hex":hex(file),"expect":rdoc_to_json(&expect),"containers":w.container_ids.iter().collect::<Vec<_>>(),
                    "history":history_to_json(h),"style":format!("{:?}",style),"objstm":objstm,"revision":ri}),
            });
            break;
        }
    }
    fs
}

// ------------------------------------------------------------------ (b) IncrementalDocument

fn snapshot(d: &Document) -> RDoc {
    from_lo_doc(d)
}

fn check_incremental(r: &mut Rng, out: &mut ShardOut) -> Vec<Finding> {
    let nb = 3 + r.usize_below(20);
    let mut base = legal_doc(r, nb);
    // IncrementalDocument works on files lopdf can load; start from lopdf's own writer or the reference writer
    let xs = r.bool();
    let from_refwriter = r.chance(1, 3);
    let mut bytes: Vec<u8> = vec![];
    let mut containers: BTreeSet<u32> = BTreeSet::new();
    if from_refwriter {
        let mut dis = BTreeSet::new();
        dis.insert("str-raw-cr-eol".to_string());
        dis.insert("str-raw-crlf-eol".to_string());
        dis.insert("junk-before-header".to_string());
        let (w, _) = write_history(r.next_u64(), &dis, &History::from_doc(&base), if xs { XrefStyle::Stream } else { XrefStyle::Table }, r.bool());
        bytes = w.bytes;
        containers = w.container_ids;
    } else {
        let mut doc = to_lo_doc(&base, xs);
        if doc.save_to(&mut bytes).is_err() {
            return vec![];
        }
    }
    let mut expect = base.clone();
    let steps = 1 + r.usize_below(3);
    let mut fs = vec![];
    let mut mk = |sig: &str, what: String, bytes: &[u8]| Finding {
        signature: format!("C07/incremental/{}", sig),
        what,
        witness: json!({"kind":"incremental","file_hex":hex(bytes),"note":"bytes of the file on which the failing step was performed"}),
    };
    for step in 0..steps {
        let mut inc = match IncrementalDocument::load_from(&bytes[..]) {
            Ok(i) => i,
            Err(e) => {
                fs.push(mk("reload", format!("step {}: result of the previous step does not load as IncrementalDocument: {:?}", step, e), &bytes));
                return fs;
            }
        };
        let prev_before = snapshot(inc.get_prev_documents());
        let prev_startxref = inc.get_prev_documents().xref_start;
        // edits
        let ids: Vec<(u32, u16)> = expect.objects.keys().cloned().collect();
        let cfg = gen::ObjCfg { max_depth: 2, refs: true, ref_pool: if ids.is_empty() { vec![(1, 0)] } else { ids.clone() }, max_str: 20, max_children: 4 };
        let mut touched: BTreeSet<(u32, u16)> = BTreeSet::new();
        for id in &ids {
            match r.below(8) {
                0 => {
                    let mut o = gen::top_object(r, &cfg);
                    sanitize_for_refwriter(&mut o);
                    inc.new_document.set_object(*id, to_lo(&o));
                    expect.objects.insert(*id, o);
                    touched.insert(*id);
                    out.count("edit:set_object");
                }
                1 if matches!(expect.objects.get(id), Some(RObj::Dict(_))) => {
                    // copy-on-write clone then mutate in place (dictionary objects only: cloning
                    // an object that is itself a reference copies its target, by design)
                    if inc.opt_clone_object_to_new_document(*id).is_ok() {
                        if let Ok(Object::Dictionary(d)) = inc.new_document.get_object_mut(*id) {
                            d.set("Edited", Object::Integer(step as i64));
                            if let Some(RObj::Dict(ed)) = expect.objects.get_mut(id) {
                                ed.retain(|(k, _)| k != b"Edited");
                                ed.push((b"Edited".to_vec(), RObj::Int(step as i64)));
                            }
                        }
                        touched.insert(*id);
                        out.count("edit:clone+mutate");
                    }
                }
                _ => {}
            }
        }
        for _ in 0..r.usize_below(3) {
            let mut o = gen::top_object(r, &cfg);
            sanitize_for_refwriter(&mut o);
            let id = inc.new_document.add_object(to_lo(&o));
            if expect.objects.contains_key(&id) || containers.contains(&id.0) {
                fs.push(mk("fresh-id-collides", format!("step {}: add_object returned {:?}, which is already in use in the loaded file", step, id), &bytes));
                return fs;
            }
            expect.objects.insert(id, o);
            touched.insert(id);
            out.count("edit:add_object");
        }
        let mut outb = vec![];
        // (one save in four goes through a sink that takes at most 61 bytes per call: what is emitted of the loaded
        // bytes must not depend on how the sink chunks them)
        let saved = if r.chance(1, 4) {
            struct Short(Vec<u8>);
            impl std::io::Write for Short {
                fn write(&mut self, b: &[u8]) -> std::io::Result<usize> {
                    let n = b.len().min(61);
                    self.0.extend_from_slice(&b[..n]);
                    Ok(n)
                }
                fn flush(&mut self) -> std::io::Result<()> {
                    Ok(())
                }
            }
            let mut sink = Short(vec![]);
            let res = inc.save_to(&mut sink);
            outb = sink.0;
            out.count("incremental_saves_through_short_writes");
            res
        } else {
            inc.save_to(&mut outb)
        };
        if let Err(e) = saved {
            fs.push(mk("save", format!("step {}: save_to failed: {}", step, e), &bytes));
            return fs;
        }
        out.evaluations += 1;
        // 1. previous bytes unchanged as a prefix
        if !outb.starts_with(&bytes) {
            fs.push(mk("prefix", format!("step {}: saved file does not start with the previously loaded bytes", step), &bytes));
            return fs;
        }
        // 2. previous view unchanged
        if snapshot(inc.get_prev_documents()) != prev_before {
            fs.push(mk("prev-view", format!("step {}: get_prev_documents() changed during editing/saving", step), &bytes));
            return fs;
        }
        // 3. appended part: only touched objects + one xref section pointing back
        match StrictReader::new(&outb).parse() {
            Err(e) => {
                fs.push(mk("strict", format!("step {}: strict reader rejects the updated file: {}", step, e), &bytes));
                return fs;
            }
            Ok(p) => {
                let appended: Vec<(u32, u16)> = p.sequential.iter().filter(|(off, _)| **off >= bytes.len()).map(|(_, (id, _))| *id).collect();
                let newest = &p.sections[0];
                let allowed_extra = newest.xref_stream_id;
                for id in &appended {
                    if !touched.contains(id) && Some(id.0) != allowed_extra {
                        fs.push(mk("appended-untouched", format!("step {}: object {:?} was written although it was not added or replaced", step, id), &bytes));
                        return fs;
                    }
                }
                for id in &touched {
                    if !appended.contains(id) {
                        fs.push(mk("appended-missing", format!("step {}: edited object {:?} is not in the appended part", step, id), &bytes));
                        return fs;
                    }
                }
                if newest.offset < bytes.len() || newest.prev != Some(prev_startxref) {
                    fs.push(mk("prev-link", format!("step {}: new cross-reference section at {} has Prev {:?}, previous startxref was {}", step, newest.offset, newest.prev, prev_startxref), &bytes));
                    return fs;
                }
                let new_sections = p.sections.iter().filter(|s| s.offset >= bytes.len()).count();
                if new_sections != 1 {
                    fs.push(mk("sections", format!("step {}: {} cross-reference sections were appended", step, new_sections), &bytes));
                    return fs;
                }
                out.add("appended_objects_verified", appended.len() as u64);
                containers.extend(p.containers.iter().cloned());
            }
        }
        // 4. loads as Document == model
        match crate::props::catch(|| Document::load_mem(&outb)) {
            Ok(Ok(doc)) => {
                let diffs = crate::props::c02::diff_loaded(&{ let mut e = expect.clone(); e.version = base.version.clone(); e }, &doc, &containers);
                // trailer: IncrementalDocument copies the previous trailer
                if let Some((_, m)) = diffs.iter().find(|(id, _)| *id != (0, 65535)) {
                    fs.push(mk("reload-content", format!("step {}: reloaded document differs from the edit model: {}", step, m), &bytes));
                    return fs;
                }
            }
            Ok(Err(e)) => {
                fs.push(mk("reload", format!("step {}: updated file does not load: {:?}", step, e), &bytes));
                return fs;
            }
            Err(p) => {
                fs.push(mk("reload-panic", format!("step {}: loading the updated file panicked: {}", step, p), &bytes));
                return fs;
            }
        }
        bytes = outb;
        base.version = base.version.clone();
    }
    out.digests.insert(crate::prng::fnv_bytes(&bytes));
    fs
}

// ------------------------------------------------------------------ front-section layout
//
// In a linearized file the newest cross-reference section sits near the start of the file and its Prev entry points
// *forward* to the main section at the end; updates appended later chain back to that front section. The Prev chain
// is then not monotonic in file offsets, but "the most recent revision that defines an object wins" still holds along
// the chain. The files are written here directly (classic tables, simple objects) because the layout is not one the
// reference writer's append-only loop produces.

fn ser_simple(o: &RObj, out: &mut String) {
    match o {
        RObj::Null => out.push_str("null"),
        RObj::Bool(b) => out.push_str(if *b { "true" } else { "false" }),
        RObj::Int(i) => out.push_str(&i.to_string()),
        RObj::Name(n) => {
            out.push('/');
            out.push_str(&String::from_utf8_lossy(n));
        }
        RObj::Str(s, _) => {
            out.push('<');
            for b in s {
                out.push_str(&format!("{:02x}", b));
            }
            out.push('>');
        }
        RObj::Ref(n, g) => out.push_str(&format!("{} {} R", n, g)),
        RObj::Array(a) => {
            out.push('[');
            for (i, x) in a.iter().enumerate() {
                if i > 0 {
                    out.push(' ');
                }
                ser_simple(x, out);
            }
            out.push(']');
        }
        RObj::Dict(d) => {
            out.push_str("<<");
            for (k, v) in d {
                out.push('/');
                out.push_str(&String::from_utf8_lossy(k));
                out.push(' ');
                ser_simple(v, out);
            }
            out.push_str(">>");
        }
        _ => out.push_str("null"),
    }
}

fn simple_value(r: &mut Rng, tag: &str, n: u32, top: u32) -> RObj {
    match r.below(4) {
        0 => RObj::Int(r.range(-1000, 1000)),
        1 => RObj::Str(format!("{} {}", tag, n).into_bytes(), true),
        2 => RObj::Array(vec![RObj::Name(tag.as_bytes().to_vec()), RObj::Ref(1 + r.below(top as u64) as u32, 0)]),
        _ => RObj::Dict(vec![(b"From".to_vec(), RObj::Name(tag.as_bytes().to_vec())), (b"N".to_vec(), RObj::Int(n as i64)), (b"Next".to_vec(), RObj::Ref(1 + r.below(top as u64) as u32, 0))]),
    }
}

/// one body + classic table + trailer; returns the offset of the `xref` keyword
fn write_section(out: &mut Vec<u8>, objs: &BTreeMap<u32, RObj>, with_zero: bool, size: u32, root: u32, prev: Option<usize>, eol: &str) -> usize {
    let mut offs: BTreeMap<u32, usize> = BTreeMap::new();
    for (n, o) in objs {
        offs.insert(*n, out.len());
        let mut s = String::new();
        ser_simple(o, &mut s);
        out.extend_from_slice(format!("{} 0 obj{}{}{}endobj{}", n, eol, s, eol, eol).as_bytes());
    }
    let xref_at = out.len();
    out.extend_from_slice(format!("xref{}", eol).as_bytes());
    let mut nums: Vec<u32> = offs.keys().cloned().collect();
    if with_zero {
        nums.insert(0, 0);
    }
    let mut i = 0;
    while i < nums.len() {
        let mut j = i;
        while j + 1 < nums.len() && nums[j + 1] == nums[j] + 1 {
            j += 1;
        }
        out.extend_from_slice(format!("{} {}{}", nums[i], j - i + 1, eol).as_bytes());
        for n in &nums[i..=j] {
            if *n == 0 {
                out.extend_from_slice(b"0000000000 65535 f\r\n");
            } else {
                out.extend_from_slice(format!("{:010} 00000 n\r\n", offs[n]).as_bytes());
            }
        }
        i = j + 1;
    }
    let prev_s = prev.map(|p| format!("/Prev {:010}", p)).unwrap_or_default();
    out.extend_from_slice(format!("trailer{}<</Size {}/Root {} 0 R{}>>{}", eol, size, root, prev_s, eol).as_bytes());
    xref_at
}

pub struct FrontFile {
    pub bytes: Vec<u8>,
    pub expect: RDoc,
    pub appended: usize,
    /// an object defined only by the main (forward-referenced) section
    pub main_only: Option<u32>,
}

pub fn front_section_file(r: &mut Rng) -> FrontFile {
    let n_main = 3 + r.below(12) as u32;
    let eol = if r.bool() { "\n" } else { "\r\n" };
    // main section (older): objects 1..=n_main; front section (newer): redefines some of them, adds some above
    let mut main: BTreeMap<u32, RObj> = BTreeMap::new();
    main.insert(1, RObj::Dict(vec![(b"Type".to_vec(), RObj::Name(b"Catalog".to_vec())), (b"From".to_vec(), RObj::Name(b"main".to_vec()))]));
    for n in 2..=n_main {
        main.insert(n, simple_value(r, "main", n, n_main));
    }
    let mut front: BTreeMap<u32, RObj> = BTreeMap::new();
    for n in 2..=n_main {
        if r.chance(1, 4) {
            front.insert(n, simple_value(r, "front", n, n_main));
        }
    }
    let n_new = 1 + r.below(4) as u32;
    for n in n_main + 1..=n_main + n_new {
        front.insert(n, simple_value(r, "front", n, n_main));
    }
    if r.chance(1, 3) {
        front.insert(1, RObj::Dict(vec![(b"Type".to_vec(), RObj::Name(b"Catalog".to_vec())), (b"From".to_vec(), RObj::Name(b"front".to_vec()))]));
    }
    let mut top = n_main + n_new;
    let mut out: Vec<u8> = Vec::new();
    out.extend_from_slice(format!("%PDF-1.4{}%\u{e2}\u{e3}\u{cf}\u{d3}{}", eol, eol).as_bytes().iter().map(|b| *b).collect::<Vec<u8>>().as_slice());
    // front section first; its Prev is patched once the main section's offset is known
    let front_xref = write_section(&mut out, &front, false, top + 1, 1, Some(0), eol);
    let prev_field = {
        let hay = &out[front_xref..];
        front_xref + hay.windows(6).position(|w| w == b"/Prev ").expect("Prev written") + 6
    };
    if r.bool() {
        // (linearized files close the first-page section with its own startxref / %%EOF)
        out.extend_from_slice(format!("startxref{}0{}%%EOF{}", eol, eol, eol).as_bytes());
    }
    let main_xref = write_section(&mut out, &main, true, top + 1, 1, None, eol);
    let patch = format!("{:010}", main_xref);
    out[prev_field..prev_field + 10].copy_from_slice(patch.as_bytes());
    out.extend_from_slice(format!("startxref{}{}{}%%EOF{}", eol, front_xref, eol, eol).as_bytes());
    let mut expect = RDoc::new();
    expect.version = "1.4".into();
    for (n, o) in main.iter().chain(front.iter()) {
        expect.objects.insert((*n, 0), o.clone());
    }
    let main_only = main.keys().filter(|n| **n != 1 && !front.contains_key(n)).next().cloned();
    // ordinary updates appended afterwards chain back to the front section
    let appended = r.usize_below(3);
    let mut prev = front_xref;
    for k in 0..appended {
        let mut upd: BTreeMap<u32, RObj> = BTreeMap::new();
        for n in 2..=top {
            if r.chance(1, 5) && Some(n) != main_only {
                upd.insert(n, simple_value(r, &format!("update{}", k), n, top));
            }
        }
        top += 1;
        upd.insert(top, simple_value(r, &format!("update{}", k), top, top));
        let at = write_section(&mut out, &upd, false, top + 1, 1, Some(prev), eol);
        out.extend_from_slice(format!("startxref{}{}{}%%EOF{}", eol, at, eol, eol).as_bytes());
        prev = at;
        for (n, o) in upd {
            expect.objects.insert((n, 0), o);
        }
    }
    expect.trailer = vec![(b"Root".to_vec(), RObj::Ref(1, 0))];
    FrontFile { bytes: out, expect, appended, main_only }
}

fn check_front_section(r: &mut Rng, out: &mut ShardOut) -> Vec<Finding> {
    let f = front_section_file(r);
    out.count("front_section_files");
    out.count(&format!("front_section_files_with_{}_appended_updates", f.appended));
    out.digests.insert(crate::prng::fnv_bytes(&f.bytes));
    let none = BTreeSet::new();
    let witness = |sig: &str| json!({"kind":"history","signature":sig,"file_hex":hex(&f.bytes),"expect":rdoc_to_json(&f.expect),"containers":Vec::<u32>::new(),"layout":"front-section","file_text":String::from_utf8_lossy(&f.bytes[..f.bytes.len().min(3000)])});
    let diffs = match crate::props::catch(|| Document::load_mem(&f.bytes)) {
        Err(p) => vec![((0, 0), format!("load_mem panicked: {}", p))],
        Ok(Err(e)) => vec![((0, 0), format!("load_mem failed: {:?}", e))],
        Ok(Ok(doc)) => crate::props::c02::diff_loaded(&f.expect, &doc, &none),
    };
    if let Some((_, msg)) = diffs.first() {
        let sig = format!("C07/front-section/{}", if msg.contains("missing") { "missing-object" } else if msg.contains("unexpected") { "extra-object" } else { "different-object" });
        return vec![Finding { signature: sig.clone(), what: format!("file whose newest section precedes the section its Prev names ({} updates appended): {}", f.appended, msg), witness: witness(&sig) }];
    }
    // an incremental update on top of it: previous bytes kept, untouched objects still come from the older sections
    let Some(target) = f.main_only else { return vec![] };
    let step = crate::props::catch(|| -> Result<Vec<u8>, String> {
        let mut inc = lopdf::IncrementalDocument::load_from(&f.bytes[..]).map_err(|e| format!("IncrementalDocument::load_from failed: {:?}", e))?;
        let id = inc.new_document.add_object(lopdf::Object::Integer(4242));
        let _ = id;
        let mut bytes = vec![];
        inc.save_to(&mut bytes).map_err(|e| format!("incremental save failed: {}", e))?;
        Ok(bytes)
    });
    let bytes = match step {
        Err(p) => return vec![Finding { signature: "C07/front-section/incremental-panic".into(), what: p, witness: witness("C07/front-section/incremental-panic") }],
        Ok(Err(e)) => return vec![Finding { signature: "C07/front-section/incremental-error".into(), what: e, witness: witness("C07/front-section/incremental-error") }],
        Ok(Ok(b)) => b,
    };
    if !bytes.starts_with(&f.bytes) {
        return vec![Finding { signature: "C07/front-section/prefix".into(), what: "incremental save did not keep the loaded bytes as a prefix".into(), witness: witness("C07/front-section/prefix") }];
    }
    match Document::load_mem(&bytes) {
        Ok(doc) => {
            let got = doc.objects.get(&(target, 0)).map(from_lo);
            let want = f.expect.objects.get(&(target, 0));
            if got.as_ref().zip(want).map(|(a, b)| robj_eq(a, b)) != Some(true) {
                return vec![Finding {
                    signature: "C07/front-section/untouched-after-update".into(),
                    what: format!("after an incremental update, untouched object {} 0 of the main section reads {:?}", target, got.map(|g| g.show())),
                    witness: witness("C07/front-section/untouched-after-update"),
                }];
            }
        }
        Err(e) => return vec![Finding { signature: "C07/front-section/reload".into(), what: format!("{:?}", e), witness: witness("C07/front-section/reload") }],
    }
    out.count("front_section_incremental_updates_checked");
    vec![]
}

/// Resources of a page edited through an incremental document: the page's Resources entry is re-pointed to a new
/// object in the pending revision, then an XObject is registered. The update may only contain the page, the new
/// resources object and what was added; the old resources object is untouched and must not be emitted again, and
/// the entry must be in the resources the page now uses.
fn check_incremental_resources(r: &mut Rng, out: &mut ShardOut) -> Vec<Finding> {
    use lopdf::{dictionary, Dictionary};
    let mut base = Document::with_version("1.5");
    base.reference_table.cross_reference_type = if r.bool() { lopdf::xref::XrefType::CrossReferenceStream } else { lopdf::xref::XrefType::CrossReferenceTable };
    let pages_id = base.new_object_id();
    let old_res = base.add_object(dictionary! { "Font" => dictionary! {}, "Marker" => "old" });
    let img = base.add_object(lopdf::Stream::new(dictionary! { "Type" => "XObject", "Subtype" => "Image", "Width" => 1, "Height" => 1 }, vec![0u8; 3]));
    let page = base.add_object(dictionary! { "Type" => "Page", "Parent" => pages_id, "Resources" => old_res });
    base.objects.insert(pages_id, Object::Dictionary(dictionary! { "Type" => "Pages", "Kids" => vec![Object::Reference(page)], "Count" => 1 }));
    let cat = base.add_object(dictionary! { "Type" => "Catalog", "Pages" => pages_id });
    base.trailer.set("Root", cat);
    let mut bytes = vec![];
    if base.save_to(&mut bytes).is_err() {
        return vec![];
    }
    let mk = |sig: &str, what: String| Finding { signature: format!("C07/incremental-resources/{}", sig), what, witness: json!({"kind":"incremental-resources","note":"scenario is fixed; replay re-runs it"}) };
    let Ok(mut inc) = IncrementalDocument::load_from(&bytes[..]) else { return vec![mk("load", "IncrementalDocument::load_from failed".into())] };
    out.evaluations += 1;
    out.count("incremental_resource_scenarios");
    let variant = r.below(3);
    let mut expect_new: BTreeSet<(u32, u16)> = BTreeSet::new();
    let target_res;
    match variant {
        0 => {
            // ordinary: the loaded page, Resources by reference
            target_res = old_res;
            expect_new.insert(page);
            expect_new.insert(old_res);
        }
        1 => {
            // the page is given a new resources object in the pending revision first
            if inc.opt_clone_object_to_new_document(page).is_err() {
                return vec![mk("clone", "opt_clone_object_to_new_document failed".into())];
            }
            let new_res = inc.new_document.add_object(dictionary! { "Marker" => "new" });
            if let Ok(Object::Dictionary(p)) = inc.new_document.get_object_mut(page) {
                p.set("Resources", Object::Reference(new_res));
            }
            target_res = new_res;
            expect_new.insert(page);
            expect_new.insert(new_res);
        }
        _ => {
            // a page created in the pending revision with an indirect Resources entry
            let new_res = inc.new_document.add_object(dictionary! { "Marker" => "new page" });
            let new_page = inc.new_document.add_object(dictionary! { "Type" => "Page", "Parent" => pages_id, "Resources" => new_res });
            target_res = new_res;
            expect_new.insert(new_page);
            expect_new.insert(new_res);
            if let Err(e) = inc.add_xobject(new_page, "Im1", img) {
                return vec![mk("add_xobject-error", format!("{:?}", e))];
            }
        }
    }
    if variant != 2 {
        if let Err(e) = inc.add_xobject(page, "Im1", img) {
            return vec![mk("add_xobject-error", format!("{:?}", e))];
        }
    }
    let mut outb = vec![];
    if let Err(e) = inc.save_to(&mut outb) {
        return vec![mk("save", format!("{}", e))];
    }
    if !outb.starts_with(&bytes) {
        return vec![mk("prefix", "saved file does not start with the loaded bytes".into())];
    }
    let Ok(loaded) = Document::load_mem(&outb) else { return vec![mk("reload", "result does not load".into())] };
    let has_entry = |d: &Dictionary| d.get(b"XObject").and_then(Object::as_dict).map(|x| x.has(b"Im1")).unwrap_or(false);
    let in_target = loaded.get_dictionary(target_res).map(has_entry).unwrap_or(false);
    if !in_target {
        return vec![mk("entry-missing", format!("variant {}: the resources object the page uses ({:?}) has no /XObject /Im1 after add_xobject", variant, target_res))];
    }
    if variant != 0 {
        // the old resources object is untouched: same content as before, and not part of the update
        let same = loaded.get_dictionary(old_res).map(|d| !has_entry(d)).unwrap_or(false);
        if !same {
            return vec![mk("untouched-object-changed", format!("variant {}: resources object {:?}, which the page no longer uses, was changed", variant, old_res))];
        }
        let tail = &outb[bytes.len()..];
        let header = format!("{} {} obj", old_res.0, old_res.1);
        if tail.windows(header.len()).any(|w| w == header.as_bytes()) {
            return vec![mk("untouched-object-emitted", format!("variant {}: the update emits {:?} again although it was neither new nor replaced", variant, old_res))];
        }
    }
    let _ = expect_new;
    vec![]
}

pub fn run(cfg: &RunCfg) -> (PropMeta, ShardOut, Map<String, Value>) {
    let n = cfg.n(12_000, 400_000);
    let per = (n as usize + cfg.threads - 1) / cfg.threads;
    let out = shards(cfg.threads, |shard| {
        let mut out = ShardOut::default();
        for i in 0..per {
            let mut r = Rng::for_case(cfg.seed, TAG, shard as u64, i as u64);
            if i % 10 == 5 {
                out.evaluations += 1;
                for f in check_front_section(&mut r, &mut out) {
                    out.finding(f);
                }
            } else if i % 2 == 0 {
                let nb = 4 + r.usize_below(30);
                let h = if i % 80 == 38 { gen_long_history(&mut r) } else { gen_history(&mut r, nb, 4) };
                let style = if r.bool() { XrefStyle::Table } else { XrefStyle::Stream };
                let objstm = r.chance(3, 4);
                let wseed = r.next_u64();
                out.evaluations += 1;
                out.count(&format!("histories_with_{}_updates", if h.revisions.len() > 30 { "more_than_30".to_string() } else { (h.revisions.len() - 1).to_string() }));
                out.count(if style == XrefStyle::Table { "histories_xref_table" } else { "histories_xref_stream" });
                let fs = if i % 16 == 6 { check_history_with(&h, wseed, style, objstm, true, &mut out) } else { check_history(&h, wseed, style, objstm, &mut out) };
                out.digests.insert(crate::prng::fnv_bytes(format!("{:?}{:?}", h.revisions, wseed).as_bytes()));
                for f in fs {
                    out.finding(f);
                }
                if i == 0 {
                    out.sample(json!({"history_revisions":h.revisions.len(),"style":format!("{:?}",style),"objects_per_revision":h.revisions.iter().map(|r| r.objects.len()).collect::<Vec<_>>()}));
                }
            } else if i % 40 == 11 {
                for f in check_incremental_resources(&mut r, &mut out) {
                    out.finding(f);
                }
            } else {
                let fs = check_incremental(&mut r, &mut out);
                for f in fs {
                    out.finding(f);
                }
            }
        }
        out
    });
    let meta = PropMeta {
        level: "exploration",
        rule: "(a) random histories base + 1..4 update revisions (each replacing a random subset and adding objects, trailer changes; one history in forty has 34..70 small updates that leave most objects to the oldest sections; one in sixteen is written with update sections that repeat the stale Size of the revision they update) written by the reference writer (xref tables or xref streams, updated objects plain or inside object streams): Document::load_mem of every prefix must equal the latest-wins model; (b) random edit scripts (set_object, opt_clone_object_to_new_document + mutation, add_object) through IncrementalDocument on lopdf-written and reference-written bases, 1..3 steps, after each step: previous bytes are a prefix, get_prev_documents() unchanged, the strict reader finds only the touched objects and exactly one new section with Prev = previous startxref, the result loads to the model; (c) one case in ten is a file in the layout of linearized documents: the newest section stands in front of the (older) main section its Prev names, 0..2 ordinary updates appended - it must load to the latest-wins merge along the Prev chain and survive an incremental update; (d) one case in forty registers an XObject through IncrementalDocument on a loaded page, on a page whose Resources were re-pointed in the pending revision, or on a page created in it: the entry must land in the resources the page uses and the untouched old resources object must not be emitted again. distinct = distinct histories / final files.".into(),
        assumptions: vec![
            "one cross-reference style per file; hybrid files and objects freed in a later revision are outside the domain".into(),
            "raw CR/CRLF inside literal strings (C02's known finding) is switched off in the reference writer for this property".into(),
        ],
        exhaustive: false,
        min_distinct: 50,
    };
    (meta, out, Map::new())
}

pub fn replay(w: &Value) -> Vec<Finding> {
    match w.get("kind").and_then(|k| k.as_str()) {
        Some("history") => {
            let Some(expect) = w.get("expect").and_then(rdoc_from_json) else { return vec![] };
            let bytes = unhex(w.get("file_hex").and_then(|x| x.as_str()).unwrap_or(""));
            let containers: BTreeSet<u32> = w.get("containers").and_then(|a| a.as_array()).map(|a| a.iter().filter_map(|x| x.as_u64().map(|x| x as u32)).collect()).unwrap_or_default();
            let diffs = match crate::props::catch(|| Document::load_mem(&bytes)) {
                Err(p) => vec![((0, 0), format!("load_mem panicked: {}", p))],
                Ok(Err(e)) => vec![((0, 0), format!("load_mem failed: {:?}", e))],
                Ok(Ok(doc)) => crate::props::c02::diff_loaded(&expect, &doc, &containers),
            };
            if diffs.is_empty() {
                vec![]
            } else {
                vec![Finding { signature: w.get("signature").and_then(|s| s.as_str()).unwrap_or("C07/unknown").to_string(), what: diffs[0].1.clone(), witness: w.clone() }]
            }
        }
        Some("incremental-resources") => {
            // the scenario has three fixed variants chosen by the PRNG: run it often enough to meet all of them
            let mut o = ShardOut::default();
            let mut fs = vec![];
            for seed in 0..24u64 {
                let mut r = Rng::new(seed);
                fs.extend(check_incremental_resources(&mut r, &mut o));
            }
            fs.truncate(1);
            fs
        }
        _ => vec![],
    }
}
