//! C07 — incremental updates: latest revision wins, history preserved.
//! (a) reference-writer histories: load_mem of every prefix vs the latest-wins model;
//! (b) the same kind of edit scripts replayed through IncrementalDocument, checked after every
//!     step: prefix bytes, appended part (strict reader), prev view unchanged, reload == model.

use crate::bridge::*;
use crate::gen;
use crate::prng::Rng;
use crate::props::c02::{legal_doc, write_history};
use crate::refimpl::refwriter::*;
use crate::refimpl::robj::{RDoc, RObj};
use crate::refimpl::strictreader::{Entry, StrictReader};
use crate::util::*;
use lopdf::{Document, IncrementalDocument, Object};
use serde_json::{json, Map, Value};
use std::collections::{BTreeMap, BTreeSet};

pub const TAG: &str = "C07";

pub fn gen_history(r: &mut Rng, max_objects: usize, max_revs: usize) -> History {
    let d = legal_doc(r, max_objects);
    let mut h = History::from_doc(&d);
    let nrev = 1 + r.usize_below(max_revs);
    let mut cur = d.clone();
    for _ in 0..nrev {
        let mut rev = Revision { objects: BTreeMap::new(), trailer: cur.trailer.clone() };
        let ids: Vec<(u32, u16)> = cur.objects.keys().cloned().collect();
        let cfg = gen::ObjCfg { max_depth: 2, refs: true, ref_pool: ids.clone(), max_str: 20, max_children: 4 };
        let p = 1 + r.below(3);
        for id in &ids {
            if r.chance(p, 5) {
                let mut o = if matches!(cur.objects[id], RObj::Stream(..)) && r.bool() {
                    RObj::Stream(vec![], gen::stream_body(r, 40))
                } else {
                    gen::top_object(r, &cfg)
                };
                sanitize_for_refwriter(&mut o);
                rev.objects.insert(*id, o);
            }
        }
        let mx = cur.max_num();
        for k in 0..r.usize_below(4) as u32 {
            let mut o = gen::top_object(r, &cfg);
            sanitize_for_refwriter(&mut o);
            rev.objects.insert((mx + 1 + k, 0), o);
        }
        if r.chance(1, 3) {
            // trailer change (e.g. new Info)
            rev.trailer.retain(|(k, _)| k != b"Info");
            if let Some(id) = ids.first() {
                rev.trailer.push((b"Info".to_vec(), RObj::Ref(id.0, id.1)));
            }
        }
        for (id, o) in &rev.objects {
            cur.objects.insert(*id, o.clone());
        }
        cur.trailer = rev.trailer.clone();
        h.revisions.push(rev);
    }
    h
}

fn history_to_json(h: &History) -> Value {
    json!({"version":h.version,"revisions":h.revisions.iter().map(|r| {
        let mut d = RDoc::new(); d.objects = r.objects.clone(); d.trailer = r.trailer.clone(); rdoc_to_json(&d)
    }).collect::<Vec<_>>()})
}

/// where object `n` lives in each revision of the file (strict reader's view)
fn placements(file: &[u8], n: u32) -> String {
    match StrictReader::new(file).parse() {
        Err(_) => "?".into(),
        Ok(p) => p
            .sections
            .iter()
            .rev()
            .map(|s| match s.entries.get(&n) {
                Some(Entry::InUse { .. }) => "plain",
                Some(Entry::Compressed { .. }) => "objstm",
                Some(Entry::Free) => "free",
                None => "-",
            })
            .collect::<Vec<_>>()
            .join(">"),
    }
}

fn check_history(h: &History, wseed: u64, style: XrefStyle, objstm: bool, out: &mut ShardOut) -> Vec<Finding> {
    // the lexical layer is C02's subject; its known raw-CR finding is kept out of the histories
    let mut dis = BTreeSet::new();
    dis.insert("str-raw-cr-eol".to_string());
    dis.insert("str-raw-crlf-eol".to_string());
    let (w, used) = write_history(wseed, &dis, h, style, objstm);
    for f in used.keys() {
        if f.starts_with("object-streams") || f.starts_with("xref") || f.starts_with("indirect") {
            out.add(&format!("feature:{}", f), 1);
        }
    }
    let mut fs = vec![];
    for (ri, end) in w.revision_ends.iter().enumerate() {
        let file = &w.bytes[..*end];
        let expect = h.merged(ri);
        out.count(&format!("prefix_loads_rev{}", ri.min(4)));
        let diffs = match crate::props::catch(|| Document::load_mem(file)) {
            Err(p) => vec![((0, 0), format!("load_mem panicked: {}", p))],
            Ok(Err(e)) => vec![((0, 0), format!("load_mem failed: {:?}", e))],
            Ok(Ok(doc)) => crate::props::c02::diff_loaded(&expect, &doc, &w.container_ids),
        };
        if ri > 0 {
            let over = h.revisions[ri].objects.keys().filter(|id| h.merged(ri - 1).objects.contains_key(id)).count();
            out.add("overridden_objects_read_back", over as u64);
        }
        if let Some((id, msg)) = diffs.first() {
            // is it a stale copy (value of an older revision)? name the container transition
            let stale = (0..ri).rev().any(|k| {
                h.merged(k).objects.get(id).map(|old| {
                    // does the loaded value equal the old one?
                    Document::load_mem(file).ok().and_then(|d| d.objects.get(id).map(|o| robj_eq(old, &from_lo(o)))).unwrap_or(false)
                }).unwrap_or(false)
            });
            let sig = if stale {
                format!("C07/stale-object/{}", placements(&file[w.header_offset..], id.0))
            } else {
                format!("C07/prefix-load/{}", if msg.contains("missing") { "missing-object" } else if msg.contains("unexpected") { "extra-object" } else { "different-object" })
            };
            fs.push(Finding {
                signature: sig,
                what: format!("revision {} of {}: {}", ri, h.revisions.len() - 1, msg),
                witness: json!({"kind":"history","file_hex":hex(file),"expect":rdoc_to_json(&expect),"containers":w.container_ids.iter().collect::<Vec<_>>(),
                    "history":history_to_json(h),"style":format!("{:?}",style),"objstm":objstm,"revision":ri}),
            });
            break;
        }
    }
    fs
}

// ------------------------------------------------------------------ (b) IncrementalDocument

fn snapshot(d: &Document) -> RDoc {
    from_lo_doc(d)
}

fn check_incremental(r: &mut Rng, out: &mut ShardOut) -> Vec<Finding> {
    let nb = 3 + r.usize_below(20);
    let mut base = legal_doc(r, nb);
    // IncrementalDocument works on files lopdf can load; start from lopdf's own writer or the reference writer
    let xs = r.bool();
    let from_refwriter = r.chance(1, 3);
    let mut bytes: Vec<u8> = vec![];
    let mut containers: BTreeSet<u32> = BTreeSet::new();
    if from_refwriter {
        let mut dis = BTreeSet::new();
        dis.insert("str-raw-cr-eol".to_string());
        dis.insert("str-raw-crlf-eol".to_string());
        dis.insert("junk-before-header".to_string());
        let (w, _) = write_history(r.next_u64(), &dis, &History::from_doc(&base), if xs { XrefStyle::Stream } else { XrefStyle::Table }, r.bool());
        bytes = w.bytes;
        containers = w.container_ids;
    } else {
        let mut doc = to_lo_doc(&base, xs);
        if doc.save_to(&mut bytes).is_err() {
            return vec![];
        }
    }
    let mut expect = base.clone();
    let steps = 1 + r.usize_below(3);
    let mut fs = vec![];
    let mut mk = |sig: &str, what: String, bytes: &[u8]| Finding {
        signature: format!("C07/incremental/{}", sig),
        what,
        witness: json!({"kind":"incremental","file_hex":hex(bytes),"note":"bytes of the file on which the failing step was performed"}),
    };
    for step in 0..steps {
        let mut inc = match IncrementalDocument::load_from(&bytes[..]) {
            Ok(i) => i,
            Err(e) => {
                fs.push(mk("reload", format!("step {}: result of the previous step does not load as IncrementalDocument: {:?}", step, e), &bytes));
                return fs;
            }
        };
        let prev_before = snapshot(inc.get_prev_documents());
        let prev_startxref = inc.get_prev_documents().xref_start;
        // edits
        let ids: Vec<(u32, u16)> = expect.objects.keys().cloned().collect();
        let cfg = gen::ObjCfg { max_depth: 2, refs: true, ref_pool: if ids.is_empty() { vec![(1, 0)] } else { ids.clone() }, max_str: 20, max_children: 4 };
        let mut touched: BTreeSet<(u32, u16)> = BTreeSet::new();
        for id in &ids {
            match r.below(8) {
                0 => {
                    let mut o = gen::top_object(r, &cfg);
                    sanitize_for_refwriter(&mut o);
                    inc.new_document.set_object(*id, to_lo(&o));
                    expect.objects.insert(*id, o);
                    touched.insert(*id);
                    out.count("edit:set_object");
                }
                1 if matches!(expect.objects.get(id), Some(RObj::Dict(_))) => {
                    // copy-on-write clone then mutate in place (dictionary objects only: cloning
                    // an object that is itself a reference copies its target, by design)
                    if inc.opt_clone_object_to_new_document(*id).is_ok() {
                        if let Ok(Object::Dictionary(d)) = inc.new_document.get_object_mut(*id) {
                            d.set("Edited", Object::Integer(step as i64));
                            if let Some(RObj::Dict(ed)) = expect.objects.get_mut(id) {
                                ed.retain(|(k, _)| k != b"Edited");
                                ed.push((b"Edited".to_vec(), RObj::Int(step as i64)));
                            }
                        }
                        touched.insert(*id);
                        out.count("edit:clone+mutate");
                    }
                }
                _ => {}
            }
        }
        for _ in 0..r.usize_below(3) {
            let mut o = gen::top_object(r, &cfg);
            sanitize_for_refwriter(&mut o);
            let id = inc.new_document.add_object(to_lo(&o));
            if expect.objects.contains_key(&id) || containers.contains(&id.0) {
                fs.push(mk("fresh-id-collides", format!("step {}: add_object returned {:?}, which is already in use in the loaded file", step, id), &bytes));
                return fs;
            }
            expect.objects.insert(id, o);
            touched.insert(id);
            out.count("edit:add_object");
        }
        let mut outb = vec![];
        if let Err(e) = inc.save_to(&mut outb) {
            fs.push(mk("save", format!("step {}: save_to failed: {}", step, e), &bytes));
            return fs;
        }
        out.evaluations += 1;
        // 1. previous bytes unchanged as a prefix
        if !outb.starts_with(&bytes) {
            fs.push(mk("prefix", format!("step {}: saved file does not start with the previously loaded bytes", step), &bytes));
            return fs;
        }
        // 2. previous view unchanged
        if snapshot(inc.get_prev_documents()) != prev_before {
            fs.push(mk("prev-view", format!("step {}: get_prev_documents() changed during editing/saving", step), &bytes));
            return fs;
        }
        // 3. appended part: only touched objects + one xref section pointing back
        match StrictReader::new(&outb).parse() {
            Err(e) => {
                fs.push(mk("strict", format!("step {}: strict reader rejects the updated file: {}", step, e), &bytes));
                return fs;
            }
            Ok(p) => {
                let appended: Vec<(u32, u16)> = p.sequential.iter().filter(|(off, _)| **off >= bytes.len()).map(|(_, (id, _))| *id).collect();
                let newest = &p.sections[0];
                let allowed_extra = newest.xref_stream_id;
                for id in &appended {
                    if !touched.contains(id) && Some(id.0) != allowed_extra {
                        fs.push(mk("appended-untouched", format!("step {}: object {:?} was written although it was not added or replaced", step, id), &bytes));
                        return fs;
                    }
                }
                for id in &touched {
                    if !appended.contains(id) {
                        fs.push(mk("appended-missing", format!("step {}: edited object {:?} is not in the appended part", step, id), &bytes));
                        return fs;
                    }
                }
                if newest.offset < bytes.len() || newest.prev != Some(prev_startxref) {
                    fs.push(mk("prev-link", format!("step {}: new cross-reference section at {} has Prev {:?}, previous startxref was {}", step, newest.offset, newest.prev, prev_startxref), &bytes));
                    return fs;
                }
                let new_sections = p.sections.iter().filter(|s| s.offset >= bytes.len()).count();
                if new_sections != 1 {
                    fs.push(mk("sections", format!("step {}: {} cross-reference sections were appended", step, new_sections), &bytes));
                    return fs;
                }
                out.add("appended_objects_verified", appended.len() as u64);
                containers.extend(p.containers.iter().cloned());
            }
        }
        // 4. loads as Document == model
        match crate::props::catch(|| Document::load_mem(&outb)) {
            Ok(Ok(doc)) => {
                let diffs = crate::props::c02::diff_loaded(&{ let mut e = expect.clone(); e.version = base.version.clone(); e }, &doc, &containers);
                // trailer: IncrementalDocument copies the previous trailer
                if let Some((_, m)) = diffs.iter().find(|(id, _)| *id != (0, 65535)) {
                    fs.push(mk("reload-content", format!("step {}: reloaded document differs from the edit model: {}", step, m), &bytes));
                    return fs;
                }
            }
            Ok(Err(e)) => {
                fs.push(mk("reload", format!("step {}: updated file does not load: {:?}", step, e), &bytes));
                return fs;
            }
            Err(p) => {
                fs.push(mk("reload-panic", format!("step {}: loading the updated file panicked: {}", step, p), &bytes));
                return fs;
            }
        }
        bytes = outb;
        base.version = base.version.clone();
    }
    out.digests.insert(crate::prng::fnv_bytes(&bytes));
    fs
}

pub fn run(cfg: &RunCfg) -> (PropMeta, ShardOut, Map<String, Value>) {
    let n = cfg.n(12_000, 600_000);
    let per = (n as usize + cfg.threads - 1) / cfg.threads;
    let out = shards(cfg.threads, |shard| {
        let mut out = ShardOut::default();
        for i in 0..per {
            let mut r = Rng::for_case(cfg.seed, TAG, shard as u64, i as u64);
            if i % 2 == 0 {
                let nb = 4 + r.usize_below(30);
                let h = gen_history(&mut r, nb, 4);
                let style = if r.bool() { XrefStyle::Table } else { XrefStyle::Stream };
                let objstm = r.chance(3, 4);
                let wseed = r.next_u64();
                out.evaluations += 1;
                out.count(&format!("histories_with_{}_updates", h.revisions.len() - 1));
                out.count(if style == XrefStyle::Table { "histories_xref_table" } else { "histories_xref_stream" });
                let fs = check_history(&h, wseed, style, objstm, &mut out);
                out.digests.insert(crate::prng::fnv_bytes(format!("{:?}{:?}", h.revisions, wseed).as_bytes()));
                for f in fs {
                    out.finding(f);
                }
                if i == 0 {
                    out.sample(json!({"history_revisions":h.revisions.len(),"style":format!("{:?}",style),"objects_per_revision":h.revisions.iter().map(|r| r.objects.len()).collect::<Vec<_>>()}));
                }
            } else {
                let fs = check_incremental(&mut r, &mut out);
                for f in fs {
                    out.finding(f);
                }
            }
        }
        out
    });
    let meta = PropMeta {
        level: "exploration",
        rule: "(a) random histories base + 1..4 update revisions (each replacing a random subset and adding objects, trailer changes) written by the reference writer (xref tables or xref streams, updated objects plain or inside object streams): Document::load_mem of every prefix must equal the latest-wins model; (b) random edit scripts (set_object, opt_clone_object_to_new_document + mutation, add_object) through IncrementalDocument on lopdf-written and reference-written bases, 1..3 steps, after each step: previous bytes are a prefix, get_prev_documents() unchanged, the strict reader finds only the touched objects and exactly one new section with Prev = previous startxref, the result loads to the model. distinct = distinct histories / final files.".into(),
        assumptions: vec![
            "one cross-reference style per file; hybrid files and objects freed in a later revision are outside the domain".into(),
            "raw CR/CRLF inside literal strings (C02's known finding) is switched off in the reference writer for this property".into(),
        ],
        exhaustive: false,
        min_distinct: 50,
    };
    (meta, out, Map::new())
}

pub fn replay(w: &Value) -> Vec<Finding> {
    match w.get("kind").and_then(|k| k.as_str()) {
        Some("history") => {
            let Some(expect) = w.get("expect").and_then(rdoc_from_json) else { return vec![] };
            let bytes = unhex(w.get("file_hex").and_then(|x| x.as_str()).unwrap_or(""));
            let containers: BTreeSet<u32> = w.get("containers").and_then(|a| a.as_array()).map(|a| a.iter().filter_map(|x| x.as_u64().map(|x| x as u32)).collect()).unwrap_or_default();
            let diffs = match crate::props::catch(|| Document::load_mem(&bytes)) {
                Err(p) => vec![((0, 0), format!("load_mem panicked: {}", p))],
                Ok(Err(e)) => vec![((0, 0), format!("load_mem failed: {:?}", e))],
                Ok(Ok(doc)) => crate::props::c02::diff_loaded(&expect, &doc, &containers),
            };
            if diffs.is_empty() {
                vec![]
            } else {
                vec![Finding { signature: w.get("signature").and_then(|s| s.as_str()).unwrap_or("C07/unknown").to_string(), what: diffs[0].1.clone(), witness: w.clone() }]
            }
        }
        _ => vec![],
    }
}
