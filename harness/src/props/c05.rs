//! C05 — encrypt then decrypt restores every string and stream (lopdf against the model), and
//! C06 — the security handler agrees with the ISO 32000 algorithms (lopdf against the
//! independent reference handler of encmodel.rs / refimpl::sechandler, in both directions).

use crate::bridge::*;
use crate::encmodel::*;
use crate::gen;
use crate::prng::Rng;
use crate::refimpl::refwriter::{History, XrefStyle};
use crate::refimpl::robj::{RDoc, RObj};
use crate::refimpl::saslprep_pairs::PAIRS;
use crate::refimpl::sechandler::Cfm;
use crate::refimpl::strictreader::StrictReader;
use crate::util::*;
use lopdf::encryption::crypt_filters::{Aes128CryptFilter, Aes256CryptFilter, CryptFilter, IdentityCryptFilter, Rc4CryptFilter};
use lopdf::{Document, EncryptionState, EncryptionVersion, Permissions};
use serde_json::{json, Map, Value};
use std::collections::{BTreeMap, BTreeSet};
use std::sync::Arc;

fn k(s: &str) -> Vec<u8> {
    s.as_bytes().to_vec()
}
fn name(s: &str) -> RObj {
    RObj::Name(s.as_bytes().to_vec())
}

#[derive(Clone, Debug)]
pub struct Conf {
    /// 1, 2, 4, 5 (R5), 6 (V5/R6)
    pub kind: u8,
    pub key_bits: usize,
    pub stm: Cfm,
    pub strf: Cfm,
    /// a crypt filter named AltCF that neither StmF nor StrF refers to (V4+; only Crypt overrides select it)
    pub extra: Option<Cfm>,
    /// the identity transformation is selected through a crypt filter of its own name (NoCrypt) listed in CF
    pub identity_named: bool,
    pub encrypt_metadata: bool,
    pub perm_bits: u64,
    pub user: String,
    pub owner: String,
    pub user_prepared: Vec<u8>,
    pub owner_prepared: Vec<u8>,
    pub file_key: [u8; 32],
}

impl Conf {
    pub fn r(&self) -> i64 {
        match self.kind {
            1 => 2,
            2 => 3,
            4 => 4,
            5 => 5,
            _ => 6,
        }
    }
    pub fn v(&self) -> i64 {
        match self.kind {
            1 => 1,
            2 => 2,
            4 => 4,
            _ => 5,
        }
    }
    pub fn label(&self) -> String {
        format!("V{}R{}/{}bit/stm={:?}/str={:?}/alt={:?}{}/meta={}", self.v(), self.r(), self.key_bits, self.stm, self.strf, self.extra, if self.identity_named { "/identity-as-NoCrypt" } else { "" }, self.encrypt_metadata)
    }
    pub fn enc_cfg(&self) -> EncCfg {
        EncCfg {
            v: self.v(),
            r: self.r(),
            length_bits: self.key_bits,
            stm: self.stm,
            strf: self.strf,
            extra: self.extra.iter().map(|c| (b"AltCF".to_vec(), *c)).collect(),
            identity_name: if self.identity_named { Some(b"NoCrypt".to_vec()) } else { None },
            encrypt_metadata: self.encrypt_metadata,
            p: table22_p(self.perm_bits),
            user_pw: self.user_prepared.clone(),
            owner_pw: self.owner_prepared.clone(),
        }
    }
}

/// characters that PDFDocEncoding shares with Latin-1 (so the prepared form is unambiguous)
fn pdfdoc_password(r: &mut Rng) -> String {
    let n = match r.below(6) {
        0 => 0,
        1 => 33 + r.usize_below(20),
        _ => 1 + r.usize_below(16),
    };
    let latin = r.chance(1, 3);
    (0..n)
        .map(|_| {
            if latin && r.bool() {
                char::from_u32(0xC0 + r.below(0x3F) as u32).unwrap()
            } else if latin && r.chance(1, 3) {
                // characters PDFDocEncoding places elsewhere than Windows-1252 or Unicode do
                *r.pick(&['\u{20AC}', '\u{2022}', '\u{2020}', '\u{2026}', '\u{2014}', '\u{201C}', '\u{2122}', '\u{FB01}', '\u{0141}', '\u{0152}', '\u{0161}', '\u{017E}', '\u{0131}'])
            } else {
                (0x21 + r.below(0x5e) as u8) as char
            }
        })
        .collect()
}

/// PDFDocEncoding, codes 0x80..=0xA0 (ISO 32000-1 Annex D.2): the cells that differ from Latin-1 and Windows-1252
const PDFDOC_HIGH: [u32; 33] = [
    0x2022, 0x2020, 0x2021, 0x2026, 0x2014, 0x2013, 0x0192, 0x2044, 0x2039, 0x203A, 0x2212, 0x2030, 0x201E, 0x201C, 0x201D, 0x2018, 0x2019,
    0x201A, 0x2122, 0xFB01, 0xFB02, 0x0141, 0x0152, 0x0160, 0x0178, 0x017D, 0x0131, 0x0142, 0x0153, 0x0161, 0x017E, 0, 0x20AC,
];

fn prepare_r4(s: &str) -> Vec<u8> {
    // PDFDocEncoding image of a character: ASCII and the Latin-1 letters 0xA1..0xFF sit at their own code points,
    // the punctuation, ligatures and the euro sign of 0x80..0xA0 do not; characters without a cell are dropped
    s.chars()
        .filter_map(|c| {
            let u = c as u32;
            if (0x20..0x7F).contains(&u) || (0xA1..=0xFF).contains(&u) && u != 0xAD {
                Some(u as u8)
            } else {
                PDFDOC_HIGH.iter().position(|x| *x == u && u != 0).map(|i| 0x80 + i as u8)
            }
        })
        .collect()
}

/// the P word of ISO 32000-1 Table 22 for a set of granted permissions, computed without lopdf: the permission
/// bits 3-6 and 9-12 as granted, bits 1-2 clear, bits 7-8 and 13-32 set, read as a signed 32-bit integer.
/// (lopdf's Permissions flags sit at the Table 22 positions; only that correspondence is taken from lopdf.)
pub fn table22_p(granted: u64) -> i32 {
    const PERMISSION_BITS: u32 = 0b1111_0011_1100; // bits 3,4,5,6 and 9,10,11,12 (1-based)
    (((granted as u32) & PERMISSION_BITS) | 0xFFFF_F0C0) as i32
}

fn perm_sets() -> [u64; 8] {
    [Permissions::all().bits(), 0, Permissions::PRINTABLE.bits(), (Permissions::PRINTABLE | Permissions::COPYABLE).bits(), Permissions::MODIFIABLE.bits(), (Permissions::all() - Permissions::PRINTABLE_IN_HIGH_QUALITY).bits(), Permissions::FILLABLE.bits(), (Permissions::ASSEMBLABLE | Permissions::ANNOTABLE).bits()]
}

pub fn gen_conf(r: &mut Rng, index: u64) -> Conf {
    // enumerate the handler space round-robin, sample the rest
    let kinds: [(u8, usize); 16] = [(1, 40), (2, 40), (2, 48), (2, 56), (2, 64), (2, 72), (2, 80), (2, 88), (2, 96), (2, 104), (2, 112), (2, 120), (2, 128), (4, 128), (5, 256), (6, 256)];
    let (kind, key_bits) = if index % 3 == 0 { kinds[13 + (index / 3 % 3) as usize] } else { kinds[(index % 16) as usize] };
    let (stm, strf) = match kind {
        1 | 2 => (Cfm::Rc4, Cfm::Rc4),
        4 => {
            let f = [Cfm::Rc4, Cfm::AesV2, Cfm::Identity];
            (f[(index / 16 % 3) as usize], f[(index / 48 % 3) as usize])
        }
        _ => {
            let f = [Cfm::AesV3, Cfm::AesV3, Cfm::Identity];
            (f[(index / 16 % 3) as usize], f[(index / 48 % 3) as usize])
        }
    };
    let encrypt_metadata = if kind >= 4 { r.bool() } else { true };
    let extra = match kind {
        4 if r.chance(1, 2) => Some(if r.bool() { Cfm::Rc4 } else { Cfm::AesV2 }),
        5 | 6 if r.chance(1, 2) => Some(Cfm::AesV3),
        _ => None,
    };
    let perm_bits = perm_sets()[(index % 8) as usize];
    let (user, owner, up, op) = if kind <= 4 {
        let u = pdfdoc_password(r);
        let o = match r.below(5) {
            0 => u.clone(),
            1 => String::new(),
            _ => pdfdoc_password(r),
        };
        let (up, op) = (prepare_r4(&u), prepare_r4(&o));
        (u, o, up, op)
    } else {
        let valid: Vec<&(&str, Option<&str>)> = PAIRS.iter().filter(|p| p.1.is_some()).collect();
        // passwords whose prepared form exceeds the 127 significant bytes get their own share of the cases
        let long: Vec<&(&str, Option<&str>)> = valid.iter().filter(|p| p.1.map_or(false, |x| x.len() > 127)).cloned().collect();
        let (u, up) = if r.chance(1, 5) { **r.pick(&long) } else { **r.pick(&valid) };
        let (o, op) = if r.chance(1, 5) { (u, up) } else if r.chance(1, 5) { **r.pick(&long) } else { **r.pick(&valid) };
        (u.to_string(), o.to_string(), up.unwrap().as_bytes().to_vec(), op.unwrap().as_bytes().to_vec())
    };
    let mut file_key = [0u8; 32];
    for b in file_key.iter_mut() {
        *b = r.u8();
    }
    let identity_named = kind >= 4 && (stm == Cfm::Identity || strf == Cfm::Identity) && r.chance(1, 2);
    Conf { kind, key_bits, stm, strf, extra, identity_named, encrypt_metadata, perm_bits, user, owner, user_prepared: up, owner_prepared: op, file_key }
}

/// document with strings in every position, binary/empty strings and streams, a Metadata stream,
/// compressed streams and per-stream Crypt overrides (V4+)
pub fn gen_doc(r: &mut Rng, with_crypt_override: bool) -> RDoc {
    gen_doc_with(r, with_crypt_override, false)
}

/// `stale_objstm`: the document also keeps an object stream that packs an outdated copy of one of its objects, as a
/// document loaded from a file with object streams and edited afterwards does
pub fn gen_doc_with(r: &mut Rng, with_crypt_override: bool, stale_objstm: bool) -> RDoc {
    let mut d = RDoc::new();
    let n = 2 + r.usize_below(8);
    let strv = |r: &mut Rng| -> RObj {
        let len = match r.below(7) {
            0 => 0,
            1 => 16,
            2 => 1 + r.usize_below(15),
            // (longer than one turn of the RC4 state, several AES blocks)
            3 => 250 + r.usize_below(600),
            _ => 16 + r.usize_below(40),
        };
        RObj::Str(if r.bool() { r.bytes(len) } else { (0..len).map(|_| 0x20 + r.u8() % 0x5f).collect() }, r.bool())
    };
    d.objects.insert((1, 0), RObj::Dict(vec![(k("Type"), name("Catalog")), (k("Lang"), strv(r)), (k("Names"), RObj::Array(vec![strv(r), RObj::Dict(vec![(k("S"), strv(r)), (k("N"), RObj::Int(3))]), RObj::Array(vec![strv(r)])]))]));
    for i in 0..n {
        let id = (2 + i as u32, if r.chance(1, 8) { 3 } else { 0 });
        let o = match r.below(4) {
            0 => strv(r),
            1 => RObj::Array((0..r.usize_below(4)).map(|_| strv(r)).collect()),
            2 => RObj::Dict(vec![(k("A"), strv(r)), (k("B"), RObj::Dict(vec![(k("C"), strv(r))])), (k("R"), RObj::Ref(1, 0))]),
            _ => {
                let len = match r.below(6) {
                    0 => 0,
                    1 => 16,
                    2 => 255 + r.usize_below(1500),
                    _ => r.usize_below(200),
                };
                let body = if r.bool() { r.bytes(len) } else { b"BT (text) Tj ET ".iter().cycle().take(len).cloned().collect() };
                let mut sd = vec![(k("Title"), strv(r))];
                if r.chance(1, 4) {
                    sd.push((k("Filter"), name("FlateDecode")));
                }
                if with_crypt_override && r.chance(1, 4) {
                    let nm = *r.pick(&["Identity", "StdCF", "FRC4", "Nope", "AltCF", "AltCF"]);
                    let mut dp = vec![(k("Type"), name("CryptFilterDecodeParms"))];
                    if r.chance(3, 4) {
                        dp.push((k("Name"), name(nm)));
                    }
                    sd.retain(|(kk, _)| kk != b"Filter");
                    sd.push((k("Filter"), RObj::Array(vec![name("Crypt")])));
                    // the decode parameters may be left out, or be the null of a parallel array: all defaults, and the
                    // default of Name is Identity (ISO 32000-1 Table 14)
                    match r.below(8) {
                        0 => {}
                        1 => sd.push((k("DecodeParms"), RObj::Array(vec![RObj::Null]))),
                        _ => sd.push((k("DecodeParms"), RObj::Dict(dp))),
                    }
                }
                RObj::Stream(sd, body)
            }
        };
        d.objects.insert(id, o);
    }
    // now and then an object number that does not fit into three bytes: Algorithm 1 takes the low-order three bytes
    // of the number and the low-order two of the generation, nothing else
    if r.chance(1, 24) {
        let num = *r.pick(&[0x00FF_FFFFu32, 0x0100_0000, 0x0100_0010, 0x0134_5678, 0x0100_0001]);
        let gen = if r.chance(1, 3) { 2 } else { 0 };
        let body = r.bytes(40);
        d.objects.insert((num, gen), if r.bool() { strv(r) } else { RObj::Stream(vec![(k("Title"), strv(r))], body) });
        d.objects.insert((num + 1, 0), RObj::Array(vec![strv(r), strv(r)]));
    }
    let mid = (20, 0);
    d.objects.insert(mid, RObj::Stream(vec![(k("Type"), name("Metadata")), (k("Subtype"), name("XML")), (k("Note"), strv(r))], b"<x:xmpmeta>metadata that is at least sixteen bytes</x:xmpmeta>".to_vec()));
    if let Some(RObj::Dict(c)) = d.objects.get_mut(&(1, 0)) {
        c.push((k("Metadata"), RObj::Ref(20, 0)));
    }
    if stale_objstm {
        let victims: Vec<(u32, u16)> = d.objects.iter().filter(|(id, o)| id.1 == 0 && !matches!(o, RObj::Stream(..))).map(|(id, _)| *id).collect();
        if !victims.is_empty() {
            let v = *r.pick(&victims);
            let index = format!("{} 0 ", v.0);
            let body = format!("{}(outdated copy kept in an object stream)", index);
            d.objects.insert((26, 0), RObj::Stream(vec![(k("Type"), name("ObjStm")), (k("N"), RObj::Int(1)), (k("First"), RObj::Int(index.len() as i64))], body.into_bytes()));
        }
    }
    d.trailer = vec![(k("Root"), RObj::Ref(1, 0)), (k("ID"), RObj::Array(vec![RObj::Str(r.bytes(16), true), RObj::Str(r.bytes(16), true)]))];
    let _ = gen::HOSTILE;
    d
}

fn filter_arc(c: Cfm) -> Arc<dyn CryptFilter> {
    match c {
        Cfm::Identity => Arc::new(IdentityCryptFilter),
        Cfm::Rc4 => Arc::new(Rc4CryptFilter),
        Cfm::AesV2 => Arc::new(Aes128CryptFilter),
        Cfm::AesV3 => Arc::new(Aes256CryptFilter),
    }
}
fn filter_name(c: Cfm) -> &'static str {
    match c {
        Cfm::Identity => "Identity",
        Cfm::Rc4 => "FRC4",
        Cfm::AesV2 | Cfm::AesV3 => "StdCF",
    }
}

pub fn lopdf_state(conf: &Conf, doc: &Document) -> Result<EncryptionState, String> {
    let permissions = Permissions::from_bits_truncate(conf.perm_bits);
    let mut cfs: BTreeMap<Vec<u8>, Arc<dyn CryptFilter>> = BTreeMap::new();
    for c in [conf.stm, conf.strf] {
        if c != Cfm::Identity {
            cfs.insert(filter_name(c).as_bytes().to_vec(), filter_arc(c));
        } else if conf.identity_named {
            cfs.insert(b"NoCrypt".to_vec(), filter_arc(Cfm::Identity));
        }
    }
    let filter_name = |c: Cfm| -> &'static str {
        if c == Cfm::Identity && conf.identity_named {
            "NoCrypt"
        } else {
            filter_name(c)
        }
    };
    if let Some(c) = conf.extra {
        cfs.insert(b"AltCF".to_vec(), filter_arc(c));
    }
    let version = match conf.kind {
        1 => EncryptionVersion::V1 { document: doc, owner_password: &conf.owner, user_password: &conf.user, permissions },
        2 => EncryptionVersion::V2 { document: doc, owner_password: &conf.owner, user_password: &conf.user, key_length: conf.key_bits, permissions },
        4 => EncryptionVersion::V4 { document: doc, encrypt_metadata: conf.encrypt_metadata, crypt_filters: cfs, stream_filter: filter_name(conf.stm).as_bytes().to_vec(), string_filter: filter_name(conf.strf).as_bytes().to_vec(), owner_password: &conf.owner, user_password: &conf.user, permissions },
        #[allow(deprecated)]
        5 => EncryptionVersion::R5 { encrypt_metadata: conf.encrypt_metadata, crypt_filters: cfs, file_encryption_key: &conf.file_key, stream_filter: filter_name(conf.stm).as_bytes().to_vec(), string_filter: filter_name(conf.strf).as_bytes().to_vec(), owner_password: &conf.owner, user_password: &conf.user, permissions },
        _ => EncryptionVersion::V5 { encrypt_metadata: conf.encrypt_metadata, crypt_filters: cfs, file_encryption_key: &conf.file_key, stream_filter: filter_name(conf.stm).as_bytes().to_vec(), string_filter: filter_name(conf.strf).as_bytes().to_vec(), owner_password: &conf.owner, user_password: &conf.user, permissions },
    };
    EncryptionState::try_from(version).map_err(|e| format!("{:?}", e))
}

/// which filter a stream is subject to (Crypt override per ISO 32000 7.6.5)
fn stream_filter_for(conf: &Conf, sd: &[(Vec<u8>, RObj)]) -> Cfm {
    let has_crypt = match RObj::dict_get(sd, b"Filter") {
        Some(RObj::Array(a)) => a.contains(&name("Crypt")),
        Some(RObj::Name(n)) => n == b"Crypt",
        _ => false,
    };
    if conf.kind >= 4 && has_crypt {
        let nm = match RObj::dict_get(sd, b"DecodeParms") {
            Some(RObj::Dict(dp)) => match RObj::dict_get(dp, b"Name") {
                Some(RObj::Name(n)) => n.clone(),
                _ => b"Identity".to_vec(),
            },
            _ => b"Identity".to_vec(),
        };
        if nm == filter_name(conf.stm).as_bytes() && conf.stm != Cfm::Identity {
            return conf.stm;
        }
        if nm == filter_name(conf.strf).as_bytes() && conf.strf != Cfm::Identity {
            return conf.strf;
        }
        if let (b"AltCF", Some(c)) = (&nm[..], conf.extra) {
            return c;
        }
        return Cfm::Identity;
    }
    conf.stm
}

fn plaintext_leaks(conf: &Conf, plain: &RDoc, enc: &RDoc) -> Option<String> {
    for (id, p) in &plain.objects {
        let Some(e) = enc.objects.get(id) else { continue };
        let meta_exempt = matches!(p, RObj::Stream(d, _) if RObj::dict_get(d, b"Type") == Some(&name("Metadata"))) && !conf.encrypt_metadata;
        if meta_exempt {
            continue;
        }
        // strings (also inside stream dictionaries)
        if conf.strf != Cfm::Identity {
            let mut ps: Vec<&Vec<u8>> = vec![];
            let mut es: Vec<&Vec<u8>> = vec![];
            p.walk(&mut |x| {
                if let RObj::Str(s, _) = x {
                    ps.push(s)
                }
            });
            e.walk(&mut |x| {
                if let RObj::Str(s, _) = x {
                    es.push(s)
                }
            });
            for (a, b) in ps.iter().zip(es.iter()) {
                if a.len() >= 16 && a == b {
                    let in_stream_dict = matches!(p, RObj::Stream(..));
                    return Some(format!("string of {} bytes in object {} {}{} is still in clear after encrypt", a.len(), id.0, id.1, if in_stream_dict { " (stream dictionary)" } else { "" }));
                }
            }
        }
        if let (RObj::Stream(sd, pc), RObj::Stream(_, ec)) = (p, e) {
            if stream_filter_for(conf, sd) != Cfm::Identity && pc.len() >= 16 && pc == ec {
                return Some(format!("stream {} {} ({} bytes) is still in clear after encrypt", id.0, id.1, pc.len()));
            }
        }
    }
    None
}

fn wrong_password(conf: &Conf) -> String {
    if conf.kind <= 4 {
        // differs from both prepared passwords within the first 32 bytes
        for c in ["Q", "zz9", "#wrong#"] {
            let w = format!("{}{}", c, conf.user);
            let (wp, up, op) = (prepare_r4(&w), &conf.user_prepared, &conf.owner_prepared);
            let t = |v: &[u8]| v[..v.len().min(32)].to_vec();
            if t(&wp) != t(up) && t(&wp) != t(op) {
                return w;
            }
        }
        "definitely-not-it".into()
    } else {
        for w in ["wrong", "Wrong2", "x"] {
            if w.as_bytes() != conf.user_prepared.as_slice() && w.as_bytes() != conf.owner_prepared.as_slice() {
                return w.to_string();
            }
        }
        "w".into()
    }
}

fn diff_plain(exp: &RDoc, got: &Document) -> Option<String> {
    let g = from_lo_doc(got);
    diff_docs(exp, &g, false, &|_, o| is_xref_stream_obj(o)).into_iter().map(|(_, s)| s).next()
}

/// C05: lopdf against itself, judged by the model
pub fn c05_case(conf: &Conf, model: &RDoc, r: &mut Rng) -> Option<(String, String)> {
    let base = to_lo_doc(model, r.bool());
    let state = match crate::props::catch(|| lopdf_state(conf, &base)) {
        Err(p) => return Some(("state-panic".into(), format!("EncryptionState::try_from panicked: {}", p))),
        Ok(Err(e)) => return Some(("state-error".into(), format!("EncryptionState::try_from failed: {}", e))),
        Ok(Ok(s)) => s,
    };
    let mut enc = base.clone();
    match crate::props::catch(|| enc.encrypt(&state)) {
        Err(p) => return Some(("encrypt-panic".into(), format!("encrypt panicked: {}", p))),
        Ok(Err(e)) => return Some(("encrypt-error".into(), format!("encrypt failed: {:?}", e))),
        Ok(Ok(())) => {}
    }
    // (b) nothing subject to a non-identity filter is still in clear
    if let Some(m) = plaintext_leaks(conf, model, &from_lo_doc(&enc)) {
        return Some((if m.contains("stream dictionary") { "leak/string-in-stream-dict".into() } else { "leak".into() }, m));
    }
    // (c) wrong password: error, document unchanged
    let wrong = wrong_password(conf);
    let mut w = enc.clone();
    match crate::props::catch(|| w.decrypt(&wrong)) {
        Err(p) => return Some(("wrong-password-panic".into(), format!("decrypt with a wrong password panicked: {}", p))),
        Ok(Ok(())) => return Some(("wrong-password-accepted".into(), format!("decrypt accepted the password {:?} (user {:?}, owner {:?})", wrong, conf.user, conf.owner))),
        Ok(Err(_)) => {
            if from_lo_doc(&w) != from_lo_doc(&enc) {
                return Some(("wrong-password-changed-document".into(), "a rejected password left the document modified".into()));
            }
        }
    }
    // (a) decrypt with user and with owner password, in memory and after save + load
    let mut saved = vec![];
    let mut tosave = enc.clone();
    if let Err(e) = tosave.save_to(&mut saved) {
        return Some(("save".into(), format!("saving the encrypted document failed: {}", e)));
    }
    for (who, pw) in [("user", &conf.user), ("owner", &conf.owner)] {
        for via_file in [false, true] {
            let mut d = if via_file {
                match crate::props::catch(|| Document::load_mem(&saved)) {
                    Err(p) => return Some(("reload-panic".into(), format!("loading the encrypted file panicked: {}", p))),
                    Ok(Err(e)) => return Some(("reload".into(), format!("encrypted file does not load: {:?}", e))),
                    Ok(Ok(d)) => d,
                }
            } else {
                enc.clone()
            };
            if d.is_encrypted() {
                match crate::props::catch(|| d.decrypt(pw)) {
                    Err(p) => return Some((format!("decrypt-panic/{}", who), format!("decrypt({}) panicked: {}", who, p))),
                    Ok(Err(e)) => return Some((format!("decrypt-error/{}", who), format!("decrypt with the {} password failed{}: {:?} [{}]", who, if via_file { " after save+load" } else { "" }, e, conf.label()))),
                    Ok(Ok(())) => {}
                }
            }
            if d.trailer.has(b"Encrypt") || d.is_encrypted() {
                return Some(("encrypt-dict-left".into(), "the encryption dictionary is still present after decrypt".into()));
            }
            // object streams are file-structure containers: the writer leaves them out on purpose, so they are not
            // expected back after save + load
            let mut expected = model.clone();
            if via_file {
                expected.objects.retain(|_, o| !matches!(o, RObj::Stream(d, _) if RObj::dict_get(d, b"Type") == Some(&name("ObjStm"))));
            }
            if let Some(m) = diff_plain(&expected, &d) {
                return Some((format!("plaintext/{}", who), format!("after decrypt with the {} password{}: {} [{}]", who, if via_file { " (save+load)" } else { "" }, m, conf.label())));
            }
        }
    }
    None
}

/// C06 direction lopdf -> reference
pub fn c06_lopdf_to_ref(conf: &Conf, model: &RDoc, r: &mut Rng) -> Option<(String, String)> {
    let mut doc = to_lo_doc(model, r.bool());
    let state = match lopdf_state(conf, &doc) {
        Ok(s) => s,
        Err(e) => return Some(("state-error".into(), e)),
    };
    if let Err(e) = doc.encrypt(&state) {
        return Some(("encrypt-error".into(), format!("{:?}", e)));
    }
    let mut bytes = vec![];
    if let Err(e) = doc.save_to(&mut bytes) {
        return Some(("save".into(), e.to_string()));
    }
    let parsed = match StrictReader::new(&bytes).parse() {
        Ok(p) => p,
        Err(e) => return Some(("strict-reader".into(), format!("strict reader rejects the encrypted file: {}", e))),
    };
    let Some(RObj::Ref(en, eg)) = RObj::dict_get(&parsed.doc.trailer, b"Encrypt") else { return Some(("no-encrypt-entry".into(), "trailer has no /Encrypt reference".into())) };
    let Some(RObj::Dict(ed)) = parsed.doc.objects.get(&(*en, *eg)) else { return Some(("no-encrypt-dict".into(), "Encrypt does not refer to a dictionary".into())) };
    let id0 = match RObj::dict_get(&parsed.doc.trailer, b"ID") {
        Some(RObj::Array(a)) => match a.first() {
            Some(RObj::Str(s, _)) => s.clone(),
            _ => vec![],
        },
        _ => vec![],
    };
    let (mut cfg, d) = match parse_encdict(ed, &id0) {
        Ok(x) => x,
        Err(e) => return Some(("encrypt-dict".into(), format!("encryption dictionary is not usable by an independent reader: {}", e))),
    };
    cfg.user_pw = conf.user_prepared.clone();
    cfg.owner_pw = conf.owner_prepared.clone();
    if !p_conforms(d.p, d.r) {
        return Some(("p-reserved-bits".into(), format!("P = {} ({:#x}) does not have its reserved bits set as ISO 32000 Table 22 requires", d.p, d.p as u32)));
    }
    // the permissions a conforming reader will enforce are the ones the caller granted, no more and no fewer
    if d.p != table22_p(conf.perm_bits) {
        return Some(("p-value".into(), format!("P = {} ({:#x}) written by lopdf, the granted permissions give {} ({:#x}) by Table 22", d.p, d.p as u32, table22_p(conf.perm_bits), table22_p(conf.perm_bits) as u32)));
    }
    let mut keys = vec![];
    for (who, pw) in [("user", &conf.user_prepared), ("owner", &conf.owner_prepared)] {
        match authenticate(&d, pw) {
            None => return Some((format!("ref-auth/{}", who), format!("the reference handler cannot authenticate the {} password against O/U written by lopdf [{}]", who, conf.label()))),
            Some((kk, _)) => keys.push(kk),
        }
    }
    if keys[0] != keys[1] {
        return Some(("ref-auth/keys-differ".into(), "user and owner password yield different file keys".into()));
    }
    if d.r >= 5 {
        if std::env::var("VH_DEBUG").is_ok() {
            eprintln!("DEBUG conf.file_key={} recovered={} U={} UE={} Perms={} P={}", hex(&conf.file_key), hex(&keys[0]), hex(&d.u), hex(&d.ue), hex(&d.perms), d.p);
        }
        if let Err(e) = crate::refimpl::sechandler::alg13_perms_ok(&d, &keys[0]) {
            return Some(("perms".into(), format!("Perms entry written by lopdf fails Algorithm 13: {}", e)));
        }
    }
    let mut encdoc = parsed.doc.clone();
    encdoc.objects.retain(|id, _| !parsed.containers.contains(&id.0));
    if let Some(m) = aes_shape_violation(&encdoc, &cfg, Some((*en, *eg))) {
        return Some(("aes-ciphertext-shape".into(), format!("{} [{}]", m, conf.label())));
    }
    let dec = match decrypt_doc(&encdoc, &cfg, &keys[0], Some((*en, *eg))) {
        Ok(x) => x,
        Err(e) => return Some(("ref-decrypt".into(), format!("the reference handler cannot decrypt lopdf's ciphertext: {} [{}]", e, conf.label()))),
    };
    let mut dec = dec;
    dec.objects.remove(&(*en, *eg));
    let mut exp = model.clone();
    exp.trailer.push((k("Encrypt"), RObj::Ref(*en, *eg)));
    let diffs = diff_docs(&exp, &dec, false, &|_, _| false);
    diffs.first().map(|(_, m)| {
        (if m.contains("stream dictionary") || strings_in_stream_dict_differ(model, &dec) { "plaintext/string-in-stream-dict".to_string() } else { "plaintext".to_string() }, format!("plaintext recovered by the reference handler differs: {} [{}]", m, conf.label()))
    })
}

fn strings_in_stream_dict_differ(a: &RDoc, b: &RDoc) -> bool {
    for (id, o) in &a.objects {
        if let (RObj::Stream(d1, c1), Some(RObj::Stream(d2, c2))) = (o, b.objects.get(id)) {
            if c1 == c2 && !robj_eq(&RObj::Dict(d1.clone()), &RObj::Dict(d2.clone())) {
                return true;
            }
        }
    }
    false
}

/// `model` encrypted by the reference handler under `conf` and written by the reference writer (classic table, the
/// model's stream objects as they are - object streams among them stay ordinary, encrypted, stream objects)
pub fn reference_encrypted_file(conf: &Conf, model: &RDoc, r: &mut Rng) -> Vec<u8> {
    let cfg = conf.enc_cfg();
    let id0 = match RObj::dict_get(&model.trailer, b"ID") {
        Some(RObj::Array(a)) => match a.first() {
            Some(RObj::Str(s, _)) => s.clone(),
            _ => vec![],
        },
        _ => vec![],
    };
    let (d, key) = make_encdict(&cfg, &id0, r);
    let enc_id = (model.max_num() + 1, 0u16);
    let mut enc = encrypt_doc(model, &cfg, &key, r, None);
    enc.objects.insert(enc_id, encdict_obj(&cfg, &d));
    enc.trailer.push((k("Encrypt"), RObj::Ref(enc_id.0, 0)));
    let mut dis = BTreeSet::new();
    for f in ["str-raw-cr-eol", "str-raw-crlf-eol"] {
        dis.insert(f.to_string());
    }
    crate::props::c02::write_history(r.next_u64(), &dis, &History::from_doc(&enc), XrefStyle::Table, false).0.bytes
}

/// C06 direction reference -> lopdf
pub fn c06_ref_to_lopdf(conf: &Conf, model: &RDoc, r: &mut Rng) -> Option<(String, String)> {
    let cfg = conf.enc_cfg();
    let id0 = match RObj::dict_get(&model.trailer, b"ID") {
        Some(RObj::Array(a)) => match a.first() {
            Some(RObj::Str(s, _)) => s.clone(),
            _ => vec![],
        },
        _ => vec![],
    };
    // absent owner password: Algorithm 3 step (a)
    let mut cfg2 = cfg.clone();
    let absent_owner = conf.owner.is_empty() && conf.kind <= 4;
    if absent_owner {
        cfg2.owner_pw = vec![];
    }
    let (d, key) = make_encdict(&cfg2, &id0, r);
    let enc_id = (model.max_num() + 1, 0u16);
    let mut enc = encrypt_doc(model, &cfg2, &key, r, None);
    enc.objects.insert(enc_id, encdict_obj(&cfg2, &d));
    enc.trailer.push((k("Encrypt"), RObj::Ref(enc_id.0, 0)));
    let mut dis = BTreeSet::new();
    for f in ["str-raw-cr-eol", "str-raw-crlf-eol"] {
        dis.insert(f.to_string());
    }
    let (w, _) = crate::props::c02::write_history(r.next_u64(), &dis, &History::from_doc(&enc), if r.bool() { XrefStyle::Table } else { XrefStyle::Stream }, false);
    let passwords: Vec<(&str, String)> = if absent_owner { vec![("user", conf.user.clone())] } else { vec![("user", conf.user.clone()), ("owner", conf.owner.clone())] };
    for (who, pw) in passwords {
        let mut doc = match crate::props::catch(|| Document::load_mem(&w.bytes)) {
            Err(p) => return Some(("load-panic".into(), format!("loading a reference-encrypted file panicked: {}", p))),
            Ok(Err(e)) => return Some(("load".into(), format!("a reference-encrypted file does not load: {:?} [{}]", e, conf.label()))),
            Ok(Ok(d)) => d,
        };
        if doc.is_encrypted() {
            match crate::props::catch(|| doc.decrypt(&pw)) {
                Err(p) => return Some((format!("decrypt-panic/{}", who), format!("decrypt panicked: {}", p))),
                Ok(Err(e)) => return Some((format!("decrypt-error/{}", who), format!("lopdf cannot open a file encrypted by the reference handler with the {} password: {:?} [{}]", who, e, conf.label()))),
                Ok(Ok(())) => {}
            }
        } else if !conf.user_prepared.is_empty() && !conf.owner_prepared.is_empty() {
            // (an empty prepared owner password legitimately authenticates the empty string too)
            return Some(("auto-decrypted".into(), "the loader decrypted the file although the user password is not empty".into()));
        }
        let got = from_lo_doc(&doc);
        let diffs = diff_docs(model, &got, false, &|id, _| w.container_ids.contains(&id.0));
        if let Some((_, m)) = diffs.first() {
            return Some((
                if strings_in_stream_dict_differ(model, &got) { format!("plaintext/{}/string-in-stream-dict", who) } else { format!("plaintext/{}", who) },
                format!("lopdf's plaintext after decrypt({}) differs from what the reference handler encrypted: {} [{}]", who, m, conf.label()),
            ));
        }
    }
    None
}

fn run_generic(cfg: &RunCfg, tag: &'static str, n_quick: u64, n_thorough: u64, f: &(dyn Fn(&Conf, &RDoc, &mut Rng, u64) -> Vec<(String, String)> + Sync)) -> ShardOut {
    let n = cfg.n(n_quick, n_thorough);
    let per = (n as usize + cfg.threads - 1) / cfg.threads;
    shards(cfg.threads, |shard| {
        let mut out = ShardOut::default();
        for i in 0..per {
            let gi = (i * cfg.threads + shard) as u64;
            let mut r = Rng::for_case(cfg.seed, tag, shard as u64, i as u64);
            let conf = gen_conf(&mut r, gi);
            let model = gen_doc_with(&mut r, conf.kind >= 4, tag == "C05" && gi % 4 == 1);
            out.evaluations += 1;
            out.count(&format!("config:V{}R{}/{}", conf.v(), conf.r(), conf.key_bits));
            if conf.kind >= 4 {
                out.count(&format!("filters:stm={:?},str={:?}", conf.stm, conf.strf));
            }
            out.digests.insert(crate::prng::fnv(&format!("{}|{:?}|{:?}", conf.label(), conf.user, conf.owner)) ^ gen::digest_rdoc(&model));
            for (sig, what) in f(&conf, &model, &mut r, gi) {
                out.finding(Finding {
                    signature: format!("{}/{}", tag, sig),
                    what,
                    witness: json!({"kind":"enc","prop":tag,"seed":cfg.seed,"shard":shard,"index":i,"global_index":gi,"config":conf.label(),"conf":conf_to_json(&conf),"user":conf.user,"owner":conf.owner,"doc":rdoc_to_json(&model)}),
                });
            }
            if i == 0 {
                out.sample(json!({"config":conf.label(),"user_password":conf.user,"owner_password":conf.owner,"objects":model.objects.len()}));
            }
        }
        out
    })
}

pub fn run_c05(cfg: &RunCfg) -> (PropMeta, ShardOut, Map<String, Value>) {
    let out = run_generic(cfg, "C05", 1600, 60_000, &|conf, model, r, _| c05_case(conf, model, r).into_iter().collect());
    let meta = PropMeta {
        level: "exploration",
        rule: "security-handler configurations enumerated round-robin ({V1; V2 with 40..128-bit keys; V4 with RC4/AESV2/Identity chosen independently for streams and strings; R5; V5} x EncryptMetadata x 8 permission sets) with sampled password pairs (empty, ASCII, Latin-1, > 32 bytes, SASLprep-sensitive Unicode and > 127 bytes for R5/R6, owner == user, empty owner) and documents with strings nested in arrays/dictionaries/stream dictionaries, binary and empty strings/streams, object numbers beyond 2^24 now and then, a Metadata stream, compressed streams and per-stream Crypt overrides (naming Identity, the default filters, an unknown filter, or - in half of the V4+ configurations - a further crypt filter AltCF listed in CF that neither StmF nor StrF refers to). Per case: encrypt; no string/stream >= 16 bytes under a non-identity filter still equals its plaintext; a wrong password is rejected and leaves the document unchanged; decrypt with the user and with the owner password, in memory and after save_to + load_mem, restores every byte and removes the encryption dictionary. distinct = distinct (configuration, passwords, document).".into(),
        assumptions: vec!["R<=4 passwords are drawn from ASCII and Latin-1 letters (identical in PDFDocEncoding); R>=5 passwords come from the Python-generated SASLprep table".into()],
        exhaustive: false,
        min_distinct: 200,
    };
    (meta, out, Map::new())
}

pub fn run_c06(cfg: &RunCfg) -> (PropMeta, ShardOut, Map<String, Value>) {
    let out = run_generic(cfg, "C06", 1200, 40_000, &|conf, model, r, gi| {
        let mut v = vec![];
        if gi % 2 == 0 {
            v.extend(c06_ref_to_lopdf(conf, model, r).map(|(s, w)| (format!("ref->lopdf/{}", s), w)));
        } else {
            v.extend(c06_lopdf_to_ref(conf, model, r).map(|(s, w)| (format!("lopdf->ref/{}", s), w)));
        }
        v
    });
    let meta = PropMeta {
        level: "exploration",
        rule: "both directions against an independent implementation of ISO 32000 Algorithms 1, 1.A, 2, 2.A, 2.B, 3-13 (own MD5/SHA-2/AES/RC4): (ref -> lopdf) documents encrypted by the reference handler with fresh IDs, salts, IVs and file keys, written by the reference writer, opened by Document::load_mem + decrypt with the user and the owner password (absent owner password included); (lopdf -> ref) documents encrypted and saved by lopdf, parsed by the strict reader, both passwords authenticated by the reference handler from O/U/OE/UE/Perms/P/Length/V/R/CF/StmF/StrF, every string (also in stream dictionaries) and stream decrypted and compared with the original; Perms checked with Algorithm 13 and P's reserved bits with Table 22. Revisions 2-6, all RC4 key lengths, RC4/AESV2/AESV3/Identity, non-default crypt filters selected by per-stream Crypt overrides, EncryptMetadata, 8 permission words. lopdf's agreement with itself is never consulted. distinct = distinct (configuration, passwords, document).".into(),
        assumptions: vec!["reference primitives verified against RFC/FIPS vectors and cross-checked with openssl/hashlib during development; SASLprep expectations come from Python's stringprep tables".into()],
        exhaustive: false,
        min_distinct: 200,
    };
    (meta, out, Map::new())
}

fn cfm_from(s: &str) -> Option<Cfm> {
    Some(match s {
        "Identity" => Cfm::Identity,
        "Rc4" => Cfm::Rc4,
        "AesV2" => Cfm::AesV2,
        "AesV3" => Cfm::AesV3,
        _ => return None,
    })
}

fn conf_to_json(c: &Conf) -> Value {
    json!({"kind":c.kind,"key_bits":c.key_bits,"stm":format!("{:?}",c.stm),"strf":format!("{:?}",c.strf),"extra":c.extra.map(|x| format!("{:?}",x)),"identity_named":c.identity_named,"encrypt_metadata":c.encrypt_metadata,"perm_bits":c.perm_bits,"user_prepared":hex(&c.user_prepared),"owner_prepared":hex(&c.owner_prepared),"file_key":hex(&c.file_key)})
}

/// witnesses are self-contained: configuration, passwords and document are stored, nothing is regenerated.
/// (Witnesses written before the configuration was stored carry only its label; the rest is derived from it.)
fn conf_from_witness(w: &Value) -> Option<Conf> {
    let user = w.get("user")?.as_str()?.to_string();
    let owner = w.get("owner")?.as_str()?.to_string();
    if let Some(c) = w.get("conf") {
        let mut file_key = [0u8; 32];
        let fk = unhex(c.get("file_key")?.as_str()?);
        file_key.copy_from_slice(fk.get(..32)?);
        return Some(Conf {
            kind: c.get("kind")?.as_u64()? as u8,
            key_bits: c.get("key_bits")?.as_u64()? as usize,
            stm: cfm_from(c.get("stm")?.as_str()?)?,
            strf: cfm_from(c.get("strf")?.as_str()?)?,
            extra: c.get("extra").and_then(|x| x.as_str()).and_then(cfm_from),
            identity_named: c.get("identity_named").and_then(|x| x.as_bool()).unwrap_or(false),
            encrypt_metadata: c.get("encrypt_metadata")?.as_bool()?,
            perm_bits: c.get("perm_bits")?.as_u64()?,
            user_prepared: unhex(c.get("user_prepared")?.as_str()?),
            owner_prepared: unhex(c.get("owner_prepared")?.as_str()?),
            user,
            owner,
            file_key,
        });
    }
    // label: V<v>R<r>/<bits>bit/stm=<Cfm>/str=<Cfm>/meta=<bool>
    let label = w.get("config")?.as_str()?;
    let parts: Vec<&str> = label.split('/').collect();
    let (v, r) = parts.first()?.strip_prefix('V')?.split_once('R')?;
    let kind = match (v, r) {
        ("1", _) => 1,
        ("2", _) => 2,
        ("4", _) => 4,
        ("5", "5") => 5,
        _ => 6,
    };
    let key_bits = parts.get(1)?.strip_suffix("bit")?.parse().ok()?;
    let stm = cfm_from(parts.get(2)?.strip_prefix("stm=")?)?;
    let strf = cfm_from(parts.get(3)?.strip_prefix("str=")?)?;
    let encrypt_metadata = parts.last()?.strip_prefix("meta=")? == "true";
    let perm_bits = perm_sets()[(w.get("global_index")?.as_u64()? % 8) as usize];
    let (up, op) = if kind <= 4 {
        (prepare_r4(&user), prepare_r4(&owner))
    } else {
        let prep = |s: &str| PAIRS.iter().find(|p| p.0 == s).and_then(|p| p.1).map(|x| x.as_bytes().to_vec());
        (prep(&user)?, prep(&owner)?)
    };
    let mut file_key = [0u8; 32];
    for (i, b) in file_key.iter_mut().enumerate() {
        *b = (i as u8).wrapping_mul(37).wrapping_add(11);
    }
    Some(Conf { kind, key_bits, stm, strf, extra: None, identity_named: false, encrypt_metadata, perm_bits, user, owner, user_prepared: up, owner_prepared: op, file_key })
}

fn replay_generic(w: &Value, tag: &'static str) -> Vec<Finding> {
    let g = |kk: &str| w.get(kk).and_then(|x| x.as_u64()).unwrap_or(0);
    let mut r = Rng::for_case(g("seed"), tag, g("shard"), g("index"));
    let (Some(conf), Some(model)) = (conf_from_witness(w), w.get("doc").and_then(rdoc_from_json)) else { return vec![] };
    let vs: Vec<(String, String)> = if tag == "C05" {
        c05_case(&conf, &model, &mut r).into_iter().collect()
    } else if g("global_index") % 2 == 0 {
        c06_ref_to_lopdf(&conf, &model, &mut r).map(|(s, w)| (format!("ref->lopdf/{}", s), w)).into_iter().collect()
    } else {
        c06_lopdf_to_ref(&conf, &model, &mut r).map(|(s, w)| (format!("lopdf->ref/{}", s), w)).into_iter().collect()
    };
    vs.into_iter().map(|(s, what)| Finding { signature: format!("{}/{}", tag, s), what, witness: w.clone() }).collect()
}
pub fn replay_c05(w: &Value) -> Vec<Finding> {
    replay_generic(w, "C05")
}
pub fn replay_c06(w: &Value) -> Vec<Finding> {
    replay_generic(w, "C06")
}
