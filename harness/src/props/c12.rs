//! C12 — page enumeration is the depth-first order of the page tree.
//! Oracle: own recursive DFS over the generated tree model. Runs inside isolated workers so
//! that malformed variants (cycles, junk kids, absurd counts) are also watched by the process
//! monitor (termination, no panic/abort/allocation blow-up).

use crate::bridge::*;
use crate::gen;
use crate::monitor::*;
use crate::prng::Rng;
use crate::props::c04::{parse_worker_args, sup_cfg, worker_loop, WorkerArgs};
use crate::refimpl::robj::{RDoc, RObj};
use crate::util::*;
use lopdf::{Document, Object};
use serde_json::{json, Map, Value};
use std::path::Path;

pub const TAG: &str = "C12";

#[derive(Clone, Debug)]
enum Node {
    Page,
    Pages(Vec<Node>),
}

fn k(s: &str) -> Vec<u8> {
    s.as_bytes().to_vec()
}
fn name(s: &str) -> RObj {
    RObj::Name(s.as_bytes().to_vec())
}

fn gen_tree(r: &mut Rng, depth_left: usize, budget: &mut usize, shape: u64) -> Node {
    if depth_left == 0 || *budget == 0 {
        return Node::Page;
    }
    let fan = match shape {
        0 => r.usize_below(4),           // bushy small
        1 => 1 + r.usize_below(2),       // deep and thin
        2 => r.usize_below(41),          // wide
        _ => if r.chance(1, 4) { 0 } else { 1 + r.usize_below(6) }, // with empty intermediates
    };
    let mut kids = vec![];
    for _ in 0..fan {
        if *budget == 0 {
            break;
        }
        *budget -= 1;
        let leaf_p = match shape {
            1 => 1,
            _ => 5,
        };
        if r.below(10) < leaf_p {
            kids.push(Node::Page);
        } else {
            kids.push(gen_tree(r, depth_left - 1, budget, shape));
        }
    }
    Node::Pages(kids)
}

fn count_leaves(n: &Node) -> i64 {
    match n {
        Node::Page => 1,
        Node::Pages(k) => k.iter().map(count_leaves).sum(),
    }
}

struct Builder<'a> {
    r: &'a mut Rng,
    ids: Vec<u32>,
    next: usize,
    doc: RDoc,
    order: Vec<(u32, u16)>,
    max_depth: usize,
}

impl Builder<'_> {
    fn fresh(&mut self) -> u32 {
        let id = self.ids[self.next];
        self.next += 1;
        id
    }
    /// returns the id of the node; appends leaf ids in DFS order
    fn emit(&mut self, n: &Node, parent: Option<u32>, depth: usize) -> u32 {
        self.max_depth = self.max_depth.max(depth);
        let id = self.fresh();
        match n {
            Node::Page => {
                let mut e = vec![(k("Type"), name("Page"))];
                if let Some(p) = parent {
                    e.push((k("Parent"), RObj::Ref(p, 0)));
                }
                // /Type says what a node is: a page stays a page when it carries entries that belong to
                // intermediate nodes (extra entries are legal in any dictionary)
                match self.r.below(24) {
                    0 => e.push((k("Kids"), RObj::Array(vec![]))),
                    1 if !self.order.is_empty() => {
                        let other = *self.r.pick(&self.order);
                        e.push((k("Kids"), RObj::Array(vec![RObj::Ref(other.0, other.1)])));
                    }
                    2 => e.push((k("Count"), RObj::Int(self.r.below(5) as i64))),
                    3 => e.push((k("MediaBox"), RObj::Array(vec![RObj::Int(0), RObj::Int(0), RObj::Int(612), RObj::Int(792)]))),
                    _ => {}
                }
                self.doc.objects.insert((id, 0), RObj::Dict(e));
                self.order.push((id, 0));
            }
            Node::Pages(kids) => {
                let kid_ids: Vec<RObj> = kids.iter().map(|c| RObj::Ref(self.emit(c, Some(id), depth + 1), 0)).collect();
                let mut e = vec![(k("Type"), name("Pages")), (k("Count"), RObj::Int(count_leaves(n)))];
                // Kids held directly, behind a reference, or behind a chain of references
                let kv = match self.r.below(6) {
                    0 => {
                        let a = self.fresh();
                        self.doc.objects.insert((a, 0), RObj::Array(kid_ids));
                        RObj::Ref(a, 0)
                    }
                    1 => {
                        let a = self.fresh();
                        let b = self.fresh();
                        self.doc.objects.insert((a, 0), RObj::Ref(b, 0));
                        self.doc.objects.insert((b, 0), RObj::Array(kid_ids));
                        RObj::Ref(a, 0)
                    }
                    _ => RObj::Array(kid_ids),
                };
                e.push((k("Kids"), kv));
                if let Some(p) = parent {
                    e.push((k("Parent"), RObj::Ref(p, 0)));
                }
                self.doc.objects.insert((id, 0), RObj::Dict(e));
            }
        }
        id
    }
}

fn node_count(n: &Node) -> usize {
    match n {
        Node::Page => 1,
        Node::Pages(k) => 1 + k.iter().map(node_count).sum::<usize>(),
    }
}

pub struct TCase {
    pub model: RDoc,
    /// expected DFS order; None for malformed variants (only totality + "pages only" is checked)
    pub expect: Option<Vec<(u32, u16)>>,
    pub label: String,
}

pub fn gen_case(seed: u64, shard: u64, index: u64) -> TCase {
    let mut r = Rng::for_case(seed, TAG, shard, index);
    let shape = r.below(4);
    let max_depth = match r.below(10) {
        0 => 0,
        1 => 1,
        2 => 250,
        3 => 255,
        _ => 1 + r.usize_below(12),
    };
    let mut budget = match r.below(10) {
        0 => 3000,
        1 => 20_000,
        _ => 5 + r.usize_below(150),
    };
    if shape == 1 {
        budget = budget.max(max_depth * 2 + 5);
    }
    let root = match gen_tree(&mut r, max_depth, &mut budget, shape) {
        Node::Page => Node::Pages(vec![Node::Page]),
        n => n,
    };
    let total = node_count(&root) * 3 + 4;
    let mut ids: Vec<u32> = (2..2 + total as u32).collect();
    r.shuffle(&mut ids);
    let mut b = Builder { r: &mut r, ids, next: 0, doc: RDoc::new(), order: vec![], max_depth: 0 };
    let root_id = b.emit(&root, None, 0);
    let mut doc = std::mem::replace(&mut b.doc, RDoc::new());
    let order = std::mem::take(&mut b.order);
    let depth = b.max_depth;
    doc.objects.insert((1, 0), RObj::Dict(vec![(k("Type"), name("Catalog")), (k("Pages"), RObj::Ref(root_id, 0))]));
    doc.trailer = vec![(k("Root"), RObj::Ref(1, 0))];
    let malformed = r.chance(1, 4);
    if !malformed {
        return TCase { model: doc, expect: Some(order), label: format!("wellformed/depth{}", if depth > 200 { ">200".to_string() } else { (depth.min(12)).to_string() }) };
    }
    // malformed variants: mutate the object graph
    let ids: Vec<(u32, u16)> = doc.objects.keys().cloned().collect();
    let variant = r.below(6);
    let label = match variant {
        0 => {
            // kid cycle: some Pages node lists an ancestor / itself / the root
            for id in &ids {
                if let Some(RObj::Dict(d)) = doc.objects.get_mut(id) {
                    if d.iter().any(|(kk, v)| kk == b"Type" && *v == name("Pages")) && r.chance(1, 3) {
                        for (kk, v) in d.iter_mut() {
                            if kk == b"Kids" {
                                if let RObj::Array(a) = v {
                                    a.push(RObj::Ref(if r.bool() { root_id } else { id.0 }, 0));
                                }
                            }
                        }
                    }
                }
            }
            "kid-cycle"
        }
        1 => {
            // kids that are not dictionaries / not references (among them a stream that calls itself a page)
            let sid = doc.max_num() + 1;
            doc.objects.insert((sid, 0), RObj::Stream(vec![(b"Type".to_vec(), name("Page")), (b"Parent".to_vec(), RObj::Ref(root_id, 0))], b"q Q".to_vec()));
            // ... and a kid that is a chain of bare references running into a loop that excludes its first link
            doc.objects.insert((sid + 1, 0), RObj::Ref(sid + 2, 0));
            doc.objects.insert((sid + 2, 0), RObj::Ref(sid + 3, 0));
            doc.objects.insert((sid + 3, 0), RObj::Ref(sid + 4, 0));
            doc.objects.insert((sid + 4, 0), RObj::Ref(sid + 3, 0));
            for id in &ids {
                if let Some(RObj::Dict(d)) = doc.objects.get_mut(id) {
                    for (kk, v) in d.iter_mut() {
                        if kk == b"Kids" {
                            if let RObj::Array(a) = v {
                                let at = r.usize_below(a.len() + 1);
                                let junk = [RObj::Null, RObj::Int(3), RObj::Ref(1, 0), RObj::Ref(999_999, 0), RObj::Array(vec![]), RObj::Ref(sid, 0), RObj::Ref(sid, 0), RObj::Ref(sid + 1, 0), RObj::Ref(sid + 1, 0)];
                                a.insert(at, r.pick(&junk).clone());
                            }
                        }
                    }
                }
            }
            "junk-kids"
        }
        2 => {
            // missing / wrong Type
            for id in &ids {
                if r.chance(1, 4) {
                    if let Some(RObj::Dict(d)) = doc.objects.get_mut(id) {
                        if r.bool() {
                            d.retain(|(kk, _)| kk != b"Type");
                        } else {
                            for (kk, v) in d.iter_mut() {
                                if kk == b"Type" {
                                    *v = name(*r.pick(&["Font", "Page", "Pages", "Catalog"]));
                                }
                            }
                        }
                    }
                }
            }
            "missing-type"
        }
        3 => {
            // dangling kids: delete some objects
            for id in &ids {
                if id.0 != 1 && id.0 != root_id && r.chance(1, 5) {
                    doc.objects.remove(id);
                }
            }
            "dangling-kids"
        }
        4 => {
            for id in &ids {
                if let Some(RObj::Dict(d)) = doc.objects.get_mut(id) {
                    for (kk, v) in d.iter_mut() {
                        if kk == b"Count" {
                            *v = RObj::Int(*r.pick(&[-1i64, 0, 1_000_000_000_000, i64::MAX, i64::MIN, 7]));
                        }
                    }
                }
            }
            "wrong-counts"
        }
        _ => {
            // the same page listed twice / shared subtree
            for id in &ids {
                if let Some(RObj::Dict(d)) = doc.objects.get_mut(id) {
                    for (kk, v) in d.iter_mut() {
                        if kk == b"Kids" {
                            if let RObj::Array(a) = v {
                                if !a.is_empty() && r.bool() {
                                    let dup = a[r.usize_below(a.len())].clone();
                                    a.push(dup);
                                }
                            }
                        }
                    }
                }
            }
            "shared-kids"
        }
    };
    TCase { model: doc, expect: None, label: format!("malformed/{}", label) }
}

/// the graph of Kids references reachable from the catalog's Pages node, every reference counted: a tree iff no
/// object is referred to twice and the root is not referred to at all
fn kids_form_a_tree(doc: &Document) -> bool {
    let Ok(root) = doc.catalog().and_then(|c| c.get(b"Pages")).and_then(Object::as_reference) else { return false };
    let mut indeg: std::collections::HashMap<(u32, u16), u32> = std::collections::HashMap::new();
    let mut stack = vec![root];
    let mut visited = std::collections::HashSet::new();
    while let Some(id) = stack.pop() {
        if !visited.insert(id) {
            return false;
        }
        let Ok(d) = doc.get_dictionary(id) else { continue };
        // Kids directly or behind (a short chain of) references
        let mut kids = d.get(b"Kids").ok();
        let mut hops = 0;
        while let Some(Object::Reference(r)) = kids {
            hops += 1;
            if hops > 8 {
                return false;
            }
            kids = doc.objects.get(r);
        }
        let Some(Object::Array(a)) = kids else { continue };
        for k in a {
            if let Object::Reference(kid) = k {
                let e = indeg.entry(*kid).or_insert(0);
                *e += 1;
                if *e > 1 || *kid == root {
                    return false;
                }
                stack.push(*kid);
            }
        }
    }
    true
}

fn report(sig: &str, what: String) {
    crate::props::oracle_report(sig, what);
}

pub fn check(doc: &Document, expect: &Option<Vec<(u32, u16)>>) {
    let got: Vec<(u32, u16)> = doc.page_iter().collect();
    let pages = doc.get_pages();
    let via_pages: Vec<(u32, u16)> = pages.values().cloned().collect();
    let numbers: Vec<u32> = pages.keys().cloned().collect();
    if numbers != (1..=pages.len() as u32).collect::<Vec<_>>() {
        report("C12/numbering", format!("get_pages() keys are not 1..n: {:?}", &numbers[..numbers.len().min(10)]));
    }
    if via_pages != got {
        report("C12/get_pages-vs-iter", "get_pages() values differ from page_iter() order".into());
    }
    match expect {
        Some(e) => {
            if &got != e {
                let at = got.iter().zip(e).position(|(a, b)| a != b).unwrap_or(got.len().min(e.len()));
                report(
                    if got.len() != e.len() { "C12/wellformed/page-count" } else { "C12/wellformed/order" },
                    format!("page_iter() yields {} pages, depth-first order has {}; first difference at position {} ({:?} vs {:?})", got.len(), e.len(), at, got.get(at), e.get(at)),
                );
            }
        }
        None => {
            for id in &got {
                let ok = doc.get_dictionary(*id).map(|d| d.has_type(b"Page")).unwrap_or(false);
                if !ok {
                    report("C12/malformed/non-page-yielded", format!("page_iter() yielded {:?}, which is not a Page dictionary", id));
                    break;
                }
            }
            // where the Kids references reachable from the root form a tree (no node listed twice, no cycle), no
            // page can be reached along two paths: a repeated id is then an enumeration error, however malformed
            // the single nodes are
            if kids_form_a_tree(doc) {
                let mut seen = std::collections::HashSet::new();
                if let Some(dup) = got.iter().find(|id| !seen.insert(**id)) {
                    report("C12/malformed/page-yielded-twice", format!("page_iter() yielded {:?} twice although every node is listed once in the tree", dup));
                }
            }
            if got.len() > doc.objects.len() {
                report("C12/malformed/more-pages-than-objects", format!("{} ids yielded from {} objects", got.len(), doc.objects.len()));
            }
        }
    }
    // size_hint must stay within what the iterator can deliver for well-formed trees
    if let Some(e) = expect {
        let (lo, hi) = doc.page_iter().size_hint();
        if lo > e.len() || hi.map(|h| h < e.len()).unwrap_or(false) {
            report("C12/size-hint", format!("size_hint ({}, {:?}) does not bracket the {} pages of a well-formed tree", lo, hi, e.len()));
        }
    }
}

pub fn worker_main(args: &[String]) {
    let a = parse_worker_args(args);
    if let Some(f) = &a.case_file {
        let v: Value = serde_json::from_str(&std::fs::read_to_string(f).expect("case file")).expect("json");
        let model = v.get("doc").and_then(rdoc_from_json).expect("doc");
        let expect: Option<Vec<(u32, u16)>> = v.get("expect").and_then(|e| e.as_array()).map(|a| a.iter().map(|x| (x.as_u64().unwrap_or(0) as u32, 0u16)).collect());
        let a2 = WorkerArgs { one: Some(0), ..parse_worker_args(args) };
        let n = model.objects.len();
        worker_loop(&a2, &|_| ((to_lo_doc(&model, false), expect.clone()), n, "witness".to_string(), 0), &|c: &(Document, Option<Vec<(u32, u16)>>)| check(&c.0, &c.1));
        return;
    }
    worker_loop(
        &a,
        &|i| {
            let c = gen_case(a.seed, a.shard, i);
            let n = c.model.objects.len();
            let dg = gen::digest_rdoc(&c.model);
            ((to_lo_doc(&c.model, false), c.expect), n, c.label, dg)
        },
        &|c: &(Document, Option<Vec<(u32, u16)>>)| check(&c.0, &c.1),
    );
}

fn describe(seed: u64, kk: usize, idx: u64) -> Value {
    let c = gen_case(seed, kk as u64, idx);
    json!({"label":c.label,"doc":rdoc_to_json(&c.model),"expect":c.expect.map(|e| e.iter().map(|x| x.0).collect::<Vec<_>>())})
}

pub fn run(cfg: &RunCfg) -> (PropMeta, ShardOut, Map<String, Value>) {
    let mut sc = sup_cfg(cfg, 15.0, 300.0);
    sc.cpu_budget_per_byte_s = 100e-6;
    let seed = cfg.seed;
    let res = supervise(
        &sc,
        &|kk, from, status: &Path, log: &Path| {
            vec!["worker".into(), "C12".into(), "--seed".into(), seed.to_string(), "--shard".into(), kk.to_string(), "--from".into(), from.to_string(), "--status".into(), status.display().to_string(), "--log".into(), log.display().to_string()]
        },
        &|kk, idx| vec!["worker".into(), "C12".into(), "--seed".into(), seed.to_string(), "--shard".into(), kk.to_string(), "--one".into(), idx.to_string()],
        &|kk, idx| describe(seed, kk, idx),
    );
    let meta = PropMeta {
        level: "exploration",
        rule: "random page trees (depth 0..255, fan-out 0..40, bushy / deep-thin / wide / empty-intermediate shapes, pages and nodes interleaved, object ids shuffled so that id order differs from page order, Kids held directly, behind a reference or a chain of references, pages now and then carrying stray Kids / Count entries, up to 20,000 nodes): page_iter() must equal the model's depth-first leaf order and get_pages() must number it 1..n. One case in four is a malformed variant (kid cycles, junk kids, missing/wrong Type, dangling kids, absurd Count, shared kids): enumeration must terminate within the CPU budget without panic/abort and yield only Page dictionaries, none of them twice where the Kids references form a tree. Cases run in isolated workers under the process monitor. distinct = distinct documents.".into(),
        assumptions: vec!["depth counts Pages levels below the root; the documented limit is 256".into()],
        exhaustive: false,
        min_distinct: 500,
    };
    let mut extra = Map::new();
    extra.insert("run_seconds".into(), json!(sc.run_secs));
    (meta, res.out, extra)
}

pub fn replay(w: &Value) -> Vec<Finding> {
    crate::props::c04::replay_with("C12", w)
}
