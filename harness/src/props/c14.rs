//! C14 — content streams survive encode and decode.
//! Events: Content::encode(ops) bytes and Content::decode(bytes) result. Oracle: same operators,
//! equal operands (model equality; integral real may return as integer), same order.

use crate::bridge::*;
use crate::gen;
use crate::prng::Rng;
use crate::refimpl::robj::RObj;
use crate::util::*;
use lopdf::content::{Content, Operation};
use serde_json::{json, Map, Value};

pub const TAG: &str = "C14";

const PDF_OPS: &[&str] = &[
    "b", "B", "b*", "B*", "BDC", "BMC", "BT", "BX", "c", "cm", "CS", "cs", "d", "d0", "d1", "Do", "DP", "EMC", "ET", "EX", "f",
    "F", "f*", "G", "g", "gs", "h", "i", "j", "J", "K", "k", "l", "m", "M", "MP", "n", "q", "Q", "re", "RG", "rg", "ri", "s", "S",
    "SC", "sc", "SCN", "scn", "sh", "T*", "Tc", "Td", "TD", "Tf", "Tj", "TJ", "TL", "Tm", "Tr", "Ts", "Tw", "Tz", "v", "w", "W",
    "W*", "y", "'", "\"", "ID", "EI", "R", "obj", "endobj", "stream",
];

/// operator tokens over the alphabet the parser documents (letters, '*', ''', '"'); tokens that
/// are or begin with an operand keyword (true/false/null) or the inline-image introducer BI are
/// not operators and are outside the quantifier. Digits cannot start/appear (alphabet).
fn operator(r: &mut Rng) -> String {
    loop {
        let s: String = if r.chance(3, 4) {
            let op = *r.pick(PDF_OPS);
            if op.chars().all(|c| c.is_ascii_alphabetic() || "*'\"".contains(c)) {
                op.to_string()
            } else {
                continue;
            }
        } else {
            let n = 1 + r.usize_below(6);
            (0..n).map(|_| *r.pick(b"abcdefghijklmnopqrstuvwxyzABCDEFGHIJKLMNOPQRSTUVWXYZ*'\"") as char).collect()
        };
        if s.starts_with("true") || s.starts_with("false") || s.starts_with("null") || s.starts_with("BI") {
            continue;
        }
        return s;
    }
}

#[derive(Clone, Debug)]
pub struct Op {
    pub operator: String,
    pub operands: Vec<RObj>,
}

fn gen_ops(r: &mut Rng) -> Vec<Op> {
    let cfg = gen::ObjCfg { max_depth: r.usize_below(6), refs: false, ref_pool: vec![], max_str: 30, max_children: 5 };
    let n = match r.below(8) {
        0 => 0,
        1 => 1,
        _ => 1 + r.usize_below(30),
    };
    (0..n)
        .map(|_| {
            // (an operator takes as many operands as precede it: scn with a DeviceN space has 33 and more)
            let k = match r.below(24) {
                0..=3 => 0,
                4 => 30 + r.usize_below(40),
                5 => 200 + r.usize_below(400),
                _ => r.usize_below(9),
            };
            Op { operator: operator(r), operands: (0..k).map(|_| gen::direct_object(r, &cfg, 0)).collect() }
        })
        .collect()
}

fn ops_to_json(ops: &[Op]) -> Value {
    Value::Array(ops.iter().map(|o| json!({"operator":o.operator,"operands":o.operands.iter().map(robj_to_json).collect::<Vec<_>>()})).collect())
}
fn ops_from_json(v: &Value) -> Option<Vec<Op>> {
    v.as_array()?
        .iter()
        .map(|e| {
            Some(Op {
                operator: e.get("operator")?.as_str()?.to_string(),
                operands: e.get("operands")?.as_array()?.iter().map(robj_from_json).collect::<Option<Vec<_>>>()?,
            })
        })
        .collect()
}

fn to_content(ops: &[Op]) -> Content<Vec<Operation>> {
    Content { operations: ops.iter().map(|o| Operation { operator: o.operator.clone(), operands: o.operands.iter().map(to_lo).collect() }).collect() }
}

fn diff_ops(exp: &[Op], got: &Content<Vec<Operation>>) -> Option<String> {
    if exp.len() != got.operations.len() {
        // locate the first divergence for the message
        for (i, (e, g)) in exp.iter().zip(&got.operations).enumerate() {
            if e.operator != g.operator || e.operands.len() != g.operands.len() {
                return Some(format!("{} operations decoded, {} encoded; first divergence at op {}: expected {} {:?}({} operands) got {:?}({} operands)", got.operations.len(), exp.len(), i, "", e.operator, e.operands.len(), g.operator, g.operands.len()));
            }
        }
        return Some(format!("{} operations decoded, {} encoded", got.operations.len(), exp.len()));
    }
    for (i, (e, g)) in exp.iter().zip(&got.operations).enumerate() {
        if e.operator != g.operator {
            return Some(format!("op {}: operator {:?} decoded as {:?}", i, e.operator, g.operator));
        }
        if e.operands.len() != g.operands.len() {
            return Some(format!("op {} ({}): {} operands decoded, {} encoded", i, e.operator, g.operands.len(), e.operands.len()));
        }
        for (j, (a, b)) in e.operands.iter().zip(&g.operands).enumerate() {
            if let Some(d) = diff_robj(a, &from_lo(b), &format!("op {} ({}) operand {}", i, e.operator, j)) {
                return Some(d);
            }
        }
    }
    None
}

fn check_ops(ops: &[Op]) -> Option<String> {
    let c = to_content(ops);
    let bytes = match c.encode() {
        Ok(b) => b,
        Err(e) => return Some(format!("encode failed: {}", e)),
    };
    match Content::decode(&bytes) {
        Ok(d) => diff_ops(ops, &d),
        Err(e) => Some(format!("decode of encoded content failed: {:?}", e)),
    }
}

/// shrink an operation list / operands while the failure persists, then classify
fn minimise(ops: &[Op]) -> Vec<Op> {
    let mut cur = ops.to_vec();
    let mut changed = true;
    while changed {
        changed = false;
        let mut i = 0;
        while i < cur.len() && cur.len() > 1 {
            let mut c = cur.clone();
            c.remove(i);
            if check_ops(&c).is_some() {
                cur = c;
                changed = true;
            } else {
                i += 1;
            }
        }
        for i in 0..cur.len() {
            let mut j = 0;
            while j < cur[i].operands.len() {
                let mut c = cur.clone();
                c[i].operands.remove(j);
                if check_ops(&c).is_some() {
                    cur = c;
                    changed = true;
                } else {
                    j += 1;
                }
            }
        }
        // descend into container operands
        for i in 0..cur.len() {
            for j in 0..cur[i].operands.len() {
                let kids: Vec<RObj> = match &cur[i].operands[j] {
                    RObj::Array(a) => a.clone(),
                    RObj::Dict(d) => d.iter().map(|(_, v)| v.clone()).chain(d.iter().map(|(k, _)| RObj::Name(k.clone()))).collect(),
                    _ => vec![],
                };
                for k in kids {
                    let mut c = cur.clone();
                    c[i].operands[j] = k;
                    if check_ops(&c).is_some() {
                        cur = c;
                        changed = true;
                        break;
                    }
                }
            }
        }
    }
    cur
}

fn classify(ops: &[Op]) -> String {
    if ops.len() == 1 && ops[0].operands.len() == 1 {
        format!("C14/operand/{}", super::c01::classify(&ops[0].operands[0]))
    } else if ops.len() == 1 && ops[0].operands.is_empty() {
        format!("C14/operator/{}", ops[0].operator)
    } else if ops.len() == 1 {
        format!("C14/operands/{}", ops[0].operands.iter().map(|o| o.kind()).collect::<Vec<_>>().join("+"))
    } else {
        format!("C14/sequence/{}ops", ops.len().min(4))
    }
}

fn finding_ops(ops: &[Op], msg: &str) -> Finding {
    let m = minimise(ops);
    Finding {
        signature: classify(&m),
        what: format!("decode(encode(ops)) != ops: {}", msg),
        witness: json!({"kind":"ops","ops":ops_to_json(ops),"minimised":ops_to_json(&m)}),
    }
}

// ------------------------------------------------------------------ inline images

/// returns (content bytes, number of operations, the image's sample data)
fn inline_image_bytes(r: &mut Rng) -> (Vec<u8>, usize, Vec<u8>) {
    let (cs_names, ncol): (&[&str], usize) = *r.pick(&[
        (&["DeviceGray", "G"][..], 1usize),
        (&["DeviceRGB", "RGB"][..], 3),
        (&["DeviceCMYK", "CMYK"][..], 4),
        (&["DeviceRGBA", "RGBA"][..], 4),
    ]);
    // only the spellings lopdf's parser documents: DeviceGray/Gray? it accepts "Gray" not "G"
    let cs = match ncol {
        1 => *r.pick(&["DeviceGray", "Gray"]),
        3 => *r.pick(&["DeviceRGB", "RGB"]),
        _ => {
            if cs_names[0] == "DeviceCMYK" {
                *r.pick(&["DeviceCMYK", "CMYK"])
            } else {
                *r.pick(&["DeviceRGBA", "RGBA"])
            }
        }
    };
    let w = 1 + r.usize_below(16);
    let h = 1 + r.usize_below(16);
    let bpc = *r.pick(&[1usize, 2, 4, 8, 16]);
    let stride = (w * ncol * bpc + 7) / 8;
    let len = stride * h;
    let mut data: Vec<u8> = match r.below(4) {
        0 => r.bytes(len),
        1 => (0..len).map(|_| *r.pick(b"EI \n\rIDBIQq")).collect(),
        2 => vec![0u8; len],
        _ => (0..len).map(|_| 0x21 + r.u8() % 0x5e).collect(),
    };
    if r.chance(1, 3) && len >= 4 {
        let at = r.usize_below(len - 3);
        data[at..at + 4].copy_from_slice(b" EI ");
    }
    let long = r.bool();
    let mut out = Vec::new();
    let mut nops = 0;
    if r.bool() {
        out.extend_from_slice(b"q 1 0 0 1 10 20 cm\n");
        nops += 2;
    }
    out.extend_from_slice(b"BI");
    let (kw, kh, kcs, kbpc) = if long { ("Width", "Height", "ColorSpace", "BitsPerComponent") } else { ("W", "H", "CS", "BPC") };
    // entries in any order (the order is kept by decode and encode, so each kind of value comes last now and then)
    let mut entries: Vec<String> = vec![format!("/{} {}", kw, w), format!("/{} {}", kh, h), format!("/{} /{}", kcs, cs), format!("/{} {}", kbpc, bpc)];
    if r.chance(1, 4) {
        entries.push("/I true".into());
        entries.push("/D [0 1]".into());
    }
    r.shuffle(&mut entries);
    for e in &entries {
        out.push(b' ');
        out.extend_from_slice(e.as_bytes());
    }
    out.extend_from_slice(*r.pick(&[&b"\nID\n"[..], b" ID ", b"\nID "]));
    out.extend_from_slice(&data);
    out.extend_from_slice(*r.pick(&[&b"\nEI\n"[..], b" EI ", b"EI\n", b"\nEI"]));
    nops += 1;
    if r.bool() {
        out.extend_from_slice(b"Q\n(after) Tj");
        nops += 2;
    }
    (out, nops, data)
}

fn content_to_model(c: &Content<Vec<Operation>>) -> Vec<Op> {
    c.operations.iter().map(|o| Op { operator: o.operator.clone(), operands: o.operands.iter().map(from_lo).collect() }).collect()
}

/// decode(encode(decode(bytes))) == decode(bytes); None = held or not applicable.
/// `data`: the sample data of the (valid) image, written after ID and exactly one white-space character. The first
/// decode has to succeed and return exactly these bytes - otherwise there are no "same operations" to come back to.
/// (Witnesses recorded without the data keep the weaker reading: a failing first decode is outside the clause.)
fn check_inline(bytes: &[u8], expect_ops: usize, data: Option<&[u8]>, out: &mut ShardOut) -> Option<(&'static str, String)> {
    let strict = data;
    if data.and_then(|d| d.first()).map_or(false, |b| b" \t\r\n\x0c\0".contains(b)) {
        out.count("inline_images_data_starting_with_white_space");
    }
    let d1 = match Content::decode(bytes) {
        Ok(d) => d,
        Err(e) => {
            if let Some(d) = strict {
                return Some(("decode", format!("valid inline image ({} data bytes) does not decode: {:?}", d.len(), e)));
            }
            out.count("inline_first_decode_failed");
            return None;
        }
    };
    if d1.operations.len() != expect_ops || !d1.operations.iter().any(|o| o.operator == "BI") {
        if strict.is_some() {
            return Some(("decode", format!("valid inline image decodes to {} operations ({:?}), the content has {}", d1.operations.len(), d1.operations.iter().map(|o| o.operator.clone()).collect::<Vec<_>>(), expect_ops)));
        }
        out.count("inline_first_decode_not_an_image");
        return None;
    }
    if let Some(d) = strict {
        let got = d1.operations.iter().find(|o| o.operator == "BI").and_then(|o| o.operands.iter().find_map(|x| x.as_stream().ok())).map(|s| s.content.clone());
        if got.as_deref() != Some(d) {
            return Some(("decode", format!("decoded inline image data differs from the {} bytes between ID and EI (got {:?} bytes)", d.len(), got.map(|g| g.len()))));
        }
        out.count("inline_images_data_verified");
    }
    out.count("inline_images_decoded");
    let m1 = content_to_model(&d1);
    let b2 = match d1.encode() {
        Ok(b) => b,
        Err(e) => return Some(("reencode", format!("encode of decoded inline image failed: {}", e))),
    };
    match Content::decode(&b2) {
        Ok(d2) => diff_ops(&m1, &d2).map(|m| ("reencode", m)),
        Err(e) => Some(("reencode", format!("re-encoded inline image does not decode: {:?}", e))),
    }
}

pub fn run(cfg: &RunCfg) -> (PropMeta, ShardOut, Map<String, Value>) {
    let n = cfg.n(40_000, 1_500_000);
    let n_img = cfg.n(8_000, 400_000);
    let per = (n as usize + cfg.threads - 1) / cfg.threads;
    let per_img = (n_img as usize + cfg.threads - 1) / cfg.threads;
    let out = shards(cfg.threads, |shard| {
        let mut out = ShardOut::default();
        // special cases: string operands whose balanced parentheses nest up to and beyond the depth the writer
        // leaves unescaped (the reader's bracket limit): writer and reader have to agree at the boundary
        if shard == 0 {
            for depth in [1usize, 50, 98, 99, 100, 101, 102, 150] {
                let mut body = vec![b'('; depth];
                body.push(b'x');
                body.extend(vec![b')'; depth]);
                let ops = vec![Op { operator: "BT".into(), operands: vec![] }, Op { operator: "Tj".into(), operands: vec![RObj::Str(body, false)] }, Op { operator: "ET".into(), operands: vec![] }];
                out.evaluations += 1;
                out.count("deep_parenthesis_operands");
                if let Some(msg) = check_ops(&ops) {
                    out.finding(Finding { signature: format!("C14/operand/string-literal/balanced-paren-depth-{}", if depth <= 100 { "within-limit" } else { "beyond-limit" }), what: format!("decode(encode(ops)) != ops for parentheses nested {} deep: {}", depth, msg), witness: json!({"kind":"ops","ops":ops_to_json(&ops)}) });
                }
            }
        }
        for i in 0..per {
            let mut r = Rng::for_case(cfg.seed, TAG, shard as u64, i as u64);
            let ops = gen_ops(&mut r);
            out.evaluations += 1;
            out.add("operations", ops.len() as u64);
            if !ops.is_empty() {
                out.digests.insert(crate::prng::fnv_bytes(format!("{:?}", ops).as_bytes()));
            }
            if let Some(msg) = check_ops(&ops) {
                out.finding(finding_ops(&ops, &msg));
            }
            if i == 0 {
                out.sample(json!({"ops": String::from_utf8_lossy(&to_content(&ops).encode().unwrap_or_default()).chars().take(300).collect::<String>()}));
            }
        }
        // exhaustive byte pairs as name and string content (literal + hex) and dictionary key
        let mut a = shard;
        while a < 256 {
            let mut ops = vec![];
            for b in 0..256usize {
                let p = vec![a as u8, b as u8];
                ops.push(Op { operator: "Tj".into(), operands: vec![RObj::Str(p.clone(), false)] });
                ops.push(Op { operator: "Tj".into(), operands: vec![RObj::Str(p.clone(), true)] });
                ops.push(Op { operator: "gs".into(), operands: vec![RObj::Name(p.clone())] });
                ops.push(Op { operator: "DP".into(), operands: vec![RObj::Name(b"M".to_vec()), RObj::Dict(vec![(p.clone(), RObj::Str(p, false))])] });
            }
            out.evaluations += 1;
            out.add("byte_pairs_swept", 256);
            out.digests.insert(a as u64);
            if let Some(msg) = check_ops(&ops) {
                out.finding(finding_ops(&ops, &msg));
            }
            a += cfg.threads;
        }
        for i in 0..per_img {
            let mut r = Rng::for_case(cfg.seed, "C14img", shard as u64, i as u64);
            let (bytes, nops, data) = inline_image_bytes(&mut r);
            out.evaluations += 1;
            let before = *out.counters.get("inline_images_decoded").unwrap_or(&0);
            let res = check_inline(&bytes, nops, Some(&data), &mut out);
            if *out.counters.get("inline_images_decoded").unwrap_or(&0) > before {
                out.digests.insert(crate::prng::fnv_bytes(&bytes));
            }
            if let Some((kind, msg)) = res {
                out.finding(Finding {
                    signature: format!("C14/inline-image/{}", kind),
                    what: if kind == "reencode" { format!("decode(encode(decode(bytes))) != decode(bytes): {}", msg) } else { msg },
                    witness: json!({"kind":"inline","bytes":hex(&bytes),"ops":nops,"data":hex(&data),"text":String::from_utf8_lossy(&bytes)}),
                });
            }
            if i == 0 {
                out.sample(json!({"inline_image": String::from_utf8_lossy(&bytes).chars().take(200).collect::<String>()}));
            }
        }
        out
    });
    let meta = PropMeta {
        level: "exploration",
        rule: "random operation sequences (PDF operator table + random tokens over letters * ' \"; 0..8 operands of every direct kind, nesting<=5, hostile bytes) through Content::encode -> Content::decode; all 65,536 byte pairs as literal string, hex string, name and dictionary key; generated inline images (Gray/RGB/CMYK/RGBA, BPC 1..16, 1..16 x 1..16 so rows with and without padding bits, data containing EI) through decode -> encode -> decode; the first decode must succeed and return exactly the bytes between the single white-space character after ID and EI (also when they start with white-space bytes). Non-trivial: at least one operation / the first decode recognised the image; distinct by canonical printing.".into(),
        assumptions: vec![
            "operator tokens that are or begin with true/false/null/BI are operand keywords or the inline-image introducer, not operators (outside the quantifier)".into(),
            "operands are direct objects: no references, no streams (except the parser's own inline-image stream)".into(),
        ],
        exhaustive: false,
        min_distinct: 100,
    };
    let mut extra = Map::new();
    extra.insert("byte_pair_sweep_exhaustive".into(), json!(true));
    (meta, out, extra)
}

pub fn replay(w: &Value) -> Vec<Finding> {
    match w.get("kind").and_then(|k| k.as_str()) {
        Some("ops") => {
            let Some(ops) = w.get("ops").and_then(ops_from_json) else { return vec![] };
            check_ops(&ops).map(|m| finding_ops(&ops, &m)).into_iter().collect()
        }
        Some("inline") => {
            let bytes = unhex(w.get("bytes").and_then(|b| b.as_str()).unwrap_or(""));
            let nops = w.get("ops").and_then(|n| n.as_u64()).unwrap_or(1) as usize;
            let mut o = ShardOut::default();
            let data = w.get("data").and_then(|b| b.as_str()).map(unhex);
            check_inline(&bytes, nops, data.as_deref(), &mut o)
                .map(|(k, m)| Finding { signature: format!("C14/inline-image/{}", k), what: m, witness: w.clone() })
                .into_iter()
                .collect()
        }
        _ => vec![],
    }
}
