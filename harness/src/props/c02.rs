//! C02 — well-formed PDFs from any producer load to their content.
//! Events: reference-writer file -> Document::load_mem -> objects/trailer/version.
//! Oracle: the abstract document the writer was given.

use crate::bridge::*;
use crate::gen;
use crate::prng::Rng;
use crate::refimpl::refwriter::*;
use crate::refimpl::robj::{RDoc, RObj};
use crate::util::*;
use lopdf::Document;
use serde_json::{json, Map, Value};
use std::collections::{BTreeMap, BTreeSet};

pub const TAG: &str = "C02";

pub fn write_history(wseed: u64, disabled: &BTreeSet<String>, h: &History, style: XrefStyle, objstm: bool) -> (Written, BTreeMap<String, u64>) {
    let mut ch = Choices::new(wseed);
    ch.disabled = disabled.clone();
    let w = RefWriter::new(&mut ch).write(h, style, objstm);
    (w, ch.used)
}

/// documents inside the reference writer's domain (legal PDF)
pub fn legal_doc(r: &mut Rng, max_objects: usize) -> RDoc {
    let dcfg = gen::DocCfg { max_objects, max_depth: 1 + r.usize_below(5), generations: r.chance(1, 3), sparse: r.bool() };
    let mut d = gen::rdoc(r, &dcfg);
    if d.objects.is_empty() {
        d.objects.insert((1, 0), RObj::Dict(vec![(b"Type".to_vec(), RObj::Name(b"Catalog".to_vec()))]));
    }
    for o in d.objects.values_mut() {
        sanitize_for_refwriter(o);
    }
    let mut t = RObj::Dict(std::mem::take(&mut d.trailer));
    sanitize_for_refwriter(&mut t);
    if let RObj::Dict(t) = t {
        d.trailer = t;
    }
    d.trailer.retain(|(k, _)| gen::trailer_key_ok(k));
    if RObj::dict_get(&d.trailer, b"Root").is_none() {
        let id = *d.objects.keys().next().unwrap();
        d.trailer.push((b"Root".to_vec(), RObj::Ref(id.0, id.1)));
    }
    // header line: version must not contain EOL bytes (the generator never produces them)
    d
}

/// compare a loaded lopdf document with the model; container objects of the file are ignored
pub fn diff_loaded(expect: &RDoc, loaded: &Document, containers: &BTreeSet<u32>) -> Vec<((u32, u16), String)> {
    let got = from_lo_doc(loaded);
    let mut diffs = diff_docs(expect, &got, false, &|id, _| containers.contains(&id.0));
    if expect.version != got.version {
        diffs.push(((0, 0), format!("version {:?} != {:?}", expect.version, got.version)));
    }
    diffs
}

/// `extra` incremental updates on top of `d`: each redefines about a quarter of the objects and adds up to two new ones
pub fn extend_history(r: &mut Rng, d: &RDoc, extra: usize) -> History {
    let mut h = History::from_doc(d);
    let mut cur = d.clone();
    for _ in 0..extra {
        let mut rev = Revision { objects: BTreeMap::new(), trailer: cur.trailer.clone() };
        let ids: Vec<(u32, u16)> = cur.objects.keys().cloned().collect();
        let cfg = gen::ObjCfg { max_depth: 2, refs: true, ref_pool: ids.clone(), max_str: 20, max_children: 4 };
        for id in &ids {
            if r.chance(1, 4) {
                let mut o = gen::top_object(r, &cfg);
                sanitize_for_refwriter(&mut o);
                rev.objects.insert(*id, o);
            }
        }
        let mx = cur.max_num();
        for k in 0..r.usize_below(3) as u32 {
            let mut o = gen::top_object(r, &cfg);
            sanitize_for_refwriter(&mut o);
            rev.objects.insert((mx + 1 + k, 0), o);
        }
        for (id, o) in &rev.objects {
            cur.objects.insert(*id, o.clone());
        }
        h.revisions.push(rev);
    }
    h
}

/// A file with incremental updates: the document it defines is the merge of all its revisions.
pub fn run_case_history(h: &History, wseed: u64, style: XrefStyle, objstm: bool, disabled: &BTreeSet<String>) -> CaseResult {
    let (w, used) = write_history(wseed, disabled, h, style, objstm);
    let expect = h.merged(h.revisions.len() - 1);
    let diffs = match crate::props::catch(|| Document::load_mem(&w.bytes)) {
        Err(p) => vec![((0, 0), format!("load_mem panicked: {}", p))],
        Ok(Err(e)) => vec![((0, 0), format!("load_mem failed: {:?}", e))],
        Ok(Ok(doc)) => diff_loaded(&expect, &doc, &w.container_ids),
    };
    CaseResult { diffs, used, bytes: w.bytes }
}

/// Finding for a multi-revision file: writer features are minimised (known-finding features switched off first, as in
/// `finding`), the revisions themselves are kept as generated.
pub fn finding_history(h: &History, wseed: u64, style: XrefStyle, objstm: bool) -> Finding {
    let all: BTreeSet<String> = known_has_features().into_iter().collect();
    let with_known_off = run_case_history(h, wseed, style, objstm, &all);
    let (disabled, res) = if !all.is_empty() && with_known_off.diffs.is_empty() {
        let mut res = run_case_history(h, wseed, style, objstm, &BTreeSet::new());
        res.used.retain(|k, _| all.contains(k));
        (BTreeSet::new(), res)
    } else {
        let mut disabled = all.clone();
        let mut cur = with_known_off;
        for _round in 0..2 {
            let feats: Vec<String> = cur.used.keys().cloned().collect();
            for f in feats {
                let mut dis2 = disabled.clone();
                dis2.insert(f.clone());
                let r = run_case_history(h, wseed, style, objstm, &dis2);
                if !r.diffs.is_empty() {
                    disabled = dis2;
                    cur = r;
                }
            }
        }
        (disabled, cur)
    };
    let (w, _) = write_history(wseed, &disabled, h, style, objstm);
    // the feature list stays the last segment (known findings are matched on it)
    let sig = signature(style, &res.used).replacen(if style == XrefStyle::Table { "/table/" } else { "/stream/" }, if style == XrefStyle::Table { "/table-updates/" } else { "/stream-updates/" }, 1);
    Finding {
        signature: sig.clone(),
        what: format!("loaded document differs from what the file ({} revisions) defines: {}", h.revisions.len(), res.diffs.first().map(|x| x.1.clone()).unwrap_or_default()),
        witness: json!({
            "kind":"file","expect":rdoc_to_json(&h.merged(h.revisions.len() - 1)),"containers": w.container_ids.iter().collect::<Vec<_>>(),
            "signature": sig, "features_needed": res.used, "revisions": h.revisions.len(),
            "file_hex": hex(&w.bytes), "file_text": String::from_utf8_lossy(&w.bytes[..w.bytes.len().min(3000)]),
        }),
    }
}

pub struct CaseResult {
    pub diffs: Vec<((u32, u16), String)>,
    pub used: BTreeMap<String, u64>,
    pub bytes: Vec<u8>,
}

pub fn run_case(d: &RDoc, wseed: u64, style: XrefStyle, objstm: bool, disabled: &BTreeSet<String>) -> CaseResult {
    let h = History::from_doc(d);
    let (w, used) = write_history(wseed, disabled, &h, style, objstm);
    let diffs = match crate::props::catch(|| Document::load_mem(&w.bytes)) {
        Err(p) => vec![((0, 0), format!("load_mem panicked: {}", p))],
        Ok(Err(e)) => vec![((0, 0), format!("load_mem failed: {:?}", e))],
        Ok(Ok(doc)) => diff_loaded(d, &doc, &w.container_ids),
    };
    CaseResult { diffs, used, bytes: w.bytes }
}

/// Turn writer features off one at a time, then drop objects, while the failure persists.
pub fn minimise(d: &RDoc, wseed: u64, style: XrefStyle, objstm: bool) -> (RDoc, BTreeSet<String>, CaseResult) {
    minimise_from(d, wseed, style, objstm, BTreeSet::new())
}

/// 1-minimal set of writer features (and objects) needed for the failure, starting with `disabled` switched off
pub fn minimise_from(d: &RDoc, wseed: u64, style: XrefStyle, objstm: bool, disabled: BTreeSet<String>) -> (RDoc, BTreeSet<String>, CaseResult) {
    let mut disabled = disabled;
    let mut cur = run_case(d, wseed, style, objstm, &disabled);
    let mut doc = d.clone();
    for _round in 0..2 {
        let feats: Vec<String> = cur.used.keys().cloned().collect();
        for f in feats {
            let mut dis2 = disabled.clone();
            dis2.insert(f.clone());
            let r = run_case(&doc, wseed, style, objstm, &dis2);
            if !r.diffs.is_empty() {
                disabled = dis2;
                cur = r;
            }
        }
        // drop objects (keeping the Root target)
        let ids: Vec<(u32, u16)> = doc.objects.keys().cloned().collect();
        for id in ids {
            if doc.objects.len() <= 1 {
                break;
            }
            let mut d2 = doc.clone();
            d2.objects.remove(&id);
            if let Some(RObj::Ref(n, g)) = RObj::dict_get(&d2.trailer, b"Root") {
                if (*n, *g) == id {
                    continue;
                }
            }
            let r = run_case(&d2, wseed, style, objstm, &disabled);
            if !r.diffs.is_empty() {
                doc = d2;
                cur = r;
            }
        }
        // drop trailer extras
        let keys: Vec<Vec<u8>> = doc.trailer.iter().map(|(k, _)| k.clone()).filter(|k| k != b"Root").collect();
        for k in keys {
            let mut d2 = doc.clone();
            d2.trailer.retain(|(kk, _)| *kk != k);
            let r = run_case(&d2, wseed, style, objstm, &disabled);
            if !r.diffs.is_empty() {
                doc = d2;
                cur = r;
            }
        }
    }
    (doc, disabled, cur)
}

pub fn signature(style: XrefStyle, used: &BTreeMap<String, u64>) -> String {
    // informational notes "(..)" cannot be switched off on their own and are not part of the
    // signature; what remains is the 1-minimal set of features needed to reproduce
    let fs: Vec<&String> = used.keys().filter(|k| !k.starts_with('(')).collect();
    format!("C02/{}/{}", if style == XrefStyle::Table { "table" } else { "stream" }, fs.iter().map(|s| s.as_str()).collect::<Vec<_>>().join("+"))
}

pub fn finding(d: &RDoc, wseed: u64, style: XrefStyle, objstm: bool) -> Finding {
    // cheap attribution first: does switching off the feature of a still-open known finding
    // make the failure disappear? then that feature is necessary for this failure
    let mut attributed: Option<(RDoc, BTreeSet<String>, CaseResult)> = None;
    for f in known_has_features() {
        let mut dis = BTreeSet::new();
        dis.insert(f.clone());
        if run_case(d, wseed, style, objstm, &dis).diffs.is_empty() {
            let mut res = run_case(d, wseed, style, objstm, &BTreeSet::new());
            res.used.retain(|k, _| *k == f);
            attributed = Some((d.clone(), BTreeSet::new(), res));
            break;
        }
    }
    // several still-open known findings can be at work in one file: switch all their features off together.
    // If the file then loads correctly the failure belongs to them; if it still fails, this is a failure of its
    // own and is minimised with those features off, so that a known finding can never stand in for it.
    let all: BTreeSet<String> = known_has_features().into_iter().collect();
    let independent = if attributed.is_none() && !all.is_empty() {
        if run_case(d, wseed, style, objstm, &all).diffs.is_empty() {
            let mut res = run_case(d, wseed, style, objstm, &BTreeSet::new());
            res.used.retain(|k, _| all.contains(k));
            attributed = Some((d.clone(), BTreeSet::new(), res));
            false
        } else {
            true
        }
    } else {
        false
    };
    // (minimising is costly; on a tree that fails thousands of files only the first findings of a run are minimised.
    // The others keep the known-finding features switched off, so they can never be mistaken for a known finding.)
    static MINIMISATIONS_LEFT: std::sync::atomic::AtomicIsize = std::sync::atomic::AtomicIsize::new(48);
    if attributed.is_none() && MINIMISATIONS_LEFT.fetch_sub(1, std::sync::atomic::Ordering::Relaxed) <= 0 {
        let res = run_case(d, wseed, style, objstm, &all);
        if !res.diffs.is_empty() {
            let h = History::from_doc(d);
            let (w, _) = write_history(wseed, &all, &h, style, objstm);
            let sig = format!("C02/{}/(not minimised)", if style == XrefStyle::Table { "table" } else { "stream" });
            return Finding {
                signature: sig.clone(),
                what: format!("loaded document differs from what the file defines: {}", res.diffs.first().map(|x| x.1.clone()).unwrap_or_default()),
                witness: json!({
                    "kind":"file","expect":rdoc_to_json(d),"containers": w.container_ids.iter().collect::<Vec<_>>(),
                    "signature": sig, "features_used": res.used,
                    "file_hex": hex(&w.bytes), "file_text": String::from_utf8_lossy(&w.bytes[..w.bytes.len().min(3000)]),
                }),
            };
        }
    }
    let (md, disabled, res) = attributed.unwrap_or_else(|| minimise_from(d, wseed, style, objstm, if independent { all.clone() } else { BTreeSet::new() }));
    let h = History::from_doc(&md);
    let (w, _) = write_history(wseed, &disabled, &h, style, objstm);
    Finding {
        signature: signature(style, &res.used),
        what: format!("loaded document differs from what the file defines: {}", res.diffs.first().map(|x| x.1.clone()).unwrap_or_default()),
        witness: json!({
            "kind":"file","expect":rdoc_to_json(&md),"containers": w.container_ids.iter().collect::<Vec<_>>(),
            "signature": signature(style, &res.used), "features_needed": res.used,
            "file_hex": hex(&w.bytes), "file_text": String::from_utf8_lossy(&w.bytes[..w.bytes.len().min(3000)]),
        }),
    }
}

pub fn run(cfg: &RunCfg) -> (PropMeta, ShardOut, Map<String, Value>) {
    let n = cfg.n(4000, 60_000);
    let per = (n as usize + cfg.threads - 1) / cfg.threads;
    let out = shards(cfg.threads, |shard| {
        let mut out = ShardOut::default();
        let none = BTreeSet::new();
        for i in 0..per {
            let mut r = Rng::for_case(cfg.seed, TAG, shard as u64, i as u64);
            // one file in twenty-five has the layout of linearized documents: the newest cross-reference section in
            // front, its Prev pointing forward to the main section (written by C07's direct writer)
            if i % 25 == 7 {
                let f = crate::props::c07::front_section_file(&mut r);
                out.evaluations += 1;
                out.count("files_front_section_layout");
                out.digests.insert(crate::prng::fnv_bytes(&f.bytes));
                let diffs = match crate::props::catch(|| Document::load_mem(&f.bytes)) {
                    Err(p) => vec![((0, 0), format!("load_mem panicked: {}", p))],
                    Ok(Err(e)) => vec![((0, 0), format!("load_mem failed: {:?}", e))],
                    Ok(Ok(doc)) => diff_loaded(&f.expect, &doc, &BTreeSet::new()),
                };
                if let Some((_, msg)) = diffs.first() {
                    let sig = "C02/table/front-section-layout".to_string();
                    out.finding(Finding {
                        signature: sig.clone(),
                        what: format!("loaded document differs from what the file defines: {}", msg),
                        witness: json!({"kind":"file","expect":rdoc_to_json(&f.expect),"containers":Vec::<u32>::new(),"signature":sig,"file_hex":hex(&f.bytes),"file_text":String::from_utf8_lossy(&f.bytes[..f.bytes.len().min(3000)])}),
                    });
                } else {
                    out.count("files_loaded_equal");
                }
                continue;
            }
            let maxo = 5 + r.usize_below(55);
            let d = legal_doc(&mut r, maxo);
            let style = if r.bool() { XrefStyle::Table } else { XrefStyle::Stream };
            let objstm = r.chance(3, 4);
            let wseed = r.next_u64();
            let t_case = std::time::Instant::now();
            // one file in five carries one or two incremental updates (sections that list only the new objects)
            let updates = if r.chance(1, 5) { 1 + r.usize_below(2) } else { 0 };
            let hist = if updates > 0 { Some(extend_history(&mut r, &d, updates)) } else { None };
            let res = match &hist {
                Some(h) => run_case_history(h, wseed, style, objstm, &none),
                None => run_case(&d, wseed, style, objstm, &none),
            };
            if hist.is_some() {
                out.count("files_with_incremental_updates");
            }
            if std::env::var("VH_SLOW").is_ok() && t_case.elapsed().as_secs_f64() > 0.5 { eprintln!("SLOW run_case shard {} i {} {:.1}s objects {} bytes {}", shard, i, t_case.elapsed().as_secs_f64(), d.objects.len(), res.bytes.len()); }
            out.evaluations += 1;
            out.digests.insert(crate::prng::fnv_bytes(&res.bytes));
            for (f, c) in &res.used {
                out.add(&format!("feature:{}", f), 1);
                let _ = c;
            }
            out.count(if style == XrefStyle::Table { "files_xref_table" } else { "files_xref_stream" });
            if !res.diffs.is_empty() {
                let t_f = std::time::Instant::now();
                out.finding(match &hist {
                    Some(h) => finding_history(h, wseed, style, objstm),
                    None => finding(&d, wseed, style, objstm),
                });
                if std::env::var("VH_SLOW").is_ok() && t_f.elapsed().as_secs_f64() > 0.5 { eprintln!("SLOW finding shard {} i {} {:.1}s objects {}", shard, i, t_f.elapsed().as_secs_f64(), d.objects.len()); }
            } else {
                out.count("files_loaded_equal");
            }
            if i == 0 {
                out.sample(json!({"style": format!("{:?}", style), "file_head": String::from_utf8_lossy(&res.bytes[..res.bytes.len().min(400)])}));
            }
        }
        out
    });
    let meta = PropMeta {
        level: "exploration",
        rule: "random legal abstract documents serialised by the independent reference writer (random white-space/comments/EOL style, number/name/string spellings, object order and gaps, multi-subsection tables, xref streams with varying W/Index, object streams, indirect Length, Flate/LZW/ASCII85 + PNG predictors on structural streams, junk before the header; one file in five with one or two incremental updates, one in twenty-five in the front-section layout of linearized files) -> Document::load_mem -> compared with the abstract document. distinct = distinct file bytes; per-feature file counts in counters.".into(),
        assumptions: vec![
            "only legal files: no NUL in names, Root present, one generation per number, same xref style in a file; hybrid XRefStm files and later-revision free entries are outside the domain".into(),
            "byte offsets are relative to the %PDF- header when junk precedes it".into(),
            "binary comment line is not part of the compared content".into(),
        ],
        exhaustive: false,
        min_distinct: 100,
    };
    (meta, out, Map::new())
}

/// witnesses are self-contained: the file bytes, the document they define, the writer's
/// container object numbers and the signature established when the witness was minimised
pub fn replay(w: &Value) -> Vec<Finding> {
    let Some(d) = w.get("expect").and_then(rdoc_from_json) else { return vec![] };
    let bytes = unhex(w.get("file_hex").and_then(|x| x.as_str()).unwrap_or(""));
    let containers: BTreeSet<u32> = w.get("containers").and_then(|a| a.as_array()).map(|a| a.iter().filter_map(|x| x.as_u64().map(|x| x as u32)).collect()).unwrap_or_default();
    let diffs = match crate::props::catch(|| Document::load_mem(&bytes)) {
        Err(p) => vec![((0, 0), format!("load_mem panicked: {}", p))],
        Ok(Err(e)) => vec![((0, 0), format!("load_mem failed: {:?}", e))],
        Ok(Ok(doc)) => diff_loaded(&d, &doc, &containers),
    };
    if diffs.is_empty() {
        return vec![];
    }
    vec![Finding { signature: w.get("signature").and_then(|s| s.as_str()).unwrap_or("C02/unknown").to_string(), what: diffs[0].1.clone(), witness: w.clone() }]
}

/// Reference writer and strict reader check each other: every file the writer emits must be
/// accepted by the strict reader and yield the abstract document the writer was given.
pub fn mutual_selftest(n: u64) -> Result<(), String> {
    use crate::refimpl::strictreader::StrictReader;
    let mut features: BTreeMap<String, u64> = BTreeMap::new();
    for i in 0..n {
        let mut r = Rng::for_case(7, "selftest-writer-reader", 0, i);
        let maxo = 3 + r.usize_below(25);
        let d = legal_doc(&mut r, maxo);
        let style = if r.bool() { XrefStyle::Table } else { XrefStyle::Stream };
        let objstm = r.bool();
        let wseed = r.next_u64();
        // 1..3 revisions
        let nrev = r.usize_below(3);
        let h = extend_history(&mut r, &d, nrev);
        let (w, used) = write_history(wseed, &BTreeSet::new(), &h, style, objstm);
        for k in used.keys() {
            *features.entry(k.clone()).or_insert(0) += 1;
        }
        for (ri, end) in w.revision_ends.iter().enumerate() {
            let file = &w.bytes[w.header_offset..*end];
            let expect = h.merged(ri);
            let p = StrictReader::new(file).parse().map_err(|e| format!("case {} rev {}: strict reader rejects reference writer output: {}", i, ri, e))?;
            let mut got = p.doc.clone();
            got.objects.retain(|id, _| !w.container_ids.contains(&id.0));
            let diffs = diff_docs(&expect, &got, false, &|_, _| false);
            if let Some((_, dd)) = diffs.first() {
                return Err(format!("case {} rev {}: strict reader reads something else than the writer wrote: {}", i, ri, dd));
            }
            if expect.version != got.version {
                return Err(format!("case {}: version {:?} vs {:?}", i, expect.version, got.version));
            }
        }
    }
    if features.len() < 40 {
        return Err(format!("writer exercised only {} features", features.len()));
    }
    Ok(())
}
