//! C16 — text strings and one-byte encodings round-trip text.
//! (a) decode_text_string(text_string(s)) == s for EVERY Unicode scalar value and random strings,
//!     representation rule, UTF-8-with-BOM and UTF-16BE inputs; malformed input never panics.
//! (b) each predefined one-byte encoding reachable through get_font_encoding x all 256 bytes.
//! (c) text shown with such an encoding comes back from extract_text, before and after save+load.

use crate::prng::Rng;
use crate::refimpl::tables;
use crate::util::*;
use lopdf::content::{Content, Operation};
use lopdf::{dictionary, Dictionary, Document, Object, Stream, StringFormat};
use serde_json::{json, Map, Value};

pub const TAG: &str = "C16";
pub const ENCODINGS: [&str; 5] = ["StandardEncoding", "MacRomanEncoding", "MacExpertEncoding", "WinAnsiEncoding", "PDFDocEncoding"];

fn font(enc: &str) -> Dictionary {
    dictionary! { "Type" => "Font", "Subtype" => "Type1", "BaseFont" => "Helvetica", "Encoding" => enc }
}

fn check_text_string(s: &str) -> Option<(String, String)> {
    let o = match crate::props::catch(|| lopdf::text_string(s)) {
        Ok(o) => o,
        Err(p) => return Some(("text_string-panic".into(), format!("text_string({:?}) panicked: {}", s, p))),
    };
    let Object::String(bytes, _) = &o else { return Some(("text_string-kind".into(), "text_string did not return a string object".into())) };
    // representation rule: ASCII text stays PDFDocEncoding bytes (no BOM), everything else FE FF + UTF-16BE
    if s.is_ascii() {
        if bytes.starts_with(&[0xFE, 0xFF]) {
            // allowed only if the ASCII text cannot be expressed in PDFDocEncoding byte-for-byte (controls)
            if s.bytes().all(|b| (0x20..=0x7E).contains(&b)) {
                return Some(("representation".into(), format!("printable ASCII text {:?} was not kept as PDFDocEncoding", s)));
            }
        } else if bytes != s.as_bytes() {
            return Some(("representation".into(), format!("ASCII text {:?} encoded as {}", s, hex(bytes))));
        }
    } else {
        let mut exp = vec![0xFE, 0xFF];
        exp.extend(s.encode_utf16().flat_map(|u| u.to_be_bytes()));
        if *bytes != exp {
            return Some(("representation".into(), format!("non-ASCII text {:?} is not FE FF + UTF-16BE: {}", s, hex(bytes))));
        }
    }
    match crate::props::catch(|| lopdf::decode_text_string(&o)) {
        Err(p) => Some(("decode-panic".into(), format!("decode_text_string panicked on text_string({:?}): {}", s, p))),
        Ok(Err(e)) => Some(("decode-error".into(), format!("decode_text_string failed on text_string({:?}): {:?}", s, e))),
        Ok(Ok(back)) => {
            if back != s {
                let class = if s.chars().any(|c| (c as u32) < 0x20) { "c0-control" } else if s.is_ascii() { "ascii" } else { "non-ascii" };
                Some((format!("roundtrip/{}", class), format!("text string {:?} (U+{}) comes back as {:?}", s, s.chars().map(|c| format!("{:04X}", c as u32)).collect::<Vec<_>>().join(" "), back)))
            } else {
                None
            }
        }
    }
}

fn check_foreign_inputs(s: &str) -> Option<(String, String)> {
    // UTF-8 with BOM
    let mut b = vec![0xEF, 0xBB, 0xBF];
    b.extend_from_slice(s.as_bytes());
    match crate::props::catch(|| lopdf::decode_text_string(&Object::String(b.clone(), StringFormat::Literal))) {
        Err(p) => return Some(("utf8-panic".into(), format!("decode_text_string panicked on UTF-8 input: {}", p))),
        Ok(Ok(back)) if back == s => {}
        Ok(r) => return Some(("utf8-bom".into(), format!("UTF-8 with BOM for {:?} decodes to {:?}", s, r))),
    }
    // UTF-16BE written by someone else (hex or literal form)
    let mut u = vec![0xFE, 0xFF];
    u.extend(s.encode_utf16().flat_map(|x| x.to_be_bytes()));
    match crate::props::catch(|| lopdf::decode_text_string(&Object::String(u.clone(), StringFormat::Literal))) {
        Err(p) => return Some(("utf16-panic".into(), format!("decode_text_string panicked on UTF-16BE input: {}", p))),
        Ok(Ok(back)) if back == s => {}
        Ok(r) => return Some(("utf16".into(), format!("UTF-16BE for {:?} decodes to {:?}", s, r))),
    }
    None
}

fn random_string(r: &mut Rng) -> String {
    let n = r.usize_below(12);
    let class = r.below(6);
    (0..n)
        .map(|_| loop {
            let c = match class {
                0 => 0x20 + r.below(0x5f) as u32,
                1 => r.below(0x80) as u32,
                2 => r.below(0x800) as u32,
                3 => 0x10000 + r.below(0x100000) as u32,
                4 => *r.pick(&[0xFEFFu32, 0xFFFE, 0xFFFF, 0xFFFD, 0xFFFD, 0xFFFC, 0xD7FF, 0xE000, 0x10FFFF, 0, 9, 10, 13, 0x18, 0x1F, 0x7F, 0x80, 0xA0, 0xAD, 0xFF]),
                _ => r.below(0x110000) as u32,
            };
            if let Some(ch) = char::from_u32(c) {
                break ch;
            }
        })
        .collect()
}

/// (b) table checks for one encoding; returns (signature, what)
fn check_table(enc_name: &str, out: &mut ShardOut) -> Vec<(String, String)> {
    let doc = Document::new();
    let f = font(enc_name);
    let mut v = vec![];
    let enc = match f.get_font_encoding(&doc) {
        Ok(e) => e,
        Err(e) => return vec![(format!("table/{}/unreachable", enc_name), format!("get_font_encoding failed: {:?}", e))],
    };
    let published: Option<&[&[u16]; 256]> = match enc_name {
        "WinAnsiEncoding" => Some(&tables::WIN_ANSI),
        "MacRomanEncoding" => Some(&tables::MAC_ROMAN),
        "PDFDocEncoding" => Some(&tables::PDF_DOC),
        _ => None,
    };
    for b in 0..=255u8 {
        out.evaluations += 1;
        let d1 = match crate::props::catch(|| Document::decode_text(&enc, &[b])) {
            Err(p) => {
                v.push((format!("table/{}/decode-panic", enc_name), format!("decode_text panicked on byte 0x{:02X}: {}", b, p)));
                continue;
            }
            Ok(Err(e)) => {
                v.push((format!("table/{}/decode-error", enc_name), format!("decode_text failed on byte 0x{:02X}: {:?}", b, e)));
                continue;
            }
            Ok(Ok(s)) => s,
        };
        // decode(encode(decode(b))) == decode(b)
        let e1 = match crate::props::catch(|| Document::encode_text(&enc, &d1)) {
            Ok(x) => x,
            Err(p) => {
                v.push((format!("table/{}/encode-panic", enc_name), format!("encode_text panicked on {:?}: {}", d1, p)));
                continue;
            }
        };
        match crate::props::catch(|| Document::decode_text(&enc, &e1)) {
            Ok(Ok(d2)) if d2 == d1 => {}
            other => v.push((format!("table/{}/reencode", enc_name), format!("byte 0x{:02X} decodes to {:?}, re-encodes to {} which decodes to {:?}", b, d1, hex(&e1), other))),
        }
        if let Some(t) = published {
            let acc = t[b as usize];
            if !acc.is_empty() {
                out.count("published_cells_compared");
                let units: Vec<u16> = d1.encode_utf16().collect();
                if units.len() != 1 || !acc.contains(&units[0]) {
                    v.push((
                        format!("table/{}/cell-{:02X}", enc_name, b),
                        format!("{} byte 0x{:02X} decodes to {:?} (U+{}), the published table has U+{}", enc_name, b, d1, units.iter().map(|u| format!("{:04X}", u)).collect::<Vec<_>>().join(" "), acc.iter().map(|u| format!("{:04X}", u)).collect::<Vec<_>>().join(" or U+")),
                    ));
                }
            }
        }
    }
    v
}

/// repertoire of an encoding: characters that survive encode -> decode on their own
fn repertoire(enc_name: &str) -> Vec<char> {
    let doc = Document::new();
    let f = font(enc_name);
    let Ok(enc) = f.get_font_encoding(&doc) else { return vec![] };
    let mut out = vec![];
    for b in 0x20..=255u8 {
        if let Ok(s) = Document::decode_text(&enc, &[b]) {
            let cs: Vec<char> = s.chars().collect();
            if cs.len() == 1 && !cs[0].is_control() && Document::decode_text(&enc, &Document::encode_text(&enc, &s)).ok().as_deref() == Some(s.as_str()) && !out.contains(&cs[0]) {
                out.push(cs[0]);
            }
        }
    }
    out
}

/// (text, shown with a TJ array, preceded by an empty text object)
type Shown = Vec<(String, bool, bool)>;

/// pages showing text in `enc_name` through font F1. The font comes from the Resources the pages inherit, or - one
/// document in three - from Resources of the page itself, while the inherited Resources then carry a different font
/// under the same name (the page's own entry is the one in effect, ISO 32000-1 7.7.3.4).
fn build_extraction_doc(r: &mut Rng, enc_name: &str, rep: &[char]) -> Option<(Document, Shown)> {
    if rep.is_empty() {
        return None;
    }
    let gen_text = |r: &mut Rng| -> String {
        // now and then parentheses nested around the depth up to which the writer leaves them unescaped
        if r.chance(1, 30) && rep.contains(&'(') && rep.contains(&')') {
            let depth = *r.pick(&[1usize, 2, 50, 98, 99, 100, 101, 102, 150]);
            return format!("{}x{}", "(".repeat(depth), ")".repeat(depth));
        }
        loop {
            let n = 1 + r.usize_below(20);
            let s: String = (0..n).map(|_| *r.pick(rep)).collect();
            // half of the texts keep the blanks they begin or end with: shown text is returned unchanged, blanks included
            let t = if r.bool() { s.trim().to_string() } else { s.clone() };
            if !t.trim().is_empty() {
                return t;
            }
        }
    };
    let mut doc = Document::with_version("1.5");
    let pages_id = doc.new_object_id();
    let font_id = doc.add_object(font(enc_name));
    let own_resources = r.chance(1, 3);
    let inherited_font = if own_resources {
        let others: Vec<&str> = ENCODINGS.iter().cloned().filter(|e| *e != enc_name).collect();
        let other: &str = *r.pick(&others[..]);
        doc.add_object(font(other))
    } else {
        font_id
    };
    let res_id = doc.add_object(dictionary! { "Font" => dictionary! { "F1" => inherited_font } });
    let own_res_id = doc.add_object(dictionary! { "Font" => dictionary! { "F1" => font_id } });
    let tmp_doc = Document::new();
    let font_dict = font(enc_name);
    let enc = font_dict.get_font_encoding(&tmp_doc).ok()?;
    let n_pages = 1 + r.usize_below(3);
    let mut kids = vec![];
    let mut expect = vec![];
    for _ in 0..n_pages {
        let text = gen_text(r);
        let bytes = Document::encode_text(&enc, &text);
        let use_tj_array = r.bool();
        let fmt = if r.bool() { StringFormat::Hexadecimal } else { StringFormat::Literal };
        let show = if use_tj_array {
            // split the bytes into pieces with small kerning adjustments (no word gap)
            let cut = r.usize_below(bytes.len() + 1);
            Operation::new("TJ", vec![Object::Array(vec![Object::String(bytes[..cut].to_vec(), fmt), Object::Integer(-(r.below(90) as i64)), Object::String(bytes[cut..].to_vec(), fmt)])])
        } else {
            Operation::new("Tj", vec![Object::String(bytes.clone(), fmt)])
        };
        // the font is graphics state: it may be selected inside the text object (usual), before it, or in an earlier
        // text object, and stays selected
        let tf = Operation::new("Tf", vec!["F1".into(), 12.into()]);
        let td = Operation::new("Td", vec![72.into(), 700.into()]);
        let (bt, et) = (Operation::new("BT", vec![]), Operation::new("ET", vec![]));
        let shape = r.below(6);
        let operations = match shape {
            0 => vec![tf, bt, td, show, et],
            1 => vec![bt.clone(), tf, et.clone(), bt, td, show, et],
            _ => vec![bt, tf, td, show, et],
        };
        let content = Content { operations };
        let mut st = Stream::new(dictionary! {}, content.encode().ok()?);
        if r.bool() {
            let _ = st.compress();
        }
        let cid = doc.add_object(st);
        let mut page = dictionary! { "Type" => "Page", "Parent" => pages_id, "Contents" => cid };
        if own_resources {
            if r.bool() {
                page.set("Resources", Object::Reference(own_res_id));
            } else {
                page.set("Resources", dictionary! { "Font" => dictionary! { "F1" => font_id } });
            }
        }
        let pid = doc.add_object(page);
        kids.push(Object::Reference(pid));
        expect.push((text, use_tj_array, shape == 1));
    }
    doc.objects.insert(pages_id, Object::Dictionary(dictionary! { "Type" => "Pages", "Kids" => kids, "Count" => n_pages as i64, "Resources" => res_id }));
    let cat = doc.add_object(dictionary! { "Type" => "Catalog", "Pages" => pages_id });
    doc.trailer.set("Root", cat);
    Some((doc, expect))
}

fn check_extraction(d: &Document, expect: &Shown, enc_name: &str, when: &str) -> Option<(String, String)> {
    for (i, (exp, tj_array, empty_first)) in expect.iter().enumerate() {
        match crate::props::catch(|| d.extract_text(&[(i + 1) as u32])) {
            Err(p) => return Some((format!("extract/{}/panic", enc_name), format!("extract_text panicked {}: {}", when, p))),
            Ok(Err(e)) => return Some((format!("extract/{}/error", enc_name), format!("extract_text failed {}: {:?}", when, e))),
            Ok(Ok(got)) => {
                // the extractor ends a text object with a line break (unless the text already ends in one) and
                // puts one blank after a TJ array; beyond these separators the text has to be exactly what is shown
                let mut accepted = vec![exp.clone(), format!("{}\n", exp)];
                if *tj_array {
                    accepted.push(format!("{} ", exp));
                    accepted.push(format!("{} \n", exp));
                }
                // (an empty text object in front contributes the line break that ends it)
                if *empty_first {
                    let with_break: Vec<String> = accepted.iter().map(|a| format!("\n{}", a)).collect();
                    accepted.extend(with_break);
                }
                if !accepted.contains(&got) {
                    return Some((format!("extract/{}/text", enc_name), format!("page {} {}: extract_text returns {:?}, the page shows {:?}", i + 1, when, got, exp)));
                }
            }
        }
    }
    None
}

/// (signature, what, self-contained witness: the saved file and what its pages show)
fn extraction_case(r: &mut Rng, enc_name: &str, rep: &[char]) -> Option<(String, String, Value)> {
    let (mut doc, expect) = build_extraction_doc(r, enc_name, rep)?;
    let mut bytes = vec![];
    let saved = doc.save_to(&mut bytes).is_ok();
    let witness = json!({"kind":"extract-doc","encoding":enc_name,"file_hex":hex(&bytes),
        "shown":expect.iter().map(|(t, a, e)| json!({"utf16":t.encode_utf16().collect::<Vec<u16>>(),"tj_array":a,"empty_first":e})).collect::<Vec<_>>()});
    if let Some((s, w)) = check_extraction(&doc, &expect, enc_name, "before saving") {
        return Some((s, w, witness));
    }
    if !saved {
        return Some((format!("extract/{}/save", enc_name), "save_to failed".into(), witness));
    }
    match Document::load_mem(&bytes) {
        Err(e) => Some((format!("extract/{}/reload", enc_name), format!("reload failed: {:?}", e), witness)),
        Ok(l) => check_extraction(&l, &expect, enc_name, "after save + load").map(|(s, w)| (s, w, witness)),
    }
}

pub fn run(cfg: &RunCfg) -> (PropMeta, ShardOut, Map<String, Value>) {
    let n_rand = cfg.n(200_000, 20_000_000);
    let n_ext = cfg.n(6_000, 400_000);
    let out = shards(cfg.threads, |shard| {
        let mut out = ShardOut::default();
        // (a) every Unicode scalar value as a one-character string: this shard's share
        let mut c = shard as u32;
        while c < 0x110000 {
            if let Some(ch) = char::from_u32(c) {
                let s = ch.to_string();
                out.evaluations += 1;
                out.add("scalar_values_checked", 1);
                if let Some((sig, what)) = check_text_string(&s).or_else(|| if c % 97 == 0 { check_foreign_inputs(&s) } else { None }) {
                    out.finding(Finding { signature: format!("C16/{}", sig), what, witness: json!({"kind":"string","utf16":s.encode_utf16().collect::<Vec<u16>>()}) });
                }
            }
            c += cfg.threads as u32;
        }
        let per = (n_rand as usize + cfg.threads - 1) / cfg.threads;
        for i in 0..per {
            let mut r = Rng::for_case(cfg.seed, TAG, shard as u64, i as u64);
            let s = random_string(&mut r);
            out.evaluations += 1;
            if s.chars().count() > 1 {
                out.digests.insert(crate::prng::fnv_bytes(s.as_bytes()));
            }
            if let Some((sig, what)) = check_text_string(&s).or_else(|| check_foreign_inputs(&s)) {
                out.finding(Finding { signature: format!("C16/{}", sig), what, witness: json!({"kind":"string","utf16":s.encode_utf16().collect::<Vec<u16>>()}) });
            }
            // malformed inputs: odd-length UTF-16, lone surrogates, truncated UTF-8 — must not panic
            if i % 8 == 0 {
                let mut b = if r.bool() { vec![0xFE, 0xFF] } else { vec![0xEF, 0xBB, 0xBF] };
                b.extend(r.bytes(r.clone().usize_below(9)));
                if r.bool() {
                    b.extend_from_slice(&[0xD8, 0x00]);
                }
                out.count("malformed_inputs");
                if let Err(p) = crate::props::catch(|| lopdf::decode_text_string(&Object::String(b.clone(), StringFormat::Literal))) {
                    out.finding(Finding { signature: "C16/malformed-panic".into(), what: format!("decode_text_string panicked on {}: {}", hex(&b), p), witness: json!({"kind":"bytes","hex":hex(&b)}) });
                }
            }
            if i == 0 {
                out.sample(json!({"string": s, "utf16": s.encode_utf16().collect::<Vec<u16>>()}));
            }
        }
        // (b) tables: shard k handles encoding k
        if shard < ENCODINGS.len() {
            let name = ENCODINGS[shard];
            for (sig, what) in check_table(name, &mut out) {
                out.finding(Finding { signature: format!("C16/{}", sig), what, witness: json!({"kind":"table","encoding":name}) });
            }
            out.add("table_cells_checked", 256);
        }
        // (c) extraction
        let reps: Vec<(&str, Vec<char>)> = ENCODINGS.iter().map(|e| (*e, repertoire(e))).collect();
        let per_e = (n_ext as usize + cfg.threads - 1) / cfg.threads;
        for i in 0..per_e {
            let mut r = Rng::for_case(cfg.seed, "C16ext", shard as u64, i as u64);
            let (name, rep) = &reps[i % reps.len()];
            out.evaluations += 1;
            out.count(&format!("extraction_documents:{}", name));
            out.digests.insert(crate::prng::fnv(&format!("ext:{}:{}", shard, i)));
            if let Some((sig, what, witness)) = extraction_case(&mut r, name, rep) {
                out.finding(Finding { signature: format!("C16/{}", sig), what, witness });
            }
        }
        for (name, rep) in &reps {
            out.max(&format!("max_repertoire_size:{}", name), rep.len() as u64);
        }
        out
    });
    let meta = PropMeta {
        level: "exploration",
        rule: "(a) every Unicode scalar value (1,112,064) as a one-character string through text_string -> decode_text_string with the representation rule checked, plus random strings (ASCII, C0 controls, BMP, astral, BOM characters, whole range), each also as UTF-8-with-BOM and UTF-16BE input; malformed inputs (odd length, lone surrogates, truncated UTF-8) must not panic. (b) the five one-byte encodings reachable through get_font_encoding x all 256 bytes: decode never fails, decode(encode(decode(b))) == decode(b), and the cells 0x20-0x7E / 0xA1-0xFF agree with the published WinAnsi (cp1252), MacRoman (Apple/Annex D) and PDFDoc (Annex D) tables. (c) generated documents whose pages show encode_text(enc, text) with Tj or TJ (literal or hex strings, optional compression; Tf inside the text object, before it, or in an earlier text object; the font reached through inherited Resources, or through the page's own Resources while the inherited ones name a font of another encoding F1 as well): extract_text returns the text - leading and trailing blanks included; only the line break that ends a text object and the blank after a TJ array are allowed in addition - before and after save_to + load_mem. distinct = distinct random strings / extraction documents.".into(),
        assumptions: vec![
            "published-table cells where Apple's MacRoman and Annex D differ (0xDB, 0xBD, 0xC6, 0xB5, 0xCA, 0xF0) and 0xAD accept either value or are skipped".into(),
            "extraction compares modulo trailing white-space (the extractor appends a space after TJ arrays and a newline at ET)".into(),
        ],
        exhaustive: false,
        min_distinct: 1000,
    };
    let mut extra = Map::new();
    extra.insert("scalar_sweep_exhaustive".into(), json!(true));
    extra.insert("table_sweep_exhaustive".into(), json!(true));
    (meta, out, extra)
}

pub fn replay(w: &Value) -> Vec<Finding> {
    match w.get("kind").and_then(|x| x.as_str()) {
        Some("string") => {
            let u: Vec<u16> = w["utf16"].as_array().map(|a| a.iter().map(|x| x.as_u64().unwrap_or(0) as u16).collect()).unwrap_or_default();
            let s = String::from_utf16_lossy(&u);
            check_text_string(&s).or_else(|| check_foreign_inputs(&s)).map(|(sg, what)| Finding { signature: format!("C16/{}", sg), what, witness: w.clone() }).into_iter().collect()
        }
        Some("extract-doc") => {
            let name = w["encoding"].as_str().unwrap_or("WinAnsiEncoding").to_string();
            let bytes = unhex(w["file_hex"].as_str().unwrap_or(""));
            let shown: Shown = w["shown"]
                .as_array()
                .map(|a| a.iter().map(|x| (String::from_utf16_lossy(&x["utf16"].as_array().map(|u| u.iter().map(|c| c.as_u64().unwrap_or(0) as u16).collect::<Vec<u16>>()).unwrap_or_default()), x["tj_array"].as_bool().unwrap_or(false), x["empty_first"].as_bool().unwrap_or(false))).collect())
                .unwrap_or_default();
            match Document::load_mem(&bytes) {
                Err(e) => vec![Finding { signature: format!("C16/extract/{}/reload", name), what: format!("{:?}", e), witness: w.clone() }],
                Ok(d) => check_extraction(&d, &shown, &name, "witness file").map(|(sg, what)| Finding { signature: format!("C16/{}", sg), what, witness: w.clone() }).into_iter().collect(),
            }
        }
        Some("table") => {
            let mut o = ShardOut::default();
            let name = w["encoding"].as_str().unwrap_or("WinAnsiEncoding").to_string();
            let name: &str = ENCODINGS.iter().find(|e| **e == name).cloned().unwrap_or("WinAnsiEncoding");
            check_table(name, &mut o).into_iter().map(|(sg, what)| Finding { signature: format!("C16/{}", sg), what, witness: w.clone() }).collect()
        }
        _ => vec![],
    }
}
