//! C10 — renumbering objects preserves the document graph.
//! Oracle: lock-step walk from both trailers that builds the renaming and checks it is
//! consistent, injective, maps equal referents, keeps dangling references dangling; plus dense
//! numbering from `start`, max_id, page order and bookmark targets.

use crate::bridge::*;
use crate::gen;
use crate::prng::Rng;
use crate::refimpl::robj::{RDoc, RObj};
use crate::util::*;
use lopdf::{Bookmark, Document};
use serde_json::{json, Map, Value};
use std::collections::{BTreeMap, BTreeSet, HashMap, HashSet};

pub const TAG: &str = "C10";

fn k(s: &str) -> Vec<u8> {
    s.as_bytes().to_vec()
}
fn name(s: &str) -> RObj {
    RObj::Name(s.as_bytes().to_vec())
}

pub struct GCase {
    pub model: RDoc,
    pub bookmarks: Vec<(String, (u32, u16), Option<usize>)>, // title, page, parent index
    pub start: u32,
    /// added to Document::max_id before renumbering: the counter may lag behind objects inserted into `objects`
    /// directly, or be ahead after the highest objects were removed
    pub skew: i64,
    /// renumber a second time with the same start value (numbers are then already consecutive from it)
    pub twice: bool,
}

/// random reference graph with a page tree whose ids are not in page order
pub fn gen_case(r: &mut Rng) -> GCase {
    let n_pages = r.usize_below(12);
    let n_extra = r.usize_below(20);
    // sparse, shuffled numbers
    let total = 3 + n_pages + n_extra + 6;
    let mut nums: Vec<u32> = vec![];
    let mut cur = 0u32;
    for _ in 0..total {
        cur += match r.below(8) {
            0 => 2 + r.below(6) as u32,
            1 => 20 + r.below(200) as u32,
            _ => 1,
        };
        nums.push(cur);
    }
    r.shuffle(&mut nums);
    let with_gen = r.chance(1, 3);
    let mut take = |r: &mut Rng| -> (u32, u16) {
        let n = nums.pop().unwrap();
        (n, if with_gen && r.chance(1, 4) { *r.pick(&[1u16, 2, 9]) } else { 0 })
    };
    let mut d = RDoc::new();
    let cat = take(r);
    let root = take(r);
    let rref = |id: (u32, u16)| RObj::Ref(id.0, id.1);
    // page tree: up to two levels, pages in an order unrelated to their ids
    let mut page_ids = vec![];
    let mut kids_root = vec![];
    let mut i = 0;
    while i < n_pages {
        if r.chance(1, 3) && i + 1 < n_pages {
            let node = take(r);
            let m = 1 + r.usize_below((n_pages - i).min(4));
            let mut kk = vec![];
            for _ in 0..m {
                let p = take(r);
                d.objects.insert(p, RObj::Dict(vec![(k("Type"), name("Page")), (k("Parent"), rref(node))]));
                kk.push(rref(p));
                page_ids.push(p);
            }
            i += m;
            d.objects.insert(node, RObj::Dict(vec![(k("Type"), name("Pages")), (k("Kids"), RObj::Array(kk)), (k("Count"), RObj::Int(m as i64)), (k("Parent"), rref(root))]));
            kids_root.push(rref(node));
        } else {
            let p = take(r);
            d.objects.insert(p, RObj::Dict(vec![(k("Type"), name("Page")), (k("Parent"), rref(root))]));
            kids_root.push(rref(p));
            page_ids.push(p);
            i += 1;
        }
    }
    d.objects.insert(root, RObj::Dict(vec![(k("Type"), name("Pages")), (k("Kids"), RObj::Array(kids_root)), (k("Count"), RObj::Int(page_ids.len() as i64))]));
    d.objects.insert(cat, RObj::Dict(vec![(k("Type"), name("Catalog")), (k("Pages"), rref(root))]));
    // extra objects with shared / cyclic / dangling references
    let mut extra_ids = vec![];
    for _ in 0..n_extra {
        extra_ids.push(take(r));
    }
    let mut pool: Vec<(u32, u16)> = d.objects.keys().cloned().chain(extra_ids.iter().cloned()).collect();
    // dangling targets: numbers that do not exist — inside and beyond the range
    for _ in 0..3 {
        pool.push((1 + r.below(cur as u64 + 30) as u32, 0));
    }
    if let Some(first) = pool.first().cloned() {
        pool.push((first.0, first.1.wrapping_add(5))); // wrong generation
    }
    let cfg = gen::ObjCfg { max_depth: 3, refs: true, ref_pool: pool.clone(), max_str: 10, max_children: 5 };
    for id in &extra_ids {
        let o = match r.below(4) {
            0 => RObj::Stream(gen::dict_entries(r, &cfg, 1, true).into_iter().filter(|(kk, _)| kk != b"Length" && kk != b"Type").collect(), r.bytes(8)),
            1 => RObj::Dict(gen::dict_entries(r, &cfg, 1, true).into_iter().filter(|(kk, _)| kk != b"Type").collect()),
            2 => RObj::Array((0..r.usize_below(6)).map(|_| { let t = *r.pick(&pool); RObj::Ref(t.0, t.1) }).collect()),
            _ => gen::direct_object(r, &cfg, 0),
        };
        d.objects.insert(*id, o);
    }
    // hang extras under the catalog / pages so they are reachable (some stay unreachable)
    if let Some(RObj::Dict(c)) = d.objects.get_mut(&cat) {
        let mut links = vec![];
        for id in &extra_ids {
            if r.chance(2, 3) {
                links.push(rref(*id));
            }
        }
        c.push((k("Extras"), RObj::Array(links)));
    }
    for p in &page_ids {
        if r.chance(1, 2) && !extra_ids.is_empty() {
            let t = *r.pick(&extra_ids);
            if let Some(RObj::Dict(pd)) = d.objects.get_mut(p) {
                pd.push((k("Contents"), rref(t)));
            }
        }
    }
    // one case in eight: a reference buried under many levels of direct arrays and dictionaries inside one object
    // (the parser accepts 256 levels); renumbering has to reach it like any other reference
    if r.chance(1, 8) {
        let t = *r.pick(&pool);
        let depth = *r.pick(&[20usize, 60, 64, 65, 100, 128, 200, 250]);
        let mut v = RObj::Ref(t.0, t.1);
        for lvl in 0..depth {
            v = if lvl % 3 == 1 { RObj::Dict(vec![(k("D"), v), (k("N"), RObj::Int(lvl as i64))]) } else { RObj::Array(vec![RObj::Int(lvl as i64), v]) };
        }
        if let Some(RObj::Dict(c)) = d.objects.get_mut(&cat) {
            c.push((k("Deep"), v));
        }
    }
    d.trailer = vec![(k("Root"), rref(cat))];
    if !extra_ids.is_empty() && r.bool() {
        d.trailer.push((k("Info"), rref(*r.pick(&extra_ids))));
    }
    if r.chance(1, 3) {
        let t = *r.pick(&pool);
        d.trailer.push((k("Extra"), RObj::Array(vec![RObj::Ref(t.0, t.1), RObj::Int(4)])));
    }
    // bookmarks
    let mut bookmarks = vec![];
    if !page_ids.is_empty() {
        for i in 0..r.usize_below(6) {
            let page = if r.chance(1, 6) { (0, 0) } else { *r.pick(&page_ids) };
            // (one bookmark in six names a parent that does not exist: it is kept in the table but hangs outside the
            // outline - its target has to follow a renumbering all the same)
            let parent = if r.chance(1, 6) { Some(usize::MAX) } else if i > 0 && r.bool() { Some(r.usize_below(i)) } else { None };
            bookmarks.push((format!("bm{}", i), page, parent));
        }
    }
    let olds: Vec<u32> = d.objects.keys().map(|x| x.0).collect();
    let start = match r.below(6) {
        0 => 1,
        1 => 2,
        2 if !olds.is_empty() => *r.pick(&olds),
        3 => 1_000_000,
        4 => cur / 2 + 1,
        _ => 1,
    };
    let skew = if r.chance(1, 3) { *r.pick(&[1i64, 7, -1, -3, 1000]) } else { 0 };
    let twice = r.chance(1, 4);
    GCase { model: d, bookmarks, start, skew, twice }
}

pub fn build(c: &GCase) -> Document {
    let mut doc = to_lo_doc(&c.model, false);
    let mut ids = vec![];
    for (title, page, parent) in &c.bookmarks {
        let id = doc.add_bookmark(Bookmark::new(title.clone(), [0.0, 0.0, 0.0], 0, *page), parent.map(|p| if p == usize::MAX { 9_999_999 } else { ids[p] }));
        ids.push(id);
    }
    doc
}

/// the oracle
pub fn check(before: &Document, after: &Document, start: u32, use_default: bool) -> Vec<(String, String)> {
    let mut soft: Vec<(String, String)> = vec![];
    let r = check_inner(before, after, start, use_default, &mut soft);
    soft.dedup_by(|a, b| a.0 == b.0);
    soft.truncate(1);
    soft.extend(r);
    soft
}

fn check_inner(before: &Document, after: &Document, start: u32, use_default: bool, soft: &mut Vec<(String, String)>) -> Option<(String, String)> {
    let b = from_lo_doc(before);
    let a = from_lo_doc(after);
    let n = b.objects.len();
    // dense numbering
    let nums: Vec<u32> = a.objects.keys().map(|x| x.0).collect();
    let expect: Vec<u32> = (start..start + n as u32).collect();
    let mut sorted = nums.clone();
    sorted.sort();
    if sorted != expect {
        return Some(("numbering".into(), format!("object numbers after renumbering are not {}..{}: {:?}", start, start + n as u32 - 1, &sorted[..sorted.len().min(12)])));
    }
    if n > 0 && after.max_id != start + n as u32 - 1 {
        return Some(("max_id".into(), format!("max_id {} != last object number {}", after.max_id, start + n as u32 - 1)));
    }
    let _ = use_default;
    // lock-step walk
    let mut map: HashMap<(u32, u16), (u32, u16)> = HashMap::new();
    let mut rev: HashMap<(u32, u16), (u32, u16)> = HashMap::new();
    let mut queue: Vec<((u32, u16), (u32, u16))> = vec![];
    let mut err: Option<(String, String)> = None;
    fn walk(
        x: &RObj, y: &RObj, path: &str, b: &RDoc, a: &RDoc, map: &mut HashMap<(u32, u16), (u32, u16)>, rev: &mut HashMap<(u32, u16), (u32, u16)>,
        queue: &mut Vec<((u32, u16), (u32, u16))>, err: &mut Option<(String, String)>, soft: &mut Vec<(String, String)>,
    ) {
        if err.is_some() {
            return;
        }
        match (x, y) {
            (RObj::Ref(n1, g1), RObj::Ref(n2, g2)) => {
                let (i, j) = ((*n1, *g1), (*n2, *g2));
                if b.objects.contains_key(&i) {
                    if !a.objects.contains_key(&j) {
                        *err = Some(("reference-lost".into(), format!("{}: {} {} R resolved before, its counterpart {} {} R resolves to nothing", path, i.0, i.1, j.0, j.1)));
                        return;
                    }
                    match map.get(&i) {
                        Some(m) if *m != j => {
                            *err = Some(("inconsistent-renaming".into(), format!("{}: {} {} R is renamed to {} {} R here and to {} {} R elsewhere", path, i.0, i.1, j.0, j.1, m.0, m.1)));
                        }
                        Some(_) => {}
                        None => {
                            if let Some(o) = rev.get(&j) {
                                *err = Some(("not-injective".into(), format!("{}: {} {} R and {} {} R are both renamed to {} {} R", path, i.0, i.1, o.0, o.1, j.0, j.1)));
                                return;
                            }
                            map.insert(i, j);
                            rev.insert(j, i);
                            queue.push((i, j));
                        }
                    }
                } else if a.objects.contains_key(&j) {
                    // recorded but not fatal: the walk goes on so that other violations in the same
                    // document are still seen
                    soft.push(("dangling-resolves".into(), format!("{}: {} {} R resolved to nothing before; its counterpart {} {} R now resolves to an object", path, i.0, i.1, j.0, j.1)));
                }
            }
            (RObj::Array(p), RObj::Array(q)) if p.len() == q.len() => {
                for (i, (u, v)) in p.iter().zip(q).enumerate() {
                    walk(u, v, &format!("{}[{}]", path, i), b, a, map, rev, queue, err, soft);
                }
            }
            (RObj::Dict(p), RObj::Dict(q)) | (RObj::Stream(p, _), RObj::Stream(q, _)) if p.len() == q.len() => {
                if let (RObj::Stream(_, c1), RObj::Stream(_, c2)) = (x, y) {
                    if c1 != c2 {
                        *err = Some(("content-changed".into(), format!("{}: stream body changed", path)));
                        return;
                    }
                }
                for (kk, u) in p {
                    match RObj::dict_get(q, kk) {
                        Some(v) => walk(u, v, &format!("{}/{}", path, String::from_utf8_lossy(kk)), b, a, map, rev, queue, err, soft),
                        None => {
                            *err = Some(("content-changed".into(), format!("{}: key {} disappeared", path, String::from_utf8_lossy(kk))));
                            return;
                        }
                    }
                }
            }
            (p, q) => {
                if !robj_eq(p, q) {
                    *err = Some(("content-changed".into(), format!("{}: {} became {}", path, p.show().chars().take(60).collect::<String>(), q.show().chars().take(60).collect::<String>())));
                }
            }
        }
    }
    walk(&RObj::Dict(b.trailer.clone()), &RObj::Dict(a.trailer.clone()), "trailer", &b, &a, &mut map, &mut rev, &mut queue, &mut err, soft);
    while let Some((i, j)) = queue.pop() {
        if err.is_some() {
            break;
        }
        let (x, y) = (b.objects[&i].clone(), a.objects[&j].clone());
        walk(&x, &y, &format!("obj {} {}", i.0, i.1), &b, &a, &mut map, &mut rev, &mut queue, &mut err, soft);
    }
    if err.is_some() {
        return err;
    }
    // page order
    let pb: Vec<(u32, u16)> = before.page_iter().collect();
    let pa: Vec<(u32, u16)> = after.page_iter().collect();
    let mapped: Vec<Option<(u32, u16)>> = pb.iter().map(|p| map.get(p).cloned()).collect();
    if mapped.iter().any(|m| m.is_none()) || mapped.iter().map(|m| m.unwrap()).collect::<Vec<_>>() != pa {
        return Some(("page-order".into(), format!("page order changed: before {:?} (renamed {:?}) after {:?}", &pb[..pb.len().min(8)], &mapped[..mapped.len().min(8)], &pa[..pa.len().min(8)])));
    }
    // bookmarks
    for (id, bm) in &before.bookmark_table {
        let Some(am) = after.bookmark_table.get(id) else {
            return Some(("bookmark-lost".into(), format!("bookmark {} disappeared", id)));
        };
        if bm.page.0 == 0 {
            if am.page != bm.page {
                return Some(("bookmark-target".into(), format!("zero-page bookmark {} now points at {:?}", id, am.page)));
            }
            continue;
        }
        if let Some(m) = map.get(&bm.page) {
            if am.page != *m {
                return Some(("bookmark-target".into(), format!("bookmark {} pointed at {:?} (renamed {:?}) but now points at {:?}", id, bm.page, m, am.page)));
            }
        }
    }
    None
}

/// renumber a copy and judge it; None when the call panicked
fn renumber_checked(before: &Document, start: u32) -> (Option<Document>, Vec<(String, String)>) {
    let mut after = before.clone();
    let r = crate::props::catch(|| {
        if start == 1 {
            after.renumber_objects();
        } else {
            after.renumber_objects_with(start);
        }
    });
    if let Err(p) = r {
        return (None, vec![("panic".into(), format!("renumber_objects_with({}) panicked: {}", start, p))]);
    }
    let v = check(before, &after, start, start == 1);
    (Some(after), v)
}

fn skewed(doc: &Document, skew: i64) -> Document {
    let mut d = doc.clone();
    d.max_id = (d.max_id as i64 + skew).clamp(0, u32::MAX as i64 - 2_000_000) as u32;
    d
}

pub fn run_case(c: &GCase) -> Vec<(String, String)> {
    let before = skewed(&build(c), c.skew);
    let (after, mut out) = renumber_checked(&before, c.start);
    if let (true, Some(after)) = (c.twice && out.iter().all(|(s, _)| s == "dangling-resolves"), after) {
        // the numbers are now consecutive from the start value; the counter is put out of step again
        let again = skewed(&after, c.skew);
        let (_, v) = renumber_checked(&again, c.start);
        out.extend(v.into_iter().map(|(s, w)| (if s == "dangling-resolves" { s } else { format!("second-pass/{}", s) }, w)));
        out.dedup_by(|a, b| a.0 == b.0);
    }
    out
}

fn case_json(c: &GCase) -> Value {
    json!({"kind":"graph","doc":rdoc_to_json(&c.model),"start":c.start,"skew":c.skew,"twice":c.twice,"bookmarks":c.bookmarks.iter().map(|(t,p,par)| json!({"title":t,"page":[p.0,p.1],"parent":par})).collect::<Vec<_>>()})
}

pub fn run(cfg: &RunCfg) -> (PropMeta, ShardOut, Map<String, Value>) {
    let n = cfg.n(24_000, 1_500_000);
    let per = (n as usize + cfg.threads - 1) / cfg.threads;
    let out = shards(cfg.threads, |shard| {
        let mut out = ShardOut::default();
        let mut starts: BTreeSet<u32> = BTreeSet::new();
        for i in 0..per {
            let mut r = Rng::for_case(cfg.seed, TAG, shard as u64, i as u64);
            let c = gen_case(&mut r);
            out.evaluations += 1;
            starts.insert(c.start.min(5000));
            out.digests.insert(gen::digest_rdoc(&c.model) ^ c.start as u64);
            if !c.bookmarks.is_empty() {
                out.count("cases_with_bookmarks");
            }
            for (sig, what) in run_case(&c) {
                out.finding(Finding { signature: format!("C10/{}", sig), what, witness: case_json(&c) });
            }
            if i == 0 {
                out.sample(json!({"start":c.start,"objects":c.model.objects.len(),"bookmarks":c.bookmarks.len(),"doc":c.model.show().chars().take(400).collect::<String>()}));
            }
        }
        out.max("max_distinct_start_values", starts.len() as u64);
        out
    });
    let meta = PropMeta {
        level: "exploration",
        rule: "random reference graphs: page trees (0..11 pages, one or two levels) whose page ids are shuffled against page order, sparse numbers, optional non-zero generations, extra objects of every kind with shared / cyclic / dangling / wrong-generation references, references from the trailer, unreachable objects, now and then a reference under 20..250 levels of direct containers, bookmarks (incl. zero-page) ; start in {1, 2, an existing number, mid-range, 1,000,000}; Document::max_id out of step with the objects (behind or ahead) in one case in three; one case in four renumbered a second time with the same start. Oracle: dense numbering from start, max_id, lock-step renaming walk from the trailers (consistent, injective, equal referents, dangling stays dangling), page order, bookmark targets. distinct = distinct (document, start).".into(),
        assumptions: vec!["one generation per object number; only objects reachable from the trailer are compared (the statement's scope)".into()],
        exhaustive: false,
        min_distinct: 1000,
    };
    (meta, out, Map::new())
}

pub fn replay(w: &Value) -> Vec<Finding> {
    let Some(model) = w.get("doc").and_then(rdoc_from_json) else { return vec![] };
    let start = w.get("start").and_then(|x| x.as_u64()).unwrap_or(1) as u32;
    let bookmarks = w
        .get("bookmarks")
        .and_then(|a| a.as_array())
        .map(|a| a.iter().map(|b| (b["title"].as_str().unwrap_or("").to_string(), (b["page"][0].as_u64().unwrap_or(0) as u32, b["page"][1].as_u64().unwrap_or(0) as u16), b["parent"].as_u64().map(|x| x as usize))).collect())
        .unwrap_or_default();
    let skew = w.get("skew").and_then(|x| x.as_i64()).unwrap_or(0);
    let twice = w.get("twice").and_then(|x| x.as_bool()).unwrap_or(false);
    let c = GCase { model, bookmarks, start, skew, twice };
    run_case(&c).into_iter().map(|(s, what)| Finding { signature: format!("C10/{}", s), what, witness: w.clone() }).collect()
}

#[allow(dead_code)]
fn _t(_: BTreeMap<u8, u8>, _: HashSet<u8>) {}
