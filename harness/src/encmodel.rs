//! Standard security handler applied to the abstract document model with the reference
//! primitives (refimpl::sechandler): encrypt / authenticate / decrypt an RDoc exactly as
//! ISO 32000 §7.6 prescribes. Shares no code with lopdf's encryption module.

use crate::prng::Rng;
use crate::refimpl::robj::{RDoc, RObj};
use crate::refimpl::sechandler::*;

#[derive(Clone, Debug)]
pub struct EncCfg {
    pub v: i64,
    pub r: i64,
    pub length_bits: usize,
    pub stm: Cfm,
    pub strf: Cfm,
    /// further crypt filters listed in CF under their own names (selected only by per-stream Crypt overrides)
    pub extra: Vec<(Vec<u8>, Cfm)>,
    /// when set, the identity transformation is not selected by the predefined name Identity but by a crypt filter
    /// of this name listed in CF with /CFM /None (ISO 32000-1 Table 25)
    pub identity_name: Option<Vec<u8>>,
    pub encrypt_metadata: bool,
    pub p: i32,
    /// prepared passwords (PDFDoc bytes for R<=4, SASLprep UTF-8 for R>=5)
    pub user_pw: Vec<u8>,
    pub owner_pw: Vec<u8>,
}

impl EncCfg {
    pub fn label(&self) -> String {
        format!("V{}R{}/{}bit/stm={:?}/str={:?}/meta={}", self.v, self.r, self.length_bits, self.stm, self.strf, self.encrypt_metadata)
    }
}

fn k(s: &str) -> Vec<u8> {
    s.as_bytes().to_vec()
}
fn name(s: &str) -> RObj {
    RObj::Name(s.as_bytes().to_vec())
}

fn cfm_name(c: Cfm) -> &'static str {
    match c {
        Cfm::Identity => "Identity",
        Cfm::Rc4 => "V2",
        Cfm::AesV2 => "AESV2",
        Cfm::AesV3 => "AESV3",
    }
}

/// build O/U/OE/UE/Perms for the configuration; returns the dictionary values and the file key
pub fn make_encdict(cfg: &EncCfg, id0: &[u8], r: &mut Rng) -> (EncDict, Vec<u8>) {
    let mut d = EncDict { v: cfg.v, r: cfg.r, length_bits: cfg.length_bits, p: cfg.p, encrypt_metadata: cfg.encrypt_metadata, id0: id0.to_vec(), ..Default::default() };
    if cfg.r <= 4 {
        d.o = alg3_owner_value(cfg.r, cfg.length_bits, &cfg.owner_pw, &cfg.user_pw);
        let key = alg2_file_key(&d, &cfg.user_pw);
        let mut u = alg4_5_user_value(&d, &cfg.user_pw);
        if cfg.r >= 3 {
            // the last 16 bytes of U are arbitrary padding
            for b in u[16..].iter_mut() {
                *b = r.u8();
            }
        }
        d.u = u;
        (d, key)
    } else {
        let mut key = [0u8; 32];
        for b in key.iter_mut() {
            *b = r.u8();
        }
        let salt = |r: &mut Rng| -> [u8; 8] {
            let mut s = [0u8; 8];
            for b in s.iter_mut() {
                *b = r.u8();
            }
            s
        };
        let (uv, uk, ov, ok) = (salt(r), salt(r), salt(r), salt(r));
        let (u, ue) = alg8_user(cfg.r, &cfg.user_pw, &key, &uv, &uk);
        let (o, oe) = alg9_owner(cfg.r, &cfg.owner_pw, &key, &ov, &ok, &u);
        d.u = u;
        d.ue = ue;
        d.o = o;
        d.oe = oe;
        d.perms = alg10_perms(cfg.p, cfg.encrypt_metadata, &key, [r.u8(), r.u8(), r.u8(), r.u8()]);
        (d, key.to_vec())
    }
}

/// the encryption dictionary object for `d`
pub fn encdict_obj(cfg: &EncCfg, d: &EncDict) -> RObj {
    let mut e = vec![(k("Filter"), name("Standard")), (k("V"), RObj::Int(d.v)), (k("R"), RObj::Int(d.r)), (k("O"), RObj::Str(d.o.clone(), true)), (k("U"), RObj::Str(d.u.clone(), false)), (k("P"), RObj::Int(d.p as i64))];
    if d.v == 2 || d.v == 4 || (d.v == 1 && false) {
        e.push((k("Length"), RObj::Int(d.length_bits as i64)));
    }
    if d.v >= 4 {
        let mut cf = vec![];
        // Type is optional in a crypt filter dictionary: one encryption dictionary in four (chosen by a bit pair of
        // the O entry) leaves it out
        let typed = d.o.first().map(|b| b & 3 != 0).unwrap_or(true);
        let mut add = |nm: &str, c: Cfm, cf: &mut Vec<(Vec<u8>, RObj)>| {
            if c != Cfm::Identity && !cf.iter().any(|(kk, _): &(Vec<u8>, RObj)| kk == nm.as_bytes()) {
                let mut e = vec![(k("CFM"), name(cfm_name(c))), (k("AuthEvent"), name("DocOpen")), (k("Length"), RObj::Int(if c == Cfm::AesV3 { 32 } else { 16 }))];
                if typed {
                    e.insert(0, (k("Type"), name("CryptFilter")));
                }
                cf.push((k(nm), RObj::Dict(e)));
            }
        };
        let idn: String = cfg.identity_name.as_ref().map(|n| String::from_utf8_lossy(n).to_string()).unwrap_or_else(|| "Identity".into());
        let nm = |c: Cfm| -> &str {
            match c {
                Cfm::Identity => &idn,
                Cfm::Rc4 => "FRC4",
                Cfm::AesV2 => "StdCF",
                Cfm::AesV3 => "StdCF",
            }
        };
        add(nm(cfg.stm), cfg.stm, &mut cf);
        add(nm(cfg.strf), cfg.strf, &mut cf);
        if cfg.identity_name.is_some() && (cfg.stm == Cfm::Identity || cfg.strf == Cfm::Identity) {
            cf.push((k(&idn), RObj::Dict(vec![(k("Type"), name("CryptFilter")), (k("CFM"), name("None"))])));
        }
        for (n, c) in &cfg.extra {
            add(&String::from_utf8_lossy(n), *c, &mut cf);
        }
        e.push((k("CF"), RObj::Dict(cf)));
        e.push((k("StmF"), name(nm(cfg.stm))));
        e.push((k("StrF"), name(nm(cfg.strf))));
        if !d.encrypt_metadata {
            e.push((k("EncryptMetadata"), RObj::Bool(false)));
        }
    }
    if d.r >= 5 {
        e.push((k("OE"), RObj::Str(d.oe.clone(), true)));
        e.push((k("UE"), RObj::Str(d.ue.clone(), true)));
        e.push((k("Perms"), RObj::Str(d.perms.clone(), true)));
    }
    RObj::Dict(e)
}

fn is_metadata(o: &RObj) -> bool {
    match o {
        RObj::Stream(d, _) | RObj::Dict(d) => RObj::dict_get(d, b"Type") == Some(&name("Metadata")),
        _ => false,
    }
}
fn is_xref(o: &RObj) -> bool {
    matches!(o, RObj::Stream(d, _) if RObj::dict_get(d, b"Type") == Some(&name("XRef")))
}

/// the crypt filter a stream is subject to: the document default, or the one named by a Crypt
/// filter's decode parameters (ISO 32000-1 7.6.5; missing Name = Identity; V >= 4 only)
pub fn stream_cfm(cfg: &EncCfg, sd: &[(Vec<u8>, RObj)]) -> Cfm {
    let has_crypt = match RObj::dict_get(sd, b"Filter") {
        Some(RObj::Array(a)) => a.contains(&name("Crypt")),
        Some(RObj::Name(n)) => n == b"Crypt",
        _ => false,
    };
    if cfg.v < 4 || !has_crypt {
        return cfg.stm;
    }
    let nm = match RObj::dict_get(sd, b"DecodeParms") {
        Some(RObj::Dict(dp)) => match RObj::dict_get(dp, b"Name") {
            Some(RObj::Name(n)) => n.clone(),
            _ => b"Identity".to_vec(),
        },
        _ => b"Identity".to_vec(),
    };
    // the names encdict_obj() gives to the filters it lists in CF
    let listed = |c: Cfm| -> &'static [u8] {
        match c {
            Cfm::Identity => b"Identity",
            Cfm::Rc4 => b"FRC4",
            Cfm::AesV2 | Cfm::AesV3 => b"StdCF",
        }
    };
    for c in [cfg.stm, cfg.strf] {
        if c != Cfm::Identity && nm == listed(c) {
            return c;
        }
    }
    for (n, c) in &cfg.extra {
        if *n == nm {
            return *c;
        }
    }
    // (a named identity filter, the predefined Identity and an unknown name all mean: not encrypted)
    Cfm::Identity
}

fn map_strings(o: &mut RObj, f: &mut dyn FnMut(&mut Vec<u8>)) {
    match o {
        RObj::Str(s, _) => f(s),
        RObj::Array(a) => a.iter_mut().for_each(|x| map_strings(x, f)),
        RObj::Dict(d) => d.iter_mut().for_each(|(_, x)| map_strings(x, f)),
        RObj::Stream(d, _) => d.iter_mut().for_each(|(_, x)| map_strings(x, f)),
        _ => {}
    }
}

/// encrypt every string and stream of `doc` (ISO 32000 Algorithm 1 / 1.A); `encrypt_id` is the
/// object holding the encryption dictionary (never encrypted)
pub fn encrypt_doc(doc: &RDoc, cfg: &EncCfg, file_key: &[u8], r: &mut Rng, skip: Option<(u32, u16)>) -> RDoc {
    let mut out = doc.clone();
    for (id, o) in out.objects.iter_mut() {
        if Some(*id) == skip || is_xref(o) {
            continue;
        }
        if is_metadata(o) && !cfg.encrypt_metadata {
            continue;
        }
        let mut rr = r.clone();
        let mut iv = move || -> [u8; 16] {
            let mut v = [0u8; 16];
            for b in v.iter_mut() {
                *b = rr.u8();
            }
            v
        };
        map_strings(o, &mut |s| *s = encrypt_data(file_key, id.0, id.1, cfg.strf, iv(), s));
        if let RObj::Stream(sd, data) = o {
            let mut v = [0u8; 16];
            for b in v.iter_mut() {
                *b = r.u8();
            }
            *data = encrypt_data(file_key, id.0, id.1, stream_cfm(cfg, sd), v, data);
        }
    }
    out
}

/// AES ciphertexts as ISO 32000-1 7.6.2 defines them: a 16-byte initialisation vector followed by the padded data,
/// where padding is always added - an empty string or stream is 32 bytes long once encrypted. Returns the first
/// string or stream of an encrypted document that has another shape.
pub fn aes_shape_violation(doc: &RDoc, cfg: &EncCfg, skip: Option<(u32, u16)>) -> Option<String> {
    let aes = |c: Cfm| matches!(c, Cfm::AesV2 | Cfm::AesV3);
    for (id, o) in &doc.objects {
        if Some(*id) == skip || is_xref(o) || (is_metadata(o) && !cfg.encrypt_metadata) {
            continue;
        }
        let mut bad: Option<usize> = None;
        if aes(cfg.strf) {
            let mut copy = o.clone();
            map_strings(&mut copy, &mut |s| {
                if s.len() < 32 || s.len() % 16 != 0 {
                    bad.get_or_insert(s.len());
                }
            });
        }
        if let Some(n) = bad {
            return Some(format!("a string of object {} {} is {} bytes long under an AES filter (want 16-byte IV + whole blocks, at least 32)", id.0, id.1, n));
        }
        if let RObj::Stream(sd, data) = o {
            if aes(stream_cfm(cfg, sd)) && (data.len() < 32 || data.len() % 16 != 0) {
                return Some(format!("stream {} {} is {} bytes long under an AES filter (want 16-byte IV + whole blocks, at least 32)", id.0, id.1, data.len()));
            }
        }
    }
    None
}

pub fn decrypt_doc(doc: &RDoc, cfg: &EncCfg, file_key: &[u8], skip: Option<(u32, u16)>) -> Result<RDoc, String> {
    let mut out = doc.clone();
    let mut err: Option<String> = None;
    for (id, o) in out.objects.iter_mut() {
        if Some(*id) == skip || is_xref(o) {
            continue;
        }
        if is_metadata(o) && !cfg.encrypt_metadata {
            continue;
        }
        map_strings(o, &mut |s| match decrypt_data(file_key, id.0, id.1, cfg.strf, s) {
            Ok(p) => *s = p,
            Err(e) => err = Some(format!("string in object {} {}: {}", id.0, id.1, e)),
        });
        if let RObj::Stream(sd, data) = o {
            let cfm = stream_cfm(cfg, sd);
            match decrypt_data(file_key, id.0, id.1, cfm, data) {
                Ok(p) => *data = p,
                Err(e) => err = Some(format!("stream {} {}: {}", id.0, id.1, e)),
            }
        }
    }
    match err {
        Some(e) => Err(e),
        None => Ok(out),
    }
}

/// read an encryption dictionary written by someone else back into (EncCfg skeleton, EncDict)
pub fn parse_encdict(e: &[(Vec<u8>, RObj)], id0: &[u8]) -> Result<(EncCfg, EncDict), String> {
    let int = |kk: &str| match RObj::dict_get(e, kk.as_bytes()) {
        Some(RObj::Int(i)) => Some(*i),
        _ => None,
    };
    let s = |kk: &str| match RObj::dict_get(e, kk.as_bytes()) {
        Some(RObj::Str(b, _)) => b.clone(),
        _ => vec![],
    };
    if RObj::dict_get(e, b"Filter") != Some(&name("Standard")) {
        return Err("Filter is not /Standard".into());
    }
    let v = int("V").ok_or("no V")?;
    let r = int("R").ok_or("no R")?;
    let length_bits = match v {
        1 => 40,
        2 | 4 => int("Length").unwrap_or(if v == 4 { 128 } else { 40 }) as usize,
        5 => 256,
        _ => return Err(format!("unsupported V {}", v)),
    };
    let p = int("P").ok_or("no P")?;
    // P is a 32-bit quantity; accept it written as signed or unsigned
    let p32 = p as u32 as i32;
    let encrypt_metadata = !matches!(RObj::dict_get(e, b"EncryptMetadata"), Some(RObj::Bool(false)));
    let method = |f: &[(Vec<u8>, RObj)]| -> Result<Cfm, String> {
        match RObj::dict_get(f, b"CFM") {
            Some(RObj::Name(m)) if m == b"V2" => Ok(Cfm::Rc4),
            Some(RObj::Name(m)) if m == b"AESV2" => Ok(Cfm::AesV2),
            Some(RObj::Name(m)) if m == b"AESV3" => Ok(Cfm::AesV3),
            Some(RObj::Name(m)) if m == b"None" => Ok(Cfm::Identity),
            None => Ok(Cfm::Identity),
            _ => Err("unknown CFM".into()),
        }
    };
    let filt = |kk: &str| -> Result<Cfm, String> {
        if v < 4 {
            return Ok(Cfm::Rc4);
        }
        let nm = match RObj::dict_get(e, kk.as_bytes()) {
            Some(RObj::Name(n)) => n.clone(),
            None => b"Identity".to_vec(),
            _ => return Err(format!("{} is not a name", kk)),
        };
        if nm == b"Identity" {
            return Ok(Cfm::Identity);
        }
        let Some(RObj::Dict(cf)) = RObj::dict_get(e, b"CF") else { return Err("no CF".into()) };
        let Some(RObj::Dict(f)) = RObj::dict_get(cf, &nm) else { return Err(format!("crypt filter {} not in CF", String::from_utf8_lossy(&nm))) };
        method(f)
    };
    // every crypt filter the dictionary lists can be selected by a per-stream Crypt override
    let mut extra = vec![];
    if v >= 4 {
        if let Some(RObj::Dict(cf)) = RObj::dict_get(e, b"CF") {
            for (n, f) in cf {
                if let RObj::Dict(f) = f {
                    if n != b"Identity" && n != b"FRC4" && n != b"StdCF" {
                        extra.push((n.clone(), method(f)?));
                    }
                }
            }
        }
    }
    let cfg = EncCfg { v, r, length_bits, stm: filt("StmF")?, strf: filt("StrF")?, extra, identity_name: None, encrypt_metadata, p: p32, user_pw: vec![], owner_pw: vec![] };
    let d = EncDict { v, r, length_bits, p: p32, encrypt_metadata, o: s("O"), u: s("U"), oe: s("OE"), ue: s("UE"), perms: s("Perms"), id0: id0.to_vec() };
    Ok((cfg, d))
}

/// authenticate `pw` (prepared bytes) as user or owner; returns the file key
pub fn authenticate(d: &EncDict, pw: &[u8]) -> Option<(Vec<u8>, &'static str)> {
    if d.r <= 4 {
        if let Some(kk) = alg6_auth_user(d, pw) {
            return Some((kk, "user"));
        }
        alg7_auth_owner(d, pw).map(|kk| (kk, "owner"))
    } else {
        alg2a_file_key(d, pw).map(|(kk, owner)| (kk, if owner { "owner" } else { "user" }))
    }
}

/// does the permission word conform (reserved bits as ISO 32000 Table 22 requires)?
pub fn p_conforms(p: i32, _r: i64) -> bool {
    // bits 1-2 must be 0, bits 7-8 and 13-32 must be 1
    let u = p as u32;
    (u & 0b11) == 0 && (u & 0xFFFF_F0C0) == 0xFFFF_F0C0
}
