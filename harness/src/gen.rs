//! Seeded workload generators over the harness model.

use crate::prng::Rng;
use crate::refimpl::robj::{RDoc, RObj};
use std::collections::BTreeMap;

/// bytes that exercise every escape / delimiter / white-space rule of the lexical layer
pub const HOSTILE: &[u8] = b"()<>[]{}/%#\\ \t\n\r\x0c\x00\x08'\"0123456789abcdefnrtbfABCDEFzRobjendstream-+.~\x7f\x80\xa0\xad\xfe\xff";

pub fn hostile_bytes(r: &mut Rng, max: usize) -> Vec<u8> {
    let n = match r.below(10) {
        0 => 0,
        1 => 1,
        2 => 2,
        _ => r.usize_below(max + 1),
    };
    let mode = r.below(6);
    let mut v = Vec::with_capacity(n);
    for _ in 0..n {
        v.push(match mode {
            0 => r.u8(),
            1 => *r.pick(HOSTILE),
            2 => *r.pick(b"()\\\r\n"),
            3 => {
                if r.bool() {
                    *r.pick(HOSTILE)
                } else {
                    r.u8()
                }
            }
            4 => *r.pick(b"\\0123456789()nrtbf\r\n "),
            _ => 0x20 + (r.u8() % 0x5f),
        });
    }
    if r.chance(1, 12) && n >= 2 {
        // balanced / unbalanced parenthesis structures
        let k = 1 + r.usize_below(12);
        let mut w = vec![b'('; k];
        w.extend(std::iter::repeat(b')').take(if r.bool() { k } else { r.usize_below(2 * k + 1) }));
        let at = r.usize_below(v.len());
        v.splice(at..at, w);
    }
    v
}

pub const KEYWORDS: &[&[u8]] = &[
    b"Type", b"Subtype", b"Kids", b"Parent", b"Count", b"Contents", b"Resources", b"Font", b"Length1", b"Filter",
    b"DecodeParms", b"Root", b"Info", b"ID", b"Title", b"A", b"B", b"obj", b"endobj", b"stream", b"endstream", b"R", b"null",
    b"true", b"false", b"xref", b"trailer", b"startxref", b"F1", b"Name", b"N", b"First", b"Extends", b"W", b"Index",
];

pub fn name_bytes(r: &mut Rng) -> Vec<u8> {
    match r.below(4) {
        0 => r.pick(KEYWORDS).to_vec(),
        1 => {
            let n = 1 + r.usize_below(8);
            (0..n).map(|_| *r.pick(b"ABCDEFGHIJKLMNOPQRSTUVWXYZabcdefghijklmnopqrstuvwxyz0123456789.-_+")).collect()
        }
        _ => hostile_bytes(r, 12),
    }
}

/// names that the writer treats as file-structure markers on top-level dictionaries/streams
fn forbidden_type(n: &[u8]) -> bool {
    n == b"ObjStm" || n == b"XRef" || n == b"Linearized"
}

pub fn real_value(r: &mut Rng) -> f32 {
    loop {
        let x = match r.below(12) {
            0 => f32::from_bits(r.u32()),
            1 => (r.range(-100000, 100000) as f32) / 1000.0,
            2 => r.range(-1000, 1000) as f32,
            3 => *r.pick(&[0.0f32, -0.0, 1.0, -1.0, 0.5, 1e-7, 1e7, 16777216.0, 16777217.0, 3.1415927, f32::MIN_POSITIVE, 1e-45, 1.1754942e-38]),
            4 => *r.pick(&[f32::MAX, f32::MIN, 9.223372e18, -9.223372e18, 9.223373e18, 1e19, 1e20, -1e20, 1e30, 4294967296.0, 2147483648.0]),
            5 => f32::from_bits(r.u32() & 0x007f_ffff), // subnormals
            6 => (r.next_u64() as f32) * if r.bool() { 1.0 } else { -1.0 },
            7 => (r.range(-999, 999) as f32) * 10f32.powi(r.range(-40, 38) as i32),
            _ => (r.range(-2_000_000, 2_000_000) as f32) / *r.pick(&[1.0f32, 2.0, 4.0, 10.0, 100.0, 3.0, 7.0]),
        };
        if x.is_finite() {
            return x;
        }
    }
}

pub fn int_value(r: &mut Rng) -> i64 {
    match r.below(8) {
        0 => *r.pick(&[0, 1, -1, i64::MAX, i64::MIN, i32::MAX as i64, i32::MIN as i64, 1 << 32, -(1 << 32), 255, 256, 65535, 65536]),
        1 => r.next_u64() as i64,
        _ => r.range(-100000, 100000),
    }
}

#[derive(Clone, Debug)]
pub struct ObjCfg {
    pub max_depth: usize,
    pub refs: bool,
    /// candidate reference targets (some existing, some dangling)
    pub ref_pool: Vec<(u32, u16)>,
    pub max_str: usize,
    pub max_children: usize,
}

pub fn direct_object(r: &mut Rng, cfg: &ObjCfg, depth: usize) -> RObj {
    let leaf_only = depth >= cfg.max_depth;
    let k = if leaf_only { r.below(7) } else { r.below(10) };
    match k {
        0 => RObj::Null,
        1 => RObj::Bool(r.bool()),
        2 => RObj::Int(int_value(r)),
        3 => RObj::Real(real_value(r)),
        4 => RObj::Name(name_bytes(r)),
        5 => RObj::Str(hostile_bytes(r, cfg.max_str), r.chance(1, 3)),
        6 => {
            if cfg.refs && !cfg.ref_pool.is_empty() {
                let (n, g) = *r.pick(&cfg.ref_pool);
                RObj::Ref(n, g)
            } else {
                RObj::Int(int_value(r))
            }
        }
        7 | 8 => {
            let n = if r.chance(1, 8) { 0 } else { r.usize_below(cfg.max_children + 1) };
            RObj::Array((0..n).map(|_| direct_object(r, cfg, depth + 1)).collect())
        }
        _ => RObj::Dict(dict_entries(r, cfg, depth + 1, false)),
    }
}

pub fn dict_entries(r: &mut Rng, cfg: &ObjCfg, depth: usize, top_level: bool) -> Vec<(Vec<u8>, RObj)> {
    let n = if r.chance(1, 8) { 0 } else { r.usize_below(cfg.max_children + 1) };
    let mut out: Vec<(Vec<u8>, RObj)> = vec![];
    for _ in 0..n {
        let k = name_bytes(r);
        if out.iter().any(|(kk, _)| *kk == k) {
            continue;
        }
        let v = direct_object(r, cfg, depth);
        if top_level {
            // top-level dictionaries typed as file-structure containers are dropped by the
            // writer on purpose; a /Linearized key has the same effect. Outside the domain.
            if k == b"Linearized" {
                continue;
            }
            if k == b"Type" {
                if let RObj::Name(n) = &v {
                    if forbidden_type(n) {
                        continue;
                    }
                }
            }
        }
        out.push((k, v));
    }
    out
}

pub fn stream_body(r: &mut Rng, max: usize) -> Vec<u8> {
    match r.below(6) {
        0 => vec![],
        1 => b"\nendstream\nendobj\n".to_vec(),
        2 => {
            let mut v = hostile_bytes(r, max);
            v.extend_from_slice(b"endstream");
            v.extend(hostile_bytes(r, 8));
            v
        }
        3 => r.bytes(r.clone().usize_below(max + 1)),
        4 => {
            let mut v = hostile_bytes(r, max);
            v.extend_from_slice(*r.pick(&[&b"\r"[..], b"\n", b"\r\n", b" ", b"\r\r", b"\n\n"]));
            v
        }
        _ => hostile_bytes(r, max),
    }
}

pub fn top_object(r: &mut Rng, cfg: &ObjCfg) -> RObj {
    match r.below(10) {
        0 | 1 => {
            let mut d = dict_entries(r, cfg, 1, true);
            d.retain(|(k, _)| k != b"Length" && k != b"Filter" && k != b"DecodeParms");
            RObj::Stream(d, stream_body(r, 200))
        }
        2 | 3 | 4 => RObj::Dict(dict_entries(r, cfg, 1, true)),
        _ => direct_object(r, cfg, 0),
    }
}

#[derive(Clone, Debug)]
pub struct DocCfg {
    pub max_objects: usize,
    pub max_depth: usize,
    pub generations: bool,
    pub sparse: bool,
}

pub fn version_string(r: &mut Rng) -> String {
    match r.below(6) {
        0 => "1.4".into(),
        1 => "1.7".into(),
        2 => "2.0".into(),
        3 => String::new(),
        4 => {
            let n = r.usize_below(12);
            (0..n).map(|_| *r.pick(&['1', '.', '7', ' ', 'x', '%', 'é', '-', 'P', 'D', 'F', '\t', '😀', '0'])).collect()
        }
        _ => format!("{}.{}", r.below(3), r.below(10)),
    }
}

pub fn binary_mark(r: &mut Rng) -> Vec<u8> {
    if r.chance(1, 3) {
        return vec![0xBB, 0xAD, 0xC0, 0xDE];
    }
    let n = r.usize_below(9);
    (0..n).map(|_| 0x80 | r.u8()).collect()
}

/// trailer keys must not collide with cross-reference bookkeeping or trigger decryption
pub fn trailer_key_ok(k: &[u8]) -> bool {
    !crate::bridge::XREF_BOOKKEEPING.contains(&k) && k != b"Encrypt" && !k.is_empty()
}

pub fn rdoc(r: &mut Rng, cfg: &DocCfg) -> RDoc {
    let n = match r.below(10) {
        0 => 0,
        1 => 1,
        _ => 1 + r.usize_below(cfg.max_objects),
    };
    // object numbers
    let mut nums: Vec<u32> = vec![];
    let mut cur = 0u32;
    let far_ok = r.chance(1, 12);
    for _ in 0..n {
        let gap = if cfg.sparse {
            match r.below(10) {
                0 => 2 + r.below(5) as u32,
                1 => 50 + r.below(500) as u32,
                2 if far_ok && r.chance(1, 4) => 70000 + r.below(100000) as u32,
                _ => 1,
            }
        } else {
            1
        };
        cur += gap;
        nums.push(cur);
    }
    let ids: Vec<(u32, u16)> = nums
        .iter()
        .map(|&n| {
            let g = if cfg.generations && r.chance(1, 5) { *r.pick(&[1u16, 2, 7, 255, 256, 65534, 65535]) } else { 0 };
            (n, g)
        })
        .collect();
    let mut pool = ids.clone();
    if !ids.is_empty() {
        // dangling references and wrong generations
        pool.push((cur + 1 + r.below(10) as u32, 0));
        pool.push((ids[0].0, ids[0].1.wrapping_add(1)));
    } else {
        pool.push((1, 0));
    }
    let ocfg = ObjCfg { max_depth: cfg.max_depth, refs: true, ref_pool: pool, max_str: 40, max_children: 6 };
    let mut objects = BTreeMap::new();
    for id in &ids {
        objects.insert(*id, top_object(r, &ocfg));
    }
    let mut trailer = vec![];
    if !ids.is_empty() && r.chance(9, 10) {
        trailer.push((b"Root".to_vec(), RObj::Ref(ids[0].0, ids[0].1)));
    }
    if ids.len() > 1 && r.bool() {
        trailer.push((b"Info".to_vec(), RObj::Ref(ids[1].0, ids[1].1)));
    }
    if r.bool() {
        trailer.push((b"ID".to_vec(), RObj::Array(vec![RObj::Str(hostile_bytes(r, 16), r.bool()), RObj::Str(hostile_bytes(r, 16), r.bool())])));
    }
    for (k, v) in dict_entries(r, &ocfg, 1, false) {
        if trailer_key_ok(&k) && !trailer.iter().any(|(kk, _)| *kk == k) && k != b"Root" && k != b"Info" && k != b"ID" {
            trailer.push((k, v));
        }
    }
    RDoc { version: version_string(r), binary_mark: binary_mark(r), objects, trailer }
}

/// hash of a model value for distinct-case counting
pub fn digest_robj(o: &RObj) -> u64 {
    crate::prng::fnv_bytes(o.show().as_bytes())
}
pub fn digest_rdoc(d: &RDoc) -> u64 {
    crate::prng::fnv_bytes(d.show().as_bytes())
}
