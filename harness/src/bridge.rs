//! Conversions between the harness model (RObj/RDoc) and lopdf's public data types, plus the
//! equality oracle "loaded lopdf object == model object" used by C01, C02, C03, C07, C14.

use crate::refimpl::robj::{RDoc, RObj};
use lopdf::{Dictionary, Document, Object, Stream, StringFormat};

pub fn to_lo(o: &RObj) -> Object {
    match o {
        RObj::Null => Object::Null,
        RObj::Bool(b) => Object::Boolean(*b),
        RObj::Int(i) => Object::Integer(*i),
        RObj::Real(r) => Object::Real(*r),
        RObj::Name(n) => Object::Name(n.clone()),
        RObj::Str(s, hex) => Object::String(s.clone(), if *hex { StringFormat::Hexadecimal } else { StringFormat::Literal }),
        RObj::Array(a) => Object::Array(a.iter().map(to_lo).collect()),
        RObj::Dict(d) => Object::Dictionary(to_lo_dict(d)),
        RObj::Stream(d, data) => Object::Stream(Stream::new(to_lo_dict(d), data.clone())),
        RObj::Ref(n, g) => Object::Reference((*n, *g)),
    }
}

pub fn to_lo_dict(d: &[(Vec<u8>, RObj)]) -> Dictionary {
    let mut out = Dictionary::new();
    for (k, v) in d {
        out.set(k.clone(), to_lo(v));
    }
    out
}

/// Build a lopdf Document through its public fields only.
pub fn to_lo_doc(d: &RDoc, xref_stream: bool) -> Document {
    let mut doc = Document::with_version(d.version.clone());
    doc.binary_mark = d.binary_mark.clone();
    for (id, o) in &d.objects {
        doc.objects.insert(*id, to_lo(o));
    }
    doc.max_id = d.max_num();
    doc.trailer = to_lo_dict(&d.trailer);
    doc.reference_table.cross_reference_type =
        if xref_stream { lopdf::xref::XrefType::CrossReferenceStream } else { lopdf::xref::XrefType::CrossReferenceTable };
    doc
}

/// lopdf object -> model (used to snapshot documents lopdf produced, e.g. prev_documents)
pub fn from_lo(o: &Object) -> RObj {
    match o {
        Object::Null => RObj::Null,
        Object::Boolean(b) => RObj::Bool(*b),
        Object::Integer(i) => RObj::Int(*i),
        Object::Real(r) => RObj::Real(*r),
        Object::Name(n) => RObj::Name(n.clone()),
        Object::String(s, f) => RObj::Str(s.clone(), matches!(f, StringFormat::Hexadecimal)),
        Object::Array(a) => RObj::Array(a.iter().map(from_lo).collect()),
        Object::Dictionary(d) => RObj::Dict(from_lo_dict(d, false)),
        Object::Stream(s) => RObj::Stream(from_lo_dict(&s.dict, true), s.content.clone()),
        Object::Reference((n, g)) => RObj::Ref(*n, *g),
    }
}

pub fn from_lo_dict(d: &Dictionary, drop_length: bool) -> Vec<(Vec<u8>, RObj)> {
    d.iter().filter(|(k, _)| !(drop_length && k.as_slice() == b"Length")).map(|(k, v)| (k.clone(), from_lo(v))).collect()
}

pub fn from_lo_doc(doc: &Document) -> RDoc {
    RDoc {
        version: doc.version.clone(),
        binary_mark: doc.binary_mark.clone(),
        objects: doc.objects.iter().map(|(id, o)| (*id, from_lo(o))).collect(),
        trailer: from_lo_dict(&doc.trailer, false),
    }
}

/// "a real number with an integral value may come back as the integer of the same value"
pub fn real_matches_int(r: f32, i: i64) -> bool {
    // the integer token that comes back denotes the same number as the real that was saved:
    // it converts to exactly that f32 (lopdf's own as_float() does this conversion)
    r.is_finite() && r.fract() == 0.0 && (i as f32) == r
}

pub fn reals_equal(a: f32, b: f32) -> bool {
    a == b || (a.is_nan() && b.is_nan())
}

/// Equality of two model objects modulo the permitted differences (string spelling hint,
/// dictionary order, integral real vs integer in either direction when `loose_num`).
pub fn robj_eq(a: &RObj, b: &RObj) -> bool {
    diff_robj(a, b, "").is_none()
}

/// Returns None when equal, else a path + description of the first difference.
/// `exp` is the model (expected) side, `got` the observed side.
pub fn diff_robj(exp: &RObj, got: &RObj, path: &str) -> Option<String> {
    match (exp, got) {
        (RObj::Null, RObj::Null) => None,
        (RObj::Bool(a), RObj::Bool(b)) if a == b => None,
        (RObj::Int(a), RObj::Int(b)) if a == b => None,
        (RObj::Real(a), RObj::Real(b)) if reals_equal(*a, *b) => None,
        (RObj::Real(a), RObj::Int(b)) if real_matches_int(*a, *b) => None,
        (RObj::Name(a), RObj::Name(b)) if a == b => None,
        (RObj::Str(a, _), RObj::Str(b, _)) if a == b => None,
        (RObj::Ref(a, b), RObj::Ref(c, d)) if a == c && b == d => None,
        (RObj::Array(a), RObj::Array(b)) => {
            if a.len() != b.len() {
                return Some(format!("{}: array length {} != {}", path, a.len(), b.len()));
            }
            for (i, (x, y)) in a.iter().zip(b).enumerate() {
                if let Some(d) = diff_robj(x, y, &format!("{}[{}]", path, i)) {
                    return Some(d);
                }
            }
            None
        }
        (RObj::Dict(a), RObj::Dict(b)) => diff_dict(a, b, path, &[]),
        (RObj::Stream(da, ca), RObj::Stream(db, cb)) => {
            if let Some(d) = diff_dict(da, db, path, &[b"Length"]) {
                return Some(d);
            }
            if ca != cb {
                return Some(format!("{}: stream body differs (len {} vs {})", path, ca.len(), cb.len()));
            }
            None
        }
        _ => Some(format!("{}: expected {} got {}", path, short(exp), short(got))),
    }
}

fn short(o: &RObj) -> String {
    let s = o.show();
    if s.len() > 120 {
        format!("{}…", s.chars().take(120).collect::<String>())
    } else {
        s
    }
}

pub fn diff_dict(exp: &[(Vec<u8>, RObj)], got: &[(Vec<u8>, RObj)], path: &str, ignore: &[&[u8]]) -> Option<String> {
    for (k, v) in exp {
        if ignore.contains(&k.as_slice()) {
            continue;
        }
        match RObj::dict_get(got, k) {
            None => return Some(format!("{}: key /{} missing", path, String::from_utf8_lossy(k))),
            Some(g) => {
                if let Some(d) = diff_robj(v, g, &format!("{}/{}", path, String::from_utf8_lossy(k))) {
                    return Some(d);
                }
            }
        }
    }
    for (k, _) in got {
        if ignore.contains(&k.as_slice()) {
            continue;
        }
        if RObj::dict_get(exp, k).is_none() {
            return Some(format!("{}: unexpected key /{}", path, String::from_utf8_lossy(k)));
        }
    }
    // duplicate keys on the observed side would be a model violation too
    None
}

/// cross-reference bookkeeping keys the C01/C03 statements exclude from trailer comparison
pub const XREF_BOOKKEEPING: &[&[u8]] =
    &[b"Size", b"Prev", b"XRefStm", b"Type", b"W", b"Index", b"Length", b"Filter", b"DecodeParms"];

pub fn is_xref_stream_obj(o: &RObj) -> bool {
    match o {
        RObj::Stream(d, _) => matches!(RObj::dict_get(d, b"Type"), Some(RObj::Name(n)) if n == b"XRef"),
        _ => false,
    }
}

/// Compare a loaded document (already converted to the model) with the expected model.
/// Extra observed objects are tolerated only when `extra_ok(id, obj)` says so.
pub fn diff_docs(
    exp: &RDoc, got: &RDoc, check_header: bool, extra_ok: &dyn Fn(&(u32, u16), &RObj) -> bool,
) -> Vec<((u32, u16), String)> {
    let mut out = vec![];
    if check_header {
        if exp.version != got.version {
            out.push(((0, 0), format!("version {:?} != {:?}", exp.version, got.version)));
        }
        if exp.binary_mark != got.binary_mark {
            out.push(((0, 0), format!("binary_mark {:02x?} != {:02x?}", exp.binary_mark, got.binary_mark)));
        }
    }
    for (id, o) in &exp.objects {
        match got.objects.get(id) {
            None => out.push((*id, format!("object {} {} missing after load (expected {})", id.0, id.1, short(o)))),
            Some(g) => {
                if let Some(d) = diff_robj(o, g, &format!("obj {} {}", id.0, id.1)) {
                    out.push((*id, d));
                }
            }
        }
    }
    for (id, g) in &got.objects {
        if !exp.objects.contains_key(id) && !extra_ok(id, g) {
            out.push((*id, format!("unexpected object {} {}: {}", id.0, id.1, short(g))));
        }
    }
    if let Some(d) = diff_dict(&exp.trailer, &got.trailer, "trailer", XREF_BOOKKEEPING) {
        out.push(((0, 65535), d));
    }
    out
}
