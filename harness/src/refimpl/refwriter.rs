//! Independent reference PDF writer: serialises an abstract history (base document + update
//! revisions) making a seeded random choice wherever ISO 32000-1 §7.2–7.5 leaves one.
//! Only legal files are produced. Every choice point is a named *feature* that can be
//! switched off (forced to its plainest spelling) so a failing file can be minimised.

use super::codecs;
use super::robj::{RDoc, RObj};
use crate::prng::Rng;
use std::collections::{BTreeMap, BTreeSet};

pub struct Choices {
    pub seed: u64,
    /// main stream (structure-level draws only)
    pub rng: Rng,
    /// one independent stream per feature, so that disabling a feature does not perturb the
    /// draws of the others (needed for meaningful minimisation)
    pub streams: BTreeMap<String, Rng>,
    pub disabled: BTreeSet<String>,
    pub used: BTreeMap<String, u64>,
}

impl Choices {
    pub fn new(seed: u64) -> Choices {
        Choices { seed, rng: Rng::new(seed), streams: BTreeMap::new(), disabled: BTreeSet::new(), used: BTreeMap::new() }
    }
    /// the private stream of a feature (also used for the auxiliary draws that belong to it)
    pub fn r(&mut self, feature: &str) -> &mut Rng {
        let seed = self.seed;
        self.streams.entry(feature.to_string()).or_insert_with(|| Rng::new(seed ^ crate::prng::fnv(feature).rotate_left(13)))
    }
    /// choose among n options for `feature`; option 0 is the plainest spelling.
    pub fn pick(&mut self, feature: &str, n: u64) -> u64 {
        let v = self.r(feature).below(n);
        if self.disabled.contains(feature) {
            return 0;
        }
        if v != 0 {
            *self.used.entry(feature.to_string()).or_insert(0) += 1;
        }
        v
    }
    /// true with probability num/den unless disabled
    pub fn maybe(&mut self, feature: &str, num: u64, den: u64) -> bool {
        let v = self.r(feature).below(den) < num;
        if self.disabled.contains(feature) {
            return false;
        }
        if v {
            *self.used.entry(feature.to_string()).or_insert(0) += 1;
        }
        v
    }
    /// informational feature (cannot be disabled on its own)
    pub fn note(&mut self, feature: &str) {
        *self.used.entry(format!("({})", feature)).or_insert(0) += 1;
    }
}

impl codecs::Choice for Choices {
    fn below(&mut self, n: u32) -> u32 {
        self.rng.below(n as u64) as u32
    }
}

#[derive(Clone, Debug)]
pub struct Revision {
    /// objects defined (new or replacing) in this revision
    pub objects: BTreeMap<(u32, u16), RObj>,
    /// full trailer content of this revision (Root, Info, ID, custom keys) — without bookkeeping
    pub trailer: Vec<(Vec<u8>, RObj)>,
}

#[derive(Clone, Debug)]
pub struct History {
    pub version: String,
    pub binary_mark: Option<Vec<u8>>,
    pub revisions: Vec<Revision>,
}

impl History {
    pub fn from_doc(d: &RDoc) -> History {
        History {
            version: d.version.clone(),
            binary_mark: Some(d.binary_mark.clone()),
            revisions: vec![Revision { objects: d.objects.clone(), trailer: d.trailer.clone() }],
        }
    }
    /// the document a conforming reader sees after revision `upto` (inclusive)
    pub fn merged(&self, upto: usize) -> RDoc {
        let mut d = RDoc::new();
        d.version = self.version.clone();
        d.binary_mark = self.binary_mark.clone().unwrap_or_default();
        for r in &self.revisions[..=upto] {
            for (id, o) in &r.objects {
                // a new definition of an object number replaces any older generation of it
                let old: Vec<(u32, u16)> = d.objects.keys().filter(|k| k.0 == id.0).cloned().collect();
                for k in old {
                    d.objects.remove(&k);
                }
                d.objects.insert(*id, o.clone());
            }
            d.trailer = r.trailer.clone();
        }
        d
    }
}

#[derive(Clone, Copy, Debug, PartialEq, Eq)]
pub enum XrefStyle {
    Table,
    Stream,
}

#[derive(Clone, Debug, Default)]
pub struct Written {
    pub bytes: Vec<u8>,
    /// byte length of the file after each revision (prefix i is a complete valid file)
    pub revision_ends: Vec<usize>,
    /// object numbers the writer used for its own containers (XRef streams, ObjStm, indirect Lengths)
    pub container_ids: BTreeSet<u32>,
    /// offset of the '%PDF-' header (junk before it)
    pub header_offset: usize,
    pub startxrefs: Vec<usize>,
    /// object numbers of the object streams, in file order
    pub objstm_ids: Vec<u32>,
}

pub struct RefWriter<'a> {
    pub ch: &'a mut Choices,
    out: Vec<u8>,
    base: usize,
    /// NOT legal PDF, used by C08 only: every object stream of a revision also carries one to four
    /// copies (each with its own content) of one "ghost" object number that no cross-reference
    /// entry names, so that copies exist for which no container and no index position is designated
    pub ghost_objects: bool,
    /// every object stream gets its Length as an indirect object (C08: many such lengths in one file)
    pub objstm_lengths_indirect: bool,
    /// numbers for containers, length objects and the cross-reference stream are taken from gaps in the document's
    /// numbering whenever there are any (the highest number of the file then belongs to a document object)
    pub prefer_gap_numbers: bool,
    /// when non-zero: every eligible object goes into an object stream and a stream is closed only when it holds this
    /// many objects (ordinary producers put 100-200 objects into one stream; the default here is 1..8)
    pub pack_limit: usize,
    /// NOT legal PDF (C07 only): an update section repeats the Size of the revision it updates although it adds
    /// objects - sloppy producers do this, tolerant readers raise Size to the highest entry + 1
    pub stale_update_size: bool,
}

impl RefWriter<'_> {
    /// number for an object the writer adds on its own: the next number after everything used so far, or (feature
    /// "container-number-from-gap") a number below the maximum that no revision of the history uses
    fn alloc_num(&mut self, next_free: &mut u32, gaps: &mut Vec<u32>) -> u32 {
        if !gaps.is_empty() && (self.prefer_gap_numbers || self.ch.maybe("container-number-from-gap", 1, 3)) {
            let i = self.ch.rng.usize_below(gaps.len());
            return gaps.swap_remove(i);
        }
        *next_free += 1;
        *next_free - 1
    }
}

fn is_regular(c: u8) -> bool {
    !b" \t\n\r\x0c\x00()<>[]{}/%".contains(&c)
}

impl<'a> RefWriter<'a> {
    pub fn new(ch: &'a mut Choices) -> RefWriter<'a> {
        RefWriter { ch, out: vec![], base: 0, ghost_objects: false, objstm_lengths_indirect: false, prefer_gap_numbers: false, pack_limit: 0, stale_update_size: false }
    }
    fn pos(&self) -> usize {
        self.out.len() - self.base
    }
    fn put(&mut self, b: &[u8]) {
        self.out.extend_from_slice(b);
    }

    // ------------------------------------------------------------------ lexical layer

    fn eol(&mut self) -> &'static [u8] {
        match self.ch.pick("eol-style", 3) {
            0 => b"\n",
            1 => b"\r\n",
            _ => b"\r",
        }
    }

    /// white-space separating two tokens; `required` when both neighbours are regular characters
    fn ws(&mut self, required: bool) {
        let n = if required { 1 + self.ch.pick("ws-extra", 3) } else { self.ch.pick("ws-optional", 3) };
        for _ in 0..n {
            match self.ch.pick("ws-kind", 12) {
                0..=4 => self.put(b" "),
                5 => self.put(b"\n"),
                6 => self.put(b"\t"),
                7 => self.put(b"\r\n"),
                8 => self.put(b"\r"),
                9 => self.put(b"\x0c"),
                10 => {
                    if self.ch.maybe("ws-nul", 1, 2) {
                        self.put(b"\x00")
                    } else {
                        self.put(b" ")
                    }
                }
                _ => {
                    if self.ch.maybe("comment", 1, 2) {
                        let k = self.ch.r("aux-comment").usize_below(12);
                        let mut c = vec![b'%'];
                        for _ in 0..k {
                            // anything but EOL characters
                            let b = *self.ch.r("aux-comment").pick(b"abc %()<>[]{}/#\\ 123endobj stream\x80\xff\t");
                            c.push(b);
                        }
                        let e = self.eol();
                        c.extend_from_slice(e);
                        self.put(&c);
                    } else {
                        self.put(b" ")
                    }
                }
            }
        }
    }

    fn int_text(&mut self, i: i64) -> Vec<u8> {
        let mut s = String::new();
        let neg = i < 0;
        let mag = (i as i128).unsigned_abs();
        if neg {
            s.push('-');
        } else if self.ch.maybe("num-plus-sign", 1, 8) {
            s.push('+');
        }
        if self.ch.maybe("num-leading-zeros", 1, 8) {
            for _ in 0..1 + self.ch.r("aux-leading-zeros").usize_below(3) {
                s.push('0');
            }
        }
        s.push_str(&mag.to_string());
        s.into_bytes()
    }

    /// decimal spelling of a finite f32 that denotes exactly this value when read as f32:
    /// shortest round-trip digits, then value-preserving respellings
    fn real_text(&mut self, x: f32) -> Vec<u8> {
        let disp = format!("{}", x.abs()); // no exponent, shortest round trip
        let (ip, fp) = match disp.split_once('.') {
            Some((a, b)) => (a.to_string(), b.to_string()),
            None => (disp.clone(), String::new()),
        };
        let mut s = String::new();
        if x.is_sign_negative() {
            s.push('-');
        } else if self.ch.maybe("num-plus-sign", 1, 8) {
            s.push('+');
        }
        let mut ip = ip;
        let mut fp = fp;
        if self.ch.maybe("num-leading-zeros", 1, 8) {
            ip = format!("{}{}", "0".repeat(1 + self.ch.r("aux-leading-zeros").usize_below(3)), ip);
        }
        if self.ch.maybe("real-trailing-zeros", 1, 6) {
            fp.push_str(&"0".repeat(1 + self.ch.r("aux-trailing-zeros").usize_below(3)));
        }
        if ip.chars().all(|c| c == '0') && !fp.is_empty() && self.ch.maybe("real-no-int-part", 1, 3) {
            ip.clear(); // ".5"
        }
        // "5." (no fraction digits) only when there is an integer part
        if fp.is_empty() && !(self.ch.maybe("real-no-frac-part", 1, 2)) {
            fp.push('0');
        }
        s.push_str(&ip);
        s.push('.');
        s.push_str(&fp);
        s.into_bytes()
    }

    fn name_text(&mut self, n: &[u8]) -> Vec<u8> {
        let mut o = vec![b'/'];
        for &b in n {
            let must = !is_regular(b) || b == b'#' || !(33..=126).contains(&b);
            if must || self.ch.maybe("name-optional-escape", 1, 10) {
                let hexd: &[u8; 16] = if self.ch.maybe("hex-lowercase", 1, 2) { b"0123456789abcdef" } else { b"0123456789ABCDEF" };
                o.push(b'#');
                o.push(hexd[(b >> 4) as usize]);
                o.push(hexd[(b & 15) as usize]);
            } else {
                o.push(b);
            }
        }
        o
    }

    fn literal_string_text(&mut self, s: &[u8]) -> Vec<u8> {
        // which parentheses are balanced (may stay raw) — keep nesting shallow (<= 30); the
        // decision raw/escaped is taken per matching pair
        let mut raw_ok = vec![false; s.len()];
        let mut stack: Vec<usize> = vec![];
        for (i, &b) in s.iter().enumerate() {
            if b == b'(' {
                stack.push(i);
            } else if b == b')' {
                if let Some(j) = stack.pop() {
                    if stack.len() < 30 && !self.ch.maybe("str-escape-balanced-paren", 1, 3) {
                        raw_ok[i] = true;
                        raw_ok[j] = true;
                    }
                }
            }
        }
        let mut o = vec![b'('];
        let mut i = 0;
        while i < s.len() {
            let b = s[i];
            let next_is_digit = s.get(i + 1).map(|c| c.is_ascii_digit()).unwrap_or(false);
            let octal = |b: u8, three: bool, o: &mut Vec<u8>| {
                o.push(b'\\');
                if three || b >= 64 {
                    o.extend_from_slice(format!("{:03o}", b).as_bytes());
                } else {
                    o.extend_from_slice(format!("{:o}", b).as_bytes());
                }
            };
            match b {
                b'(' | b')' => {
                    if raw_ok[i] {
                        o.push(b);
                        self.ch.note("str-raw-balanced-paren");
                    } else {
                        o.push(b'\\');
                        o.push(b);
                    }
                }
                b'\\' => {
                    if self.ch.maybe("str-octal", 1, 6) {
                        octal(b, next_is_digit || self.ch.r("aux-octal-width").bool(), &mut o)
                    } else {
                        o.extend_from_slice(b"\\\\")
                    }
                }
                b'\n' => match self.ch.pick("str-lf-spelling", 6) {
                    0 => o.extend_from_slice(b"\\n"),
                    1 => o.push(b'\n'), // raw LF
                    2 => {
                        if self.ch.maybe("str-raw-cr-eol", 1, 1) {
                            // raw CR (not followed by LF) denotes an end-of-line = LF
                            if s.get(i + 1) == Some(&b'\n') {
                                o.extend_from_slice(b"\\n")
                            } else {
                                o.push(b'\r')
                            }
                        } else {
                            o.extend_from_slice(b"\\n")
                        }
                    }
                    3 => {
                        if self.ch.maybe("str-raw-crlf-eol", 1, 1) {
                            o.extend_from_slice(b"\r\n")
                        } else {
                            o.extend_from_slice(b"\\n")
                        }
                    }
                    4 => octal(b, next_is_digit || self.ch.r("aux-octal-width").bool(), &mut o),
                    _ => o.extend_from_slice(b"\\n"),
                },
                b'\r' => {
                    if self.ch.maybe("str-octal", 1, 4) {
                        octal(b, next_is_digit || self.ch.r("aux-octal-width").bool(), &mut o)
                    } else {
                        o.extend_from_slice(b"\\r")
                    }
                }
                b'\t' | 0x08 | 0x0c => match self.ch.pick("str-ctl-spelling", 3) {
                    0 => o.extend_from_slice(match b {
                        b'\t' => b"\\t",
                        0x08 => b"\\b",
                        _ => b"\\f",
                    }),
                    1 => o.push(b),
                    _ => octal(b, next_is_digit || self.ch.r("aux-octal-width").bool(), &mut o),
                },
                _ => {
                    if self.ch.maybe("str-octal", 1, 12) {
                        octal(b, next_is_digit || self.ch.r("aux-octal-width").bool(), &mut o)
                    } else if !b"nrtbf01234567\r\n()\\".contains(&b) && self.ch.maybe("str-useless-backslash", 1, 20) {
                        // "\q" with q not an escape character: the backslash is ignored
                        o.push(b'\\');
                        o.push(b);
                    } else {
                        o.push(b);
                    }
                }
            }
            if self.ch.maybe("str-line-continuation", 1, 25) {
                o.push(b'\\');
                let e = self.eol();
                // a continuation's EOL followed by a raw LF of the next char would merge CR+LF
                if e == b"\r" && s.get(i + 1) == Some(&b'\n') {
                    o.extend_from_slice(b"\n");
                } else {
                    o.extend_from_slice(e);
                }
            }
            i += 1;
        }
        o.push(b')');
        o
    }

    fn hex_string_text(&mut self, s: &[u8]) -> Vec<u8> {
        let mut o = vec![b'<'];
        let lower = self.ch.maybe("hex-lowercase", 1, 2);
        let mixed = self.ch.maybe("hex-mixedcase", 1, 4);
        let mut digits: Vec<u8> = vec![];
        for &b in s {
            for nib in [b >> 4, b & 15] {
                let up = if mixed { self.ch.r("aux-hexcase").bool() } else { !lower };
                digits.push(if up { b"0123456789ABCDEF"[nib as usize] } else { b"0123456789abcdef"[nib as usize] });
            }
        }
        if let Some(&last) = s.last() {
            if last & 15 == 0 && self.ch.maybe("hex-odd-digits", 1, 2) {
                digits.pop(); // final digit assumed 0
            }
        }
        for d in digits {
            if self.ch.maybe("hex-inner-ws", 1, 10) {
                o.extend_from_slice(*self.ch.r("aux-hexws").pick(&[&b" "[..], b"\n", b"\r\n", b"\t", b"\x0c"]));
            }
            o.push(d);
        }
        if self.ch.maybe("hex-inner-ws", 1, 10) {
            o.push(b' ');
        }
        o.push(b'>');
        o
    }

    /// writes a direct object; returns (first byte regular?, last byte regular?) via the buffer
    fn obj(&mut self, o: &RObj) {
        match o {
            RObj::Null => self.put(b"null"),
            RObj::Bool(true) => self.put(b"true"),
            RObj::Bool(false) => self.put(b"false"),
            RObj::Int(i) => {
                let t = self.int_text(*i);
                self.put(&t)
            }
            RObj::Real(r) => {
                let t = self.real_text(*r);
                self.put(&t)
            }
            RObj::Name(n) => {
                let t = self.name_text(n);
                self.put(&t)
            }
            RObj::Str(s, hex) => {
                let as_hex = if self.ch.maybe("str-flip-format", 1, 5) { !*hex } else { *hex };
                let t = if as_hex { self.hex_string_text(s) } else { self.literal_string_text(s) };
                self.put(&t)
            }
            RObj::Array(a) => {
                self.put(b"[");
                self.ws(false);
                for (i, x) in a.iter().enumerate() {
                    if i > 0 {
                        self.sep_before(x);
                    }
                    self.obj(x);
                }
                self.ws(false);
                self.put(b"]");
            }
            RObj::Dict(d) => self.dict(d, &[]),
            RObj::Ref(n, g) => {
                let t = format!("{}", n);
                self.put(t.as_bytes());
                self.ws(true);
                self.put(format!("{}", g).as_bytes());
                self.ws(true);
                self.put(b"R");
            }
            RObj::Stream(..) => panic!("direct stream"),
        }
    }

    /// separator between the previous token (already written) and `next`
    fn sep_before(&mut self, next: &RObj) {
        // a trailing '/' is an (empty) name that the next regular character would extend
        let prev_regular = self.out.last().map(|c| is_regular(*c) || *c == b'/').unwrap_or(false);
        let next_regular = matches!(next, RObj::Null | RObj::Bool(_) | RObj::Int(_) | RObj::Real(_) | RObj::Ref(..));
        self.ws(prev_regular && next_regular);
    }

    fn dict(&mut self, d: &[(Vec<u8>, RObj)], extra: &[(Vec<u8>, RObj)]) {
        self.put(b"<<");
        self.ws(false);
        let mut entries: Vec<&(Vec<u8>, RObj)> = d.iter().chain(extra.iter()).collect();
        if self.ch.maybe("dict-shuffle", 1, 3) {
            self.ch.r("aux-dict-shuffle").shuffle(&mut entries);
        }
        for (k, v) in entries {
            // a name directly after a regular token needs no white-space ('/' is a delimiter)
            self.ws(false);
            let t = self.name_text(k);
            self.put(&t);
            self.sep_before(v);
            self.obj(v);
        }
        self.ws(false);
        self.put(b">>");
    }

    // ------------------------------------------------------------------ stream encoding

    /// encode `data` with a random filter chain; returns (encoded, Filter object, DecodeParms object)
    fn encode_structural(&mut self, data: &[u8], feature_prefix: &str, columns_hint: usize) -> (Vec<u8>, Option<RObj>, Option<RObj>) {
        let nf = self.ch.pick(&format!("{}-filter", feature_prefix), 4); // 0 none, 1..3 filters... chain length 1 or 2
        if nf == 0 {
            return (data.to_vec(), None, None);
        }
        // predictor applies to the innermost (last decoded) Flate/LZW filter only: we use a
        // single predictor-capable filter, optionally wrapped in ASCII85
        let lzw = self.ch.maybe(&format!("{}-lzw", feature_prefix), 1, 3);
        let mut parms: Vec<(Vec<u8>, RObj)> = vec![];
        let mut payload = data.to_vec();
        if self.ch.maybe(&format!("{}-predictor", feature_prefix), 1, 2) {
            let columns = if columns_hint > 0 && self.ch.rng.bool() { columns_hint } else { 1 + self.ch.rng.usize_below(9) };
            let colors = 1usize;
            let bpc = 8usize;
            let row = columns * colors * bpc / 8;
            if !payload.is_empty() && payload.len() % row == 0 {
                let pred = 10 + self.ch.rng.below(6) as i64;
                let fixed = self.ch.rng.below(6) as usize;
                let mut rr = self.ch.rng.clone();
                let mut pick = |_row: usize| -> codecs::RowFilter {
                    let k = if fixed < 5 { fixed } else { rr.usize_below(5) };
                    [codecs::RowFilter::None, codecs::RowFilter::Sub, codecs::RowFilter::Up, codecs::RowFilter::Avg, codecs::RowFilter::Paeth][k]
                };
                payload = codecs::png_encode(&payload, colors, bpc, columns, &mut pick);
                parms.push((b"Predictor".to_vec(), RObj::Int(pred)));
                parms.push((b"Columns".to_vec(), RObj::Int(columns as i64)));
                self.ch.note(&format!("{}-predictor-rowfilter-{}", feature_prefix, if fixed < 5 { fixed.to_string() } else { "mixed".into() }));
            }
        }
        let mut enc = if lzw {
            let early = !self.ch.maybe(&format!("{}-lzw-earlychange0", feature_prefix), 1, 3);
            if !early {
                parms.push((b"EarlyChange".to_vec(), RObj::Int(0)));
            }
            codecs::lzw_encode(&payload, early, self.ch)
        } else {
            let mode = match self.ch.rng.below(3) {
                0 => codecs::ZMode::Stored,
                1 => codecs::ZMode::Fixed,
                _ => codecs::ZMode::Mixed,
            };
            codecs::zlib_encode(&payload, mode, self.ch)
        };
        let inner = RObj::Name(if lzw { b"LZWDecode".to_vec() } else { b"FlateDecode".to_vec() });
        let a85 = self.ch.maybe(&format!("{}-a85", feature_prefix), 1, 4);
        if a85 {
            let o = codecs::A85Opts { use_z: self.ch.rng.bool(), whitespace_every: [0usize, 0, 40, 7][self.ch.rng.usize_below(4)], eod: true };
            enc = codecs::a85_encode(&enc, &o);
        }
        let filter = if a85 {
            RObj::Array(vec![RObj::Name(b"ASCII85Decode".to_vec()), inner])
        } else if self.ch.maybe("filter-as-array", 1, 3) {
            RObj::Array(vec![inner])
        } else {
            inner
        };
        let dp = if parms.is_empty() {
            None
        } else if a85 {
            // parameters parallel to the filter array
            Some(RObj::Array(vec![RObj::Null, RObj::Dict(parms)]))
        } else {
            Some(RObj::Dict(parms))
        };
        if a85 && dp.is_some() {
            self.ch.note("decodeparms-array");
        }
        (enc, Some(filter), dp)
    }

    /// `n g obj ... endobj`; returns the offset of the object header
    fn indirect(&mut self, id: (u32, u16), o: &RObj, length_ref: Option<(u32, u16)>) -> usize {
        let off = self.pos();
        self.put(format!("{}", id.0).as_bytes());
        self.ws(true);
        self.put(format!("{}", id.1).as_bytes());
        self.ws(true);
        self.put(b"obj");
        match o {
            RObj::Stream(d, data) => {
                self.ws(false);
                let len = match length_ref {
                    Some((n, g)) => RObj::Ref(n, g),
                    None => RObj::Int(data.len() as i64),
                };
                self.dict(d, &[(b"Length".to_vec(), len)]);
                self.ws(false);
                self.put(b"stream");
                if self.ch.maybe("stream-crlf", 1, 3) {
                    self.put(b"\r\n")
                } else {
                    self.put(b"\n")
                }
                self.put(data);
                match self.ch.pick("endstream-eol", 4) {
                    0 => self.put(b"\n"),
                    1 => self.put(b"\r\n"),
                    2 => self.put(b"\r"),
                    _ => {} // no EOL before endstream (tolerated: 'should')
                }
                self.put(b"endstream");
                self.ws(true);
            }
            _ => {
                let next_regular = matches!(o, RObj::Null | RObj::Bool(_) | RObj::Int(_) | RObj::Real(_) | RObj::Ref(..));
                self.ws(next_regular);
                self.obj(o);
                let prev_regular = self.out.last().map(|c| is_regular(*c) || *c == b'/').unwrap_or(false);
                self.ws(prev_regular);
            }
        }
        self.put(b"endobj");
        let e = self.eol();
        self.put(e);
        self.ws(false);
        off
    }

    // ------------------------------------------------------------------ file structure

    /// Serialise the history. `style` is used for every revision. `objstm`: allow object
    /// streams (only with xref streams).
    pub fn write(&mut self, h: &History, style: XrefStyle, objstm: bool) -> Written {
        let mut w = Written::default();
        // junk before the header: offsets are relative to the header
        if self.ch.maybe("junk-before-header", 1, 8) {
            let n = 1 + self.ch.rng.usize_below(40);
            let junk: Vec<u8> = (0..n).map(|_| *self.ch.rng.pick(b"garbage\n\r\x00\xffPDF% -1")).collect();
            // must not contain a header marker itself
            if !junk.windows(5).any(|x| x == b"%PDF-") {
                self.put(&junk);
            }
        }
        self.base = self.out.len();
        w.header_offset = self.base;
        self.put(b"%PDF-");
        self.put(h.version.as_bytes());
        let e = self.eol();
        self.put(e);
        if let Some(m) = &h.binary_mark {
            if !self.ch.maybe("no-binary-comment", 1, 8) {
                self.put(b"%");
                self.put(m);
                let e = self.eol();
                self.put(e);
            }
        }
        let mut next_free_num: u32 = h.revisions.iter().flat_map(|r| r.objects.keys().map(|k| k.0)).max().unwrap_or(0) + 1;
        // numbers below the maximum that no revision uses: a producer may give them to the containers it adds
        // (object streams, cross-reference streams, length objects), so that a container appended by a later
        // revision can have a LOWER number than one of an earlier revision
        let used_nums: BTreeSet<u32> = h.revisions.iter().flat_map(|r| r.objects.keys().map(|k| k.0)).collect();
        let mut gap_nums: Vec<u32> = (1..next_free_num).filter(|n| !used_nums.contains(n)).take(64).collect();
        // all entries so far: num -> entry
        #[derive(Clone, Debug)]
        enum Ent {
            InUse(usize, u16),
            Compressed(u32, usize),
        }
        let mut prev_startxref: Option<usize> = None;
        let mut all_nums: BTreeSet<u32> = BTreeSet::new();
        let mut last_size: u32 = 0;
        for (ri, rev) in h.revisions.iter().enumerate() {
            let mut ents: BTreeMap<u32, Ent> = BTreeMap::new();
            // decide placement: plain vs object stream
            let mut plain: Vec<(u32, u16)> = vec![];
            let mut packed: Vec<Vec<u32>> = vec![];
            let mut order: Vec<(u32, u16)> = rev.objects.keys().cloned().collect();
            if self.ch.maybe("object-order-shuffled", 2, 3) {
                self.ch.rng.shuffle(&mut order);
            }
            let use_objstm = style == XrefStyle::Stream && objstm && self.ch.maybe("object-streams", 3, 4);
            let ghost: Option<u32> = if self.ghost_objects && use_objstm {
                let g = self.alloc_num(&mut next_free_num, &mut gap_nums);
                w.container_ids.insert(g);
                Some(g)
            } else {
                None
            };
            let mut cur: Vec<u32> = vec![];
            for id in &order {
                let o = &rev.objects[id];
                let eligible = use_objstm && id.1 == 0 && !matches!(o, RObj::Stream(..));
                if eligible && (self.pack_limit > 0 || self.ch.rng.chance(2, 3)) {
                    cur.push(id.0);
                    if cur.len() >= if self.pack_limit > 0 { self.pack_limit } else { 1 + self.ch.rng.usize_below(8) } {
                        packed.push(std::mem::take(&mut cur));
                    }
                } else {
                    plain.push(*id);
                }
            }
            if !cur.is_empty() {
                packed.push(cur);
            }
            // indirect stream lengths: reserve numbers
            let mut length_objs: Vec<((u32, u16), i64, bool)> = vec![]; // (id, value, write-before)
            let mut plain_items: Vec<((u32, u16), Option<(u32, u16)>)> = vec![];
            for id in &plain {
                let o = &rev.objects[id];
                let mut lr = None;
                if let RObj::Stream(_, data) = o {
                    if self.ch.maybe("indirect-length", 1, 4) {
                        let lid = (self.alloc_num(&mut next_free_num, &mut gap_nums), 0u16);
                        w.container_ids.insert(lid.0);
                        let before = self.ch.maybe("indirect-length-defined-before", 1, 2);
                        length_objs.push((lid, data.len() as i64, before));
                        lr = Some(lid);
                    }
                }
                plain_items.push((*id, lr));
            }
            // a Length object may itself live in an object stream (only the Length of an object stream's own
            // dictionary may not, ISO 32000-1 7.5.7): the stream can then only be read once that container is decoded
            let mut extra_objs: BTreeMap<u32, RObj> = BTreeMap::new();
            if use_objstm {
                let mut kept = vec![];
                for (lid, v, before) in length_objs.drain(..) {
                    if self.ch.maybe("indirect-length-in-objstm", 1, 2) {
                        extra_objs.insert(lid.0, RObj::Int(v));
                        if !packed.is_empty() && self.ch.rng.bool() {
                            let at = self.ch.rng.usize_below(packed.len());
                            packed[at].push(lid.0);
                        } else {
                            packed.push(vec![lid.0]);
                        }
                    } else {
                        kept.push((lid, v, before));
                    }
                }
                length_objs = kept;
            }
            for (lid, v, before) in &length_objs {
                if *before {
                    let off = self.indirect(*lid, &RObj::Int(*v), None);
                    ents.insert(lid.0, Ent::InUse(off, 0));
                }
            }
            // interleave plain objects and object streams
            enum Item {
                Plain((u32, u16), Option<(u32, u16)>),
                Pack(Vec<u32>),
            }
            let mut items: Vec<Item> = plain_items.into_iter().map(|(a, b)| Item::Plain(a, b)).chain(packed.into_iter().map(Item::Pack)).collect();
            if self.ch.maybe("object-order-shuffled", 2, 3) {
                self.ch.rng.shuffle(&mut items);
            }
            for it in items {
                match it {
                    Item::Plain(id, lr) => {
                        let off = self.indirect(id, &rev.objects[&id], lr);
                        ents.insert(id.0, Ent::InUse(off, id.1));
                    }
                    Item::Pack(nums) => {
                        let sid = self.alloc_num(&mut next_free_num, &mut gap_nums);
                        w.container_ids.insert(sid);
                        w.objstm_ids.push(sid);
                        // body of the object stream
                        let mut bodies: Vec<Vec<u8>> = vec![];
                        for n in &nums {
                            let mut sub_out = std::mem::take(&mut self.out);
                            let base = self.base;
                            self.out = vec![];
                            self.obj(extra_objs.get(n).unwrap_or_else(|| &rev.objects[&(*n, 0)]));
                            std::mem::swap(&mut self.out, &mut sub_out);
                            self.base = base;
                            bodies.push(sub_out);
                        }
                        let mut nums = nums;
                        if let Some(g) = ghost {
                            // one to four copies per container, at random index positions: the same number twice in one
                            // index makes the order in which a single container's entries are stored observable too
                            let copies = 1 + if self.ch.rng.bool() { self.ch.rng.usize_below(4) } else { 0 };
                            for c in 0..copies {
                                let at = self.ch.rng.usize_below(nums.len() + 1);
                                nums.insert(at, g);
                                bodies.insert(at, format!("(ghost copy {} in container {})", c, sid).into_bytes());
                            }
                        }
                        // (C08 only) outdated copies of length objects: a length that lives in another object stream
                        // also appears here with a smaller value and without a cross-reference row of its own - what an
                        // object stream of an older revision looks like to a loader that reads every container
                        let mut stale_here: Vec<u32> = vec![];
                        if self.ghost_objects {
                            let candidates: Vec<(u32, i64)> = extra_objs.iter().filter_map(|(n, o)| if let RObj::Int(v) = o { Some((*n, *v)) } else { None }).filter(|(n, v)| !nums.contains(n) && *v > 1).collect();
                            for (n, v) in candidates {
                                if self.ch.rng.bool() {
                                    let at = self.ch.rng.usize_below(nums.len() + 1);
                                    nums.insert(at, n);
                                    bodies.insert(at, format!("{}", v / 2).into_bytes());
                                    stale_here.push(n);
                                }
                            }
                        }
                        // (C08 only) an entry whose number lies far beyond Size and that no cross-reference row names,
                        // a different one in each container, at the end of the index
                        let mut beyond: Option<u32> = None;
                        if self.ghost_objects && self.ch.rng.bool() {
                            let b = 100_000 + sid * 16 + self.ch.rng.below(16) as u32;
                            beyond = Some(b);
                            nums.push(b);
                            bodies.push(format!("(number {} beyond Size, container {})", b, sid).into_bytes());
                        }
                        let mut data_part: Vec<u8> = vec![];
                        let mut offs: Vec<usize> = vec![];
                        for b in &bodies {
                            if self.ch.maybe("objstm-gap", 1, 4) {
                                data_part.extend_from_slice(*self.ch.rng.pick(&[&b" "[..], b"\n", b"\r\n", b"  ", b"%c\n"]));
                            }
                            offs.push(data_part.len());
                            data_part.extend_from_slice(b);
                            data_part.extend_from_slice(*self.ch.rng.pick(&[&b" "[..], b"\n", b"\r\n"]));
                        }
                        let mut index: Vec<u8> = vec![];
                        for (n, o) in nums.iter().zip(&offs) {
                            index.extend_from_slice(format!("{}", n).as_bytes());
                            index.extend_from_slice(self.objstm_index_ws());
                            index.extend_from_slice(format!("{}", o).as_bytes());
                            index.extend_from_slice(self.objstm_index_ws());
                        }
                        let first = index.len();
                        let mut content = index;
                        content.extend_from_slice(&data_part);
                        let (enc, filter, dp) = self.encode_structural(&content, "objstm", 0);
                        let mut d: Vec<(Vec<u8>, RObj)> = vec![
                            (b"Type".to_vec(), RObj::Name(b"ObjStm".to_vec())),
                            (b"N".to_vec(), RObj::Int(nums.len() as i64)),
                            (b"First".to_vec(), RObj::Int(first as i64)),
                        ];
                        if let Some(f) = filter {
                            d.push((b"Filter".to_vec(), f));
                        }
                        if let Some(p) = dp {
                            d.push((b"DecodeParms".to_vec(), p));
                        }
                        // the Length of an object stream may be an indirect (plain) object, defined before or after it
                        let mut len_ref = None;
                        let mut len_after = None;
                        if self.objstm_lengths_indirect || self.ch.maybe("objstm-indirect-length", 1, 3) {
                            let lid = (self.alloc_num(&mut next_free_num, &mut gap_nums), 0u16);
                            w.container_ids.insert(lid.0);
                            len_ref = Some(lid);
                            if self.ch.rng.bool() {
                                let loff = self.indirect(lid, &RObj::Int(enc.len() as i64), None);
                                ents.insert(lid.0, Ent::InUse(loff, 0));
                            } else {
                                len_after = Some((lid, enc.len() as i64));
                            }
                        }
                        let off = self.indirect((sid, 0), &RObj::Stream(d, enc), len_ref);
                        ents.insert(sid, Ent::InUse(off, 0));
                        if let Some((lid, v)) = len_after {
                            let loff = self.indirect(lid, &RObj::Int(v), None);
                            ents.insert(lid.0, Ent::InUse(loff, 0));
                        }
                        // NOT legal PDF (C08 only): a second object stream that carries the SAME header number as this
                        // one but other bodies for the same object numbers, reached through a row of its own - two
                        // containers that cannot be told apart by their number
                        if self.ghost_objects && self.ch.rng.chance(1, 3) {
                            let mut index: Vec<u8> = vec![];
                            let mut data_part: Vec<u8> = vec![];
                            for n in &nums {
                                index.extend_from_slice(format!("{} {} ", n, data_part.len()).as_bytes());
                                data_part.extend_from_slice(format!("(twin of {} in a second container numbered {}) ", n, sid).as_bytes());
                            }
                            let first = index.len();
                            index.extend_from_slice(&data_part);
                            let twin = RObj::Stream(vec![(b"Type".to_vec(), RObj::Name(b"ObjStm".to_vec())), (b"N".to_vec(), RObj::Int(nums.len() as i64)), (b"First".to_vec(), RObj::Int(first as i64))], index);
                            let row = self.alloc_num(&mut next_free_num, &mut gap_nums);
                            w.container_ids.insert(row);
                            let off2 = self.indirect((sid, 0), &twin, None);
                            ents.insert(row, Ent::InUse(off2, 0));
                        }
                        for (k, n) in nums.iter().enumerate() {
                            if Some(*n) != ghost && Some(*n) != beyond && !stale_here.contains(n) {
                                ents.insert(*n, Ent::Compressed(sid, k));
                            }
                        }
                    }
                }
            }
            for (lid, v, before) in &length_objs {
                if !*before {
                    let off = self.indirect(*lid, &RObj::Int(*v), None);
                    ents.insert(lid.0, Ent::InUse(off, 0));
                }
            }
            // NOT legal PDF (C08 only): further cross-reference rows, under numbers of their own, that point at a
            // second object carrying the SAME header number as a real object but other content - a loader that keys
            // objects by their header sees two candidates for one number, reached through different rows
            if self.ghost_objects && !plain.is_empty() {
                for _ in 0..1 + self.ch.rng.usize_below(2) {
                    let victim = *self.ch.rng.pick(&plain);
                    let row = self.alloc_num(&mut next_free_num, &mut gap_nums);
                    w.container_ids.insert(row);
                    let off = self.indirect(victim, &RObj::Str(format!("copy of {} reached through row {}", victim.0, row).into_bytes(), false), None);
                    ents.insert(row, Ent::InUse(off, victim.1));
                }
            }
            for n in ents.keys() {
                all_nums.insert(*n);
            }
            // ---- cross-reference section
            // Size = highest object number defined so far + 1
            let size_hint = all_nums.iter().max().map(|m| m + 1).unwrap_or(1);
            let startxref;
            match style {
                XrefStyle::Table => {
                    startxref = self.pos();
                    let size = if self.stale_update_size && ri > 0 && last_size > 0 { last_size } else { size_hint };
                    last_size = size;
                    // entries to list: this revision's objects; base revision also lists object 0
                    // and free entries for unused numbers below Size
                    let mut listed: BTreeMap<u32, Option<(usize, u16)>> = BTreeMap::new(); // None = free
                    for (n, e) in &ents {
                        if let Ent::InUse(off, g) = e {
                            listed.insert(*n, Some((*off, *g)));
                        }
                    }
                    if ri == 0 {
                        listed.insert(0, None);
                        // (a document with a number in the millions is not padded with millions of free entries)
                        let cover_gaps = size < 50_000 && !self.ch.maybe("xref-subsections", 1, 2);
                        if cover_gaps {
                            for n in 0..size {
                                listed.entry(n).or_insert(None);
                            }
                        }
                    } else if self.ch.maybe("update-lists-object-zero", 1, 2) || listed.is_empty() {
                        // a cross-reference section has at least one subsection
                        listed.insert(0, None);
                    }
                    // free list: linked in increasing order, last points to 0
                    let frees: Vec<u32> = listed.iter().filter(|(_, v)| v.is_none()).map(|(k, _)| *k).collect();
                    let next_free: BTreeMap<u32, u32> = frees.iter().enumerate().map(|(i, f)| (*f, frees.get(i + 1).cloned().unwrap_or(0))).collect();
                    self.put(b"xref");
                    let e = self.eol();
                    self.put(e);
                    // split into subsections of consecutive numbers
                    let nums: Vec<u32> = listed.keys().cloned().collect();
                    let mut i = 0;
                    while i < nums.len() {
                        let mut j = i;
                        while j + 1 < nums.len() && nums[j + 1] == nums[j] + 1 {
                            j += 1;
                        }
                        // optionally split a run into several subsections (legal)
                        let mut k = i;
                        while k <= j {
                            let mut end = j;
                            if j > k && self.ch.maybe("xref-split-runs", 1, 5) {
                                end = k + self.ch.rng.usize_below(j - k + 1);
                            }
                            self.put(format!("{} {}", nums[k], end - k + 1).as_bytes());
                            let e = self.eol();
                            self.put(e);
                            for n in &nums[k..=end] {
                                let line = match listed[n] {
                                    Some((off, g)) => format!("{:010} {:05} n", off, g),
                                    None => {
                                        let next = next_free[n];
                                        let g = if *n == 0 { 65535 } else { 0 };
                                        format!("{:010} {:05} f", next, g)
                                    }
                                };
                                self.put(line.as_bytes());
                                match self.ch.pick("xref-entry-eol", 3) {
                                    0 => self.put(b" \n"),
                                    1 => self.put(b"\r\n"),
                                    _ => self.put(b" \r"),
                                }
                            }
                            k = end + 1;
                        }
                        i = j + 1;
                    }
                    self.put(b"trailer");
                    self.ws(false);
                    let mut extra: Vec<(Vec<u8>, RObj)> = vec![(b"Size".to_vec(), RObj::Int(size as i64))];
                    if let Some(p) = prev_startxref {
                        extra.push((b"Prev".to_vec(), RObj::Int(p as i64)));
                    }
                    self.dict(&rev.trailer, &extra);
                    self.ws(false);
                    // at least an EOL before startxref
                    let e = self.eol();
                    self.put(e);
                }
                XrefStyle::Stream => {
                    let xid = self.alloc_num(&mut next_free_num, &mut gap_nums);
                    w.container_ids.insert(xid);
                    startxref = self.pos();
                    ents.insert(xid, Ent::InUse(startxref, 0));
                    all_nums.insert(xid);
                    // (the stream's own number may come from a gap, so it is not necessarily the highest)
                    let size = all_nums.iter().max().map(|m| m + 1).unwrap_or(1).max(size_hint);
                    let size = if self.stale_update_size && ri > 0 && last_size > 0 { last_size } else { size };
                    last_size = size;
                    let mut listed: BTreeMap<u32, Option<Ent>> = BTreeMap::new();
                    for (n, e) in &ents {
                        listed.insert(*n, Some(e.clone()));
                    }
                    let explicit_index;
                    if ri == 0 && size < 50_000 && !self.ch.maybe("xrefstm-index-sparse", 1, 2) {
                        for n in 0..size {
                            listed.entry(n).or_insert(None);
                        }
                        explicit_index = self.ch.maybe("xrefstm-index-explicit-full", 1, 2);
                    } else {
                        if ri == 0 || self.ch.rng.bool() {
                            listed.entry(0).or_insert(None);
                        }
                        explicit_index = true;
                    }
                    let frees: Vec<u32> = listed.iter().filter(|(_, v)| v.is_none()).map(|(k, _)| *k).collect();
                    let next_free: BTreeMap<u32, u32> = frees.iter().enumerate().map(|(i, f)| (*f, frees.get(i + 1).cloned().unwrap_or(0))).collect();
                    let max_off = listed.values().filter_map(|e| if let Some(Ent::InUse(o, _)) = e { Some(*o) } else { None }).max().unwrap_or(0);
                    let max_f2 = (max_off as u64).max(listed.values().filter_map(|e| if let Some(Ent::Compressed(c, _)) = e { Some(*c as u64) } else { None }).max().unwrap_or(0)).max(frees.iter().max().cloned().unwrap_or(0) as u64);
                    let need_w1 = (1..=8).find(|w| *w == 8 || max_f2 < (1u64 << (8 * w))).unwrap();
                    let w1 = need_w1 + if self.ch.maybe("xrefstm-wide-w1", 1, 3) { self.ch.rng.usize_below(4 - need_w1.min(3)) } else { 0 };
                    let w1 = w1.min(4).max(need_w1);
                    // fields wider than four bytes are legal (high-order bytes zero); some producers write 8-byte offsets
                    let w1 = if self.ch.maybe("xrefstm-w1-over-4", 1, 8) { 5 + self.ch.rng.usize_below(4) } else { w1 };
                    let all_type1 = listed.values().all(|e| matches!(e, Some(Ent::InUse(..))));
                    let w0 = if all_type1 && self.ch.maybe("xrefstm-w0-zero", 1, 2) { 0 } else { 1 + if self.ch.maybe("xrefstm-w0-two", 1, 6) { 1 } else { 0 } };
                    let max_f3 = listed
                        .iter()
                        .map(|(n, e)| match e {
                            Some(Ent::InUse(_, g)) => *g as u64,
                            Some(Ent::Compressed(_, k)) => *k as u64,
                            None => {
                                if *n == 0 {
                                    65535
                                } else {
                                    0
                                }
                            }
                        })
                        .max()
                        .unwrap_or(0);
                    let need_w2 = if max_f3 == 0 { 0 } else if max_f3 < 256 { 1 } else { 2 };
                    let w2 = if need_w2 == 0 && self.ch.maybe("xrefstm-w2-zero", 1, 2) { 0 } else { need_w2.max(1) + if self.ch.maybe("xrefstm-wide-w2", 1, 4) { self.ch.rng.usize_below(3) } else { 0 } };
                    let w2 = w2.min(4);
                    let put_be = |v: u64, wdt: usize, o: &mut Vec<u8>| {
                        for k in (0..wdt).rev() {
                            o.push((v >> (8 * k)) as u8);
                        }
                    };
                    let mut data: Vec<u8> = vec![];
                    let mut index: Vec<RObj> = vec![];
                    let nums: Vec<u32> = listed.keys().cloned().collect();
                    let mut i = 0;
                    while i < nums.len() {
                        let mut j = i;
                        while j + 1 < nums.len() && nums[j + 1] == nums[j] + 1 {
                            j += 1;
                        }
                        index.push(RObj::Int(nums[i] as i64));
                        index.push(RObj::Int((j - i + 1) as i64));
                        i = j + 1;
                    }
                    for n in &nums {
                        let (t, f2, f3) = match &listed[n] {
                            Some(Ent::InUse(off, g)) => (1u64, *off as u64, *g as u64),
                            Some(Ent::Compressed(c, k)) => (2, *c as u64, *k as u64),
                            None => (0, next_free[n] as u64, if *n == 0 { 65535 } else { 0 }),
                        };
                        put_be(t, w0, &mut data);
                        put_be(f2, w1, &mut data);
                        put_be(f3, w2, &mut data);
                    }
                    let (enc, filter, dp) = self.encode_structural(&data, "xrefstm", w0 + w1 + w2);
                    let mut d: Vec<(Vec<u8>, RObj)> = rev.trailer.clone();
                    d.push((b"Type".to_vec(), RObj::Name(b"XRef".to_vec())));
                    d.push((b"Size".to_vec(), RObj::Int(size as i64)));
                    d.push((b"W".to_vec(), RObj::Array(vec![RObj::Int(w0 as i64), RObj::Int(w1 as i64), RObj::Int(w2 as i64)])));
                    let full = nums.len() as u32 == size && nums.first() == Some(&0);
                    if explicit_index || !full {
                        d.push((b"Index".to_vec(), RObj::Array(index)));
                    }
                    if let Some(p) = prev_startxref {
                        d.push((b"Prev".to_vec(), RObj::Int(p as i64)));
                    }
                    if let Some(f) = filter {
                        d.push((b"Filter".to_vec(), f));
                    }
                    if let Some(p) = dp {
                        d.push((b"DecodeParms".to_vec(), p));
                    }
                    let off = self.indirect((xid, 0), &RObj::Stream(d, enc), None);
                    debug_assert_eq!(off, startxref);
                    if !self.out.ends_with(b"\n") && !self.out.ends_with(b"\r") {
                        self.put(b"\n");
                    }
                }
            }
            self.put(b"startxref");
            let e = self.eol();
            self.put(e);
            self.put(format!("{}", startxref).as_bytes());
            let e = self.eol();
            self.put(e);
            self.put(b"%%EOF");
            if ri + 1 < h.revisions.len() || self.ch.maybe("eol-after-eof", 2, 3) {
                let e = self.eol();
                self.put(e);
            }
            w.startxrefs.push(startxref);
            w.revision_ends.push(self.out.len());
            prev_startxref = Some(startxref);
        }
        w.bytes = std::mem::take(&mut self.out);
        w
    }

    fn objstm_index_ws(&mut self) -> &'static [u8] {
        match self.ch.pick("objstm-index-ws", 6) {
            0 | 1 => b" ",
            2 => b"\n",
            3 => b"\r\n",
            4 => b"  ",
            _ => {
                if self.ch.maybe("objstm-index-nul-ff", 1, 2) {
                    if self.ch.rng.bool() {
                        b"\x00"
                    } else {
                        b"\x0c"
                    }
                } else {
                    b"\t"
                }
            }
        }
    }
}

/// Is this model value inside the reference writer's domain? (legal PDF only)
pub fn legal_name(n: &[u8]) -> bool {
    !n.contains(&0)
}

pub fn sanitize_for_refwriter(o: &mut RObj) {
    o.walk_mut(&mut |x| match x {
        RObj::Name(n) => n.retain(|b| *b != 0),
        RObj::Dict(d) | RObj::Stream(d, _) => {
            for (k, _) in d.iter_mut() {
                k.retain(|b| *b != 0);
            }
            // keys must stay unique after NUL removal
            let mut seen = BTreeSet::new();
            d.retain(|(k, _)| seen.insert(k.clone()));
        }
        _ => {}
    });
}
