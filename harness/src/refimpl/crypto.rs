//! Independent reference primitives for the verification harness.
//!
//! Written directly from the standards (RFC 1321 MD5, FIPS 180-4 SHA-2,
//! FIPS 197 AES, the classic RC4 description).  Pure `std`, no `unsafe`,
//! no external crates, and deliberately unrelated to the library under test.
//! Clarity over speed: these are oracles, not production ciphers.

#![allow(dead_code)] // reference code: not every entry point is used by every harness build
#![allow(clippy::manual_is_multiple_of, clippy::type_complexity)]

// ------------------------------------------------------------------ MD5 (RFC 1321)

/// K[i] = floor(2^32 * |sin(i + 1)|)
#[rustfmt::skip]
const MD5_K: [u32; 64] = [
    0xd76aa478, 0xe8c7b756, 0x242070db, 0xc1bdceee, 0xf57c0faf, 0x4787c62a, 0xa8304613, 0xfd469501,
    0x698098d8, 0x8b44f7af, 0xffff5bb1, 0x895cd7be, 0x6b901122, 0xfd987193, 0xa679438e, 0x49b40821,
    0xf61e2562, 0xc040b340, 0x265e5a51, 0xe9b6c7aa, 0xd62f105d, 0x02441453, 0xd8a1e681, 0xe7d3fbc8,
    0x21e1cde6, 0xc33707d6, 0xf4d50d87, 0x455a14ed, 0xa9e3e905, 0xfcefa3f8, 0x676f02d9, 0x8d2a4c8a,
    0xfffa3942, 0x8771f681, 0x6d9d6122, 0xfde5380c, 0xa4beea44, 0x4bdecfa9, 0xf6bb4b60, 0xbebfbc70,
    0x289b7ec6, 0xeaa127fa, 0xd4ef3085, 0x04881d05, 0xd9d4d039, 0xe6db99e5, 0x1fa27cf8, 0xc4ac5665,
    0xf4292244, 0x432aff97, 0xab9423a7, 0xfc93a039, 0x655b59c3, 0x8f0ccc92, 0xffeff47d, 0x85845dd1,
    0x6fa87e4f, 0xfe2ce6e0, 0xa3014314, 0x4e0811a1, 0xf7537e82, 0xbd3af235, 0x2ad7d2bb, 0xeb86d391,
];
const MD5_S: [[u32; 4]; 4] = [[7, 12, 17, 22], [5, 9, 14, 20], [4, 11, 16, 23], [6, 10, 15, 21]];

/// Merkle-Damgard padding: 0x80, zeros, then the bit length in `len_bytes` bytes.
fn md_pad(data: &[u8], block: usize, len_bytes: usize, big_endian: bool) -> Vec<u8> {
    let mut m = data.to_vec();
    m.push(0x80);
    while m.len() % block != block - len_bytes {
        m.push(0);
    }
    let bits = (data.len() as u128) * 8;
    if big_endian {
        m.extend_from_slice(&bits.to_be_bytes()[16 - len_bytes..]);
    } else {
        m.extend_from_slice(&bits.to_le_bytes()[..len_bytes]);
    }
    m
}

pub fn md5(data: &[u8]) -> [u8; 16] {
    let mut st: [u32; 4] = [0x67452301, 0xefcdab89, 0x98badcfe, 0x10325476];
    for chunk in md_pad(data, 64, 8, false).chunks_exact(64) {
        let mut x = [0u32; 16];
        for (i, w) in chunk.chunks_exact(4).enumerate() {
            x[i] = u32::from_le_bytes([w[0], w[1], w[2], w[3]]);
        }
        let [mut a, mut b, mut c, mut d] = st;
        for i in 0..64 {
            let (f, g) = match i / 16 {
                0 => ((b & c) | (!b & d), i),
                1 => ((b & d) | (c & !d), (5 * i + 1) % 16),
                2 => (b ^ c ^ d, (3 * i + 5) % 16),
                _ => (c ^ (b | !d), (7 * i) % 16),
            };
            let t = a.wrapping_add(f).wrapping_add(MD5_K[i]).wrapping_add(x[g]);
            a = d;
            d = c;
            c = b;
            b = b.wrapping_add(t.rotate_left(MD5_S[i / 16][i % 4]));
        }
        for (s, v) in st.iter_mut().zip([a, b, c, d]) {
            *s = s.wrapping_add(v);
        }
    }
    let mut out = [0u8; 16];
    for (i, s) in st.iter().enumerate() {
        out[4 * i..4 * i + 4].copy_from_slice(&s.to_le_bytes());
    }
    out
}

// ------------------------------------------------------------------ SHA-2 (FIPS 180-4)

/// First 32 bits of the fractional parts of the cube roots of the first 64 primes.
#[rustfmt::skip]
const K256: [u32; 64] = [
    0x428a2f98, 0x71374491, 0xb5c0fbcf, 0xe9b5dba5, 0x3956c25b, 0x59f111f1, 0x923f82a4, 0xab1c5ed5,
    0xd807aa98, 0x12835b01, 0x243185be, 0x550c7dc3, 0x72be5d74, 0x80deb1fe, 0x9bdc06a7, 0xc19bf174,
    0xe49b69c1, 0xefbe4786, 0x0fc19dc6, 0x240ca1cc, 0x2de92c6f, 0x4a7484aa, 0x5cb0a9dc, 0x76f988da,
    0x983e5152, 0xa831c66d, 0xb00327c8, 0xbf597fc7, 0xc6e00bf3, 0xd5a79147, 0x06ca6351, 0x14292967,
    0x27b70a85, 0x2e1b2138, 0x4d2c6dfc, 0x53380d13, 0x650a7354, 0x766a0abb, 0x81c2c92e, 0x92722c85,
    0xa2bfe8a1, 0xa81a664b, 0xc24b8b70, 0xc76c51a3, 0xd192e819, 0xd6990624, 0xf40e3585, 0x106aa070,
    0x19a4c116, 0x1e376c08, 0x2748774c, 0x34b0bcb5, 0x391c0cb3, 0x4ed8aa4a, 0x5b9cca4f, 0x682e6ff3,
    0x748f82ee, 0x78a5636f, 0x84c87814, 0x8cc70208, 0x90befffa, 0xa4506ceb, 0xbef9a3f7, 0xc67178f2,
];
const H256: [u32; 8] = [0x6a09e667, 0xbb67ae85, 0x3c6ef372, 0xa54ff53a, 0x510e527f, 0x9b05688c, 0x1f83d9ab, 0x5be0cd19];

pub fn sha256(data: &[u8]) -> [u8; 32] {
    let mut h = H256;
    for chunk in md_pad(data, 64, 8, true).chunks_exact(64) {
        let mut w = [0u32; 64];
        for (i, b) in chunk.chunks_exact(4).enumerate() {
            w[i] = u32::from_be_bytes([b[0], b[1], b[2], b[3]]);
        }
        for t in 16..64 {
            let s0 = w[t - 15].rotate_right(7) ^ w[t - 15].rotate_right(18) ^ (w[t - 15] >> 3);
            let s1 = w[t - 2].rotate_right(17) ^ w[t - 2].rotate_right(19) ^ (w[t - 2] >> 10);
            w[t] = s1.wrapping_add(w[t - 7]).wrapping_add(s0).wrapping_add(w[t - 16]);
        }
        let mut v = h; // a..h = v[0]..v[7]
        for t in 0..64 {
            let [a, b, c, d, e, f, g, hh] = v;
            let big1 = e.rotate_right(6) ^ e.rotate_right(11) ^ e.rotate_right(25);
            let big0 = a.rotate_right(2) ^ a.rotate_right(13) ^ a.rotate_right(22);
            let ch = (e & f) ^ (!e & g);
            let maj = (a & b) ^ (a & c) ^ (b & c);
            let t1 = hh.wrapping_add(big1).wrapping_add(ch).wrapping_add(K256[t]).wrapping_add(w[t]);
            let t2 = big0.wrapping_add(maj);
            v = [t1.wrapping_add(t2), a, b, c, d.wrapping_add(t1), e, f, g];
        }
        for (x, y) in h.iter_mut().zip(v) {
            *x = x.wrapping_add(y);
        }
    }
    let mut out = [0u8; 32];
    for (i, x) in h.iter().enumerate() {
        out[4 * i..4 * i + 4].copy_from_slice(&x.to_be_bytes());
    }
    out
}

/// First 64 bits of the fractional parts of the cube roots of the first 80 primes.
#[rustfmt::skip]
const K512: [u64; 80] = [
    0x428a2f98d728ae22, 0x7137449123ef65cd, 0xb5c0fbcfec4d3b2f, 0xe9b5dba58189dbbc,
    0x3956c25bf348b538, 0x59f111f1b605d019, 0x923f82a4af194f9b, 0xab1c5ed5da6d8118,
    0xd807aa98a3030242, 0x12835b0145706fbe, 0x243185be4ee4b28c, 0x550c7dc3d5ffb4e2,
    0x72be5d74f27b896f, 0x80deb1fe3b1696b1, 0x9bdc06a725c71235, 0xc19bf174cf692694,
    0xe49b69c19ef14ad2, 0xefbe4786384f25e3, 0x0fc19dc68b8cd5b5, 0x240ca1cc77ac9c65,
    0x2de92c6f592b0275, 0x4a7484aa6ea6e483, 0x5cb0a9dcbd41fbd4, 0x76f988da831153b5,
    0x983e5152ee66dfab, 0xa831c66d2db43210, 0xb00327c898fb213f, 0xbf597fc7beef0ee4,
    0xc6e00bf33da88fc2, 0xd5a79147930aa725, 0x06ca6351e003826f, 0x142929670a0e6e70,
    0x27b70a8546d22ffc, 0x2e1b21385c26c926, 0x4d2c6dfc5ac42aed, 0x53380d139d95b3df,
    0x650a73548baf63de, 0x766a0abb3c77b2a8, 0x81c2c92e47edaee6, 0x92722c851482353b,
    0xa2bfe8a14cf10364, 0xa81a664bbc423001, 0xc24b8b70d0f89791, 0xc76c51a30654be30,
    0xd192e819d6ef5218, 0xd69906245565a910, 0xf40e35855771202a, 0x106aa07032bbd1b8,
    0x19a4c116b8d2d0c8, 0x1e376c085141ab53, 0x2748774cdf8eeb99, 0x34b0bcb5e19b48a8,
    0x391c0cb3c5c95a63, 0x4ed8aa4ae3418acb, 0x5b9cca4f7763e373, 0x682e6ff3d6b2b8a3,
    0x748f82ee5defb2fc, 0x78a5636f43172f60, 0x84c87814a1f0ab72, 0x8cc702081a6439ec,
    0x90befffa23631e28, 0xa4506cebde82bde9, 0xbef9a3f7b2c67915, 0xc67178f2e372532b,
    0xca273eceea26619c, 0xd186b8c721c0c207, 0xeada7dd6cde0eb1e, 0xf57d4f7fee6ed178,
    0x06f067aa72176fba, 0x0a637dc5a2c898a6, 0x113f9804bef90dae, 0x1b710b35131c471b,
    0x28db77f523047d84, 0x32caab7b40c72493, 0x3c9ebe0a15c9bebc, 0x431d67c49c100d4c,
    0x4cc5d4becb3e42b6, 0x597f299cfc657e2a, 0x5fcb6fab3ad6faec, 0x6c44198c4a475817,
];
const H512: [u64; 8] = [
    0x6a09e667f3bcc908,
    0xbb67ae8584caa73b,
    0x3c6ef372fe94f82b,
    0xa54ff53a5f1d36f1,
    0x510e527fade682d1,
    0x9b05688c2b3e6c1f,
    0x1f83d9abfb41bd6b,
    0x5be0cd19137e2179,
];
const H384: [u64; 8] = [
    0xcbbb9d5dc1059ed8,
    0x629a292a367cd507,
    0x9159015a3070dd17,
    0x152fecd8f70e5939,
    0x67332667ffc00b31,
    0x8eb44a8768581511,
    0xdb0c2e0d64f98fa7,
    0x47b5481dbefa4fa4,
];

fn sha512_core(init: [u64; 8], data: &[u8]) -> [u8; 64] {
    let mut h = init;
    for chunk in md_pad(data, 128, 16, true).chunks_exact(128) {
        let mut w = [0u64; 80];
        for (i, b) in chunk.chunks_exact(8).enumerate() {
            w[i] = u64::from_be_bytes([b[0], b[1], b[2], b[3], b[4], b[5], b[6], b[7]]);
        }
        for t in 16..80 {
            let s0 = w[t - 15].rotate_right(1) ^ w[t - 15].rotate_right(8) ^ (w[t - 15] >> 7);
            let s1 = w[t - 2].rotate_right(19) ^ w[t - 2].rotate_right(61) ^ (w[t - 2] >> 6);
            w[t] = s1.wrapping_add(w[t - 7]).wrapping_add(s0).wrapping_add(w[t - 16]);
        }
        let mut v = h;
        for t in 0..80 {
            let [a, b, c, d, e, f, g, hh] = v;
            let big1 = e.rotate_right(14) ^ e.rotate_right(18) ^ e.rotate_right(41);
            let big0 = a.rotate_right(28) ^ a.rotate_right(34) ^ a.rotate_right(39);
            let ch = (e & f) ^ (!e & g);
            let maj = (a & b) ^ (a & c) ^ (b & c);
            let t1 = hh.wrapping_add(big1).wrapping_add(ch).wrapping_add(K512[t]).wrapping_add(w[t]);
            let t2 = big0.wrapping_add(maj);
            v = [t1.wrapping_add(t2), a, b, c, d.wrapping_add(t1), e, f, g];
        }
        for (x, y) in h.iter_mut().zip(v) {
            *x = x.wrapping_add(y);
        }
    }
    let mut out = [0u8; 64];
    for (i, x) in h.iter().enumerate() {
        out[8 * i..8 * i + 8].copy_from_slice(&x.to_be_bytes());
    }
    out
}

pub fn sha512(data: &[u8]) -> [u8; 64] {
    sha512_core(H512, data)
}

pub fn sha384(data: &[u8]) -> [u8; 48] {
    let full = sha512_core(H384, data);
    let mut out = [0u8; 48];
    out.copy_from_slice(&full[..48]);
    out
}

// ------------------------------------------------------------------ RC4

/// RC4 stream cipher (encrypt == decrypt).  Key must be 1..=256 bytes.
pub fn rc4(key: &[u8], data: &[u8]) -> Vec<u8> {
    assert!(!key.is_empty() && key.len() <= 256, "rc4: key length must be 1..=256");
    let mut s = [0u8; 256];
    for (i, v) in s.iter_mut().enumerate() {
        *v = i as u8;
    }
    let mut j = 0u8;
    for i in 0..256 {
        j = j.wrapping_add(s[i]).wrapping_add(key[i % key.len()]);
        s.swap(i, j as usize);
    }
    let (mut i, mut j) = (0u8, 0u8);
    data.iter()
        .map(|&b| {
            i = i.wrapping_add(1);
            j = j.wrapping_add(s[i as usize]);
            s.swap(i as usize, j as usize);
            b ^ s[s[i as usize].wrapping_add(s[j as usize]) as usize]
        })
        .collect()
}

// ------------------------------------------------------------------ AES (FIPS 197)

/// Multiplication in GF(2^8) modulo x^8 + x^4 + x^3 + x + 1.
const fn gmul(mut a: u8, mut b: u8) -> u8 {
    let mut p = 0u8;
    let mut i = 0;
    while i < 8 {
        if b & 1 != 0 {
            p ^= a;
        }
        let hi = a & 0x80;
        a <<= 1;
        if hi != 0 {
            a ^= 0x1b;
        }
        b >>= 1;
        i += 1;
    }
    p
}

/// S-box derived from its definition (FIPS 197 §5.1.1): multiplicative inverse
/// followed by the affine transformation with constant 0x63.
const fn build_sbox() -> [u8; 256] {
    let mut sbox = [0u8; 256];
    let mut x = 0usize;
    while x < 256 {
        // inverse = x^254 (0 maps to 0)
        let mut inv = 1u8;
        let mut k = 0;
        while k < 254 {
            inv = gmul(inv, x as u8);
            k += 1;
        }
        if x == 0 {
            inv = 0;
        }
        sbox[x] = inv ^ inv.rotate_left(1) ^ inv.rotate_left(2) ^ inv.rotate_left(3) ^ inv.rotate_left(4) ^ 0x63;
        x += 1;
    }
    sbox
}

const fn invert_sbox(s: &[u8; 256]) -> [u8; 256] {
    let mut inv = [0u8; 256];
    let mut i = 0usize;
    while i < 256 {
        inv[s[i] as usize] = i as u8;
        i += 1;
    }
    inv
}

const fn mul_table(m: u8) -> [u8; 256] {
    let mut t = [0u8; 256];
    let mut i = 0usize;
    while i < 256 {
        t[i] = gmul(i as u8, m);
        i += 1;
    }
    t
}

static SBOX: [u8; 256] = build_sbox();
static INV_SBOX: [u8; 256] = invert_sbox(&SBOX);
// Multiplication tables for MixColumns (x2, x3) and InvMixColumns (x9, x11, x13, x14).
static M2: [u8; 256] = mul_table(2);
static M3: [u8; 256] = mul_table(3);
static M9: [u8; 256] = mul_table(9);
static M11: [u8; 256] = mul_table(11);
static M13: [u8; 256] = mul_table(13);
static M14: [u8; 256] = mul_table(14);

/// Key expansion (FIPS 197 §5.2).  Returns Nr + 1 round keys of 16 bytes each.
fn aes_round_keys(key: &[u8]) -> Vec<[u8; 16]> {
    assert!(key.len() == 16 || key.len() == 32, "aes: key must be 16 or 32 bytes");
    let nk = key.len() / 4;
    let nr = nk + 6;
    let mut w: Vec<[u8; 4]> = key.chunks_exact(4).map(|c| [c[0], c[1], c[2], c[3]]).collect();
    let mut rcon = 1u8;
    for i in nk..4 * (nr + 1) {
        let mut t = w[i - 1];
        if i % nk == 0 {
            // SubWord(RotWord(t)) xor Rcon
            t = [SBOX[t[1] as usize] ^ rcon, SBOX[t[2] as usize], SBOX[t[3] as usize], SBOX[t[0] as usize]];
            rcon = gmul(rcon, 2);
        } else if nk > 6 && i % nk == 4 {
            t = [SBOX[t[0] as usize], SBOX[t[1] as usize], SBOX[t[2] as usize], SBOX[t[3] as usize]];
        }
        let p = w[i - nk];
        w.push([p[0] ^ t[0], p[1] ^ t[1], p[2] ^ t[2], p[3] ^ t[3]]);
    }
    w.chunks_exact(4)
        .map(|c| {
            let mut rk = [0u8; 16];
            for (j, word) in c.iter().enumerate() {
                rk[4 * j..4 * j + 4].copy_from_slice(word);
            }
            rk
        })
        .collect()
}

// The state is kept as the 16 input bytes in order: byte index = row + 4 * column.

fn xor16(s: &mut [u8; 16], other: &[u8; 16]) {
    for i in 0..16 {
        s[i] ^= other[i];
    }
}

/// ShiftRows: row r rotates left by r columns, i.e. new[r + 4c] = old[r + 4((c + r) % 4)].
const SHIFT: [usize; 16] = [0, 5, 10, 15, 4, 9, 14, 3, 8, 13, 2, 7, 12, 1, 6, 11];
/// InvShiftRows: new[r + 4c] = old[r + 4((c - r) % 4)].
const INV_SHIFT: [usize; 16] = [0, 13, 10, 7, 4, 1, 14, 11, 8, 5, 2, 15, 12, 9, 6, 3];

/// SubBytes followed by ShiftRows (or their inverses; the two steps commute).
fn sub_shift(s: &mut [u8; 16], sbox: &[u8; 256], perm: &[usize; 16]) {
    let old = *s;
    for i in 0..16 {
        s[i] = sbox[old[perm[i]] as usize];
    }
}

/// MixColumns: each column is multiplied by the circulant matrix with first row [2, 3, 1, 1].
fn mix_columns(s: &mut [u8; 16]) {
    for c in 0..4 {
        let [a0, a1, a2, a3] = [s[4 * c] as usize, s[4 * c + 1] as usize, s[4 * c + 2] as usize, s[4 * c + 3] as usize];
        s[4 * c] = M2[a0] ^ M3[a1] ^ a2 as u8 ^ a3 as u8;
        s[4 * c + 1] = a0 as u8 ^ M2[a1] ^ M3[a2] ^ a3 as u8;
        s[4 * c + 2] = a0 as u8 ^ a1 as u8 ^ M2[a2] ^ M3[a3];
        s[4 * c + 3] = M3[a0] ^ a1 as u8 ^ a2 as u8 ^ M2[a3];
    }
}

/// InvMixColumns: circulant matrix with first row [14, 11, 13, 9].
fn inv_mix_columns(s: &mut [u8; 16]) {
    for c in 0..4 {
        let [a0, a1, a2, a3] = [s[4 * c] as usize, s[4 * c + 1] as usize, s[4 * c + 2] as usize, s[4 * c + 3] as usize];
        s[4 * c] = M14[a0] ^ M11[a1] ^ M13[a2] ^ M9[a3];
        s[4 * c + 1] = M9[a0] ^ M14[a1] ^ M11[a2] ^ M13[a3];
        s[4 * c + 2] = M13[a0] ^ M9[a1] ^ M14[a2] ^ M11[a3];
        s[4 * c + 3] = M11[a0] ^ M13[a1] ^ M9[a2] ^ M14[a3];
    }
}

/// Cipher (FIPS 197 §5.1).
fn encrypt_with(rks: &[[u8; 16]], block: &[u8; 16]) -> [u8; 16] {
    let nr = rks.len() - 1;
    let mut s = *block;
    xor16(&mut s, &rks[0]);
    for (round, rk) in rks.iter().enumerate().skip(1) {
        sub_shift(&mut s, &SBOX, &SHIFT);
        if round != nr {
            mix_columns(&mut s);
        }
        xor16(&mut s, rk);
    }
    s
}

/// InvCipher (FIPS 197 §5.3).
fn decrypt_with(rks: &[[u8; 16]], block: &[u8; 16]) -> [u8; 16] {
    let nr = rks.len() - 1;
    let mut s = *block;
    xor16(&mut s, &rks[nr]);
    for round in (0..nr).rev() {
        sub_shift(&mut s, &INV_SBOX, &INV_SHIFT);
        xor16(&mut s, &rks[round]);
        if round != 0 {
            inv_mix_columns(&mut s);
        }
    }
    s
}

/// AES single-block encryption (ECB primitive).  Key must be 16 or 32 bytes.
pub fn aes_encrypt_block(key: &[u8], block: &[u8; 16]) -> [u8; 16] {
    encrypt_with(&aes_round_keys(key), block)
}

/// AES single-block decryption (ECB primitive).  Key must be 16 or 32 bytes.
pub fn aes_decrypt_block(key: &[u8], block: &[u8; 16]) -> [u8; 16] {
    decrypt_with(&aes_round_keys(key), block)
}

fn to_block(b: &[u8]) -> [u8; 16] {
    let mut out = [0u8; 16];
    out.copy_from_slice(b);
    out
}

/// CBC encryption without padding.  Panics unless `data.len() % 16 == 0`.
pub fn aes_cbc_encrypt_nopad(key: &[u8], iv: &[u8; 16], data: &[u8]) -> Vec<u8> {
    assert!(data.len() % 16 == 0, "aes_cbc_encrypt_nopad: length not a multiple of 16");
    let rks = aes_round_keys(key);
    let mut prev = *iv;
    let mut out = Vec::with_capacity(data.len());
    for chunk in data.chunks_exact(16) {
        let mut b = to_block(chunk);
        xor16(&mut b, &prev);
        prev = encrypt_with(&rks, &b);
        out.extend_from_slice(&prev);
    }
    out
}

/// CBC decryption without padding.  Panics unless `data.len() % 16 == 0`.
pub fn aes_cbc_decrypt_nopad(key: &[u8], iv: &[u8; 16], data: &[u8]) -> Vec<u8> {
    assert!(data.len() % 16 == 0, "aes_cbc_decrypt_nopad: length not a multiple of 16");
    let rks = aes_round_keys(key);
    let mut prev = *iv;
    let mut out = Vec::with_capacity(data.len());
    for chunk in data.chunks_exact(16) {
        let c = to_block(chunk);
        let mut p = decrypt_with(&rks, &c);
        xor16(&mut p, &prev);
        out.extend_from_slice(&p);
        prev = c;
    }
    out
}

/// CBC with PKCS#5/#7 padding (always 1..=16 pad bytes).  Returns `IV || ciphertext`.
pub fn aes_cbc_encrypt_pkcs5(key: &[u8], iv: &[u8; 16], plain: &[u8]) -> Vec<u8> {
    let pad = 16 - plain.len() % 16;
    let mut padded = plain.to_vec();
    padded.resize(plain.len() + pad, pad as u8);
    let mut out = iv.to_vec();
    out.extend(aes_cbc_encrypt_nopad(key, iv, &padded));
    out
}

/// Inverse of [`aes_cbc_encrypt_pkcs5`]; input is `IV || ciphertext`.
/// Empty input or a bare IV yields `Ok(vec![])`; the padding check is strict.
pub fn aes_cbc_decrypt_pkcs5(key: &[u8], iv_and_ct: &[u8]) -> Result<Vec<u8>, String> {
    if key.len() != 16 && key.len() != 32 {
        return Err(format!("aes: bad key length {}", key.len()));
    }
    if iv_and_ct.is_empty() || iv_and_ct.len() == 16 {
        return Ok(Vec::new());
    }
    if iv_and_ct.len() < 16 || iv_and_ct.len() % 16 != 0 {
        return Err(format!("aes-cbc: length {} is not IV plus whole blocks", iv_and_ct.len()));
    }
    let iv = to_block(&iv_and_ct[..16]);
    let mut plain = aes_cbc_decrypt_nopad(key, &iv, &iv_and_ct[16..]);
    let pad = *plain.last().unwrap_or(&0) as usize;
    if pad == 0 || pad > 16 || pad > plain.len() {
        return Err(format!("aes-cbc: bad padding byte {pad}"));
    }
    if plain[plain.len() - pad..].iter().any(|&b| b as usize != pad) {
        return Err("aes-cbc: inconsistent padding bytes".to_string());
    }
    plain.truncate(plain.len() - pad);
    Ok(plain)
}

// ------------------------------------------------------------------ self-test (published vectors)

pub(crate) fn hex(b: &[u8]) -> String {
    b.iter().map(|x| format!("{x:02x}")).collect()
}

pub(crate) fn unhex(s: &str) -> Vec<u8> {
    let d: Vec<u8> = s
        .bytes()
        .filter(|c| !c.is_ascii_whitespace())
        .map(|c| (c as char).to_digit(16).expect("unhex: bad digit") as u8)
        .collect();
    assert!(d.len() % 2 == 0, "unhex: odd length");
    d.chunks_exact(2).map(|p| (p[0] << 4) | p[1]).collect()
}

fn expect(what: &str, got: &[u8], want_hex: &str) -> Result<(), String> {
    let want = unhex(want_hex);
    if got == want.as_slice() {
        Ok(())
    } else {
        Err(format!("{what}: got {} want {}", hex(got), hex(&want)))
    }
}

/// Runs embedded published test vectors for every primitive.
pub fn selftest() -> Result<(), String> {
    // --- S-box spot checks (FIPS 197 Figure 7 / Figure 14)
    for (i, v) in [(0x00usize, 0x63u8), (0x01, 0x7c), (0x53, 0xed), (0xff, 0x16)] {
        if SBOX[i] != v || INV_SBOX[v as usize] as usize != i {
            return Err(format!("AES S-box[{i:#04x}] = {:#04x}, want {v:#04x}", SBOX[i]));
        }
    }

    // --- MD5: RFC 1321 appendix A.5 test suite
    let md5_suite: [(&str, &str); 7] = [
        ("", "d41d8cd98f00b204e9800998ecf8427e"),
        ("a", "0cc175b9c0f1b6a831c399e269772661"),
        ("abc", "900150983cd24fb0d6963f7d28e17f72"),
        ("message digest", "f96b697d7cb7938d525a2f31aaf161d0"),
        ("abcdefghijklmnopqrstuvwxyz", "c3fcd3d76192e4007dfb496cca67e13b"),
        ("ABCDEFGHIJKLMNOPQRSTUVWXYZabcdefghijklmnopqrstuvwxyz0123456789", "d174ab98d277d9f5a5611c2c9f419d9f"),
        (
            "12345678901234567890123456789012345678901234567890123456789012345678901234567890",
            "57edf4a22be3c955ac49da2e2107b67a",
        ),
    ];
    for (m, d) in md5_suite {
        expect(&format!("md5({m:?})"), &md5(m.as_bytes()), d)?;
    }

    // --- SHA-2: FIPS 180-4 / NIST example vectors
    let m448 = "abcdbcdecdefdefgefghfghighijhijkijkljklmklmnlmnomnopnopq";
    let m896 = "abcdefghbcdefghicdefghijdefghijkefghijklfghijklmghijklmnhijklmno\
                ijklmnopjklmnopqklmnopqrlmnopqrsmnopqrstnopqrstu";
    let million_a = vec![b'a'; 1_000_000];

    let sha256_v: [(&[u8], &str); 5] = [
        (b"abc", "ba7816bf8f01cfea414140de5dae2223b00361a396177a9cb410ff61f20015ad"),
        (b"", "e3b0c44298fc1c149afbf4c8996fb92427ae41e4649b934ca495991b7852b855"),
        (m448.as_bytes(), "248d6a61d20638b8e5c026930c3e6039a33ce45964ff2167f6ecedd419db06c1"),
        (m896.as_bytes(), "cf5b16a778af8380036ce59e7b0492370b249b11e8f07a51afac45037afee9d1"),
        (&million_a, "cdc76e5c9914fb9281a1c7e284d73e67f1809a48a497200e046d39ccc7112cd0"),
    ];
    for (m, d) in sha256_v {
        expect(&format!("sha256(len {})", m.len()), &sha256(m), d)?;
    }

    let sha384_v: [(&[u8], &str); 5] = [
        (
            b"abc",
            "cb00753f45a35e8bb5a03d699ac65007272c32ab0eded1631a8b605a43ff5bed\
             8086072ba1e7cc2358baeca134c825a7",
        ),
        (
            b"",
            "38b060a751ac96384cd9327eb1b1e36a21fdb71114be07434c0cc7bf63f6e1da\
             274edebfe76f65fbd51ad2f14898b95b",
        ),
        (
            m448.as_bytes(),
            "3391fdddfc8dc7393707a65b1b4709397cf8b1d162af05abfe8f450de5f36bc6\
             b0455a8520bc4e6f5fe95b1fe3c8452b",
        ),
        (
            m896.as_bytes(),
            "09330c33f71147e83d192fc782cd1b4753111b173b3b05d22fa08086e3b0f712\
             fcc7c71a557e2db966c3e9fa91746039",
        ),
        (
            &million_a,
            "9d0e1809716474cb086e834e310a4a1ced149e9c00f248527972cec5704c2a5b\
             07b8b3dc38ecc4ebae97ddd87f3d8985",
        ),
    ];
    for (m, d) in sha384_v {
        expect(&format!("sha384(len {})", m.len()), &sha384(m), d)?;
    }

    let sha512_v: [(&[u8], &str); 5] = [
        (
            b"abc",
            "ddaf35a193617abacc417349ae20413112e6fa4e89a97ea20a9eeee64b55d39a\
             2192992a274fc1a836ba3c23a3feebbd454d4423643ce80e2a9ac94fa54ca49f",
        ),
        (
            b"",
            "cf83e1357eefb8bdf1542850d66d8007d620e4050b5715dc83f4a921d36ce9ce\
             47d0d13c5d85f2b0ff8318d2877eec2f63b931bd47417a81a538327af927da3e",
        ),
        (
            m448.as_bytes(),
            "204a8fc6dda82f0a0ced7beb8e08a41657c16ef468b228a8279be331a703c335\
             96fd15c13b1b07f9aa1d3bea57789ca031ad85c7a71dd70354ec631238ca3445",
        ),
        (
            m896.as_bytes(),
            "8e959b75dae313da8cf4f72814fc143f8f7779c6eb9f7fa17299aeadb6889018\
             501d289e4900f7e4331b99dec4b5433ac7d329eeb6dd26545e96e55b874be909",
        ),
        (
            &million_a,
            "e718483d0ce769644e2e42c7bc15b4638e1f98b13b2044285632a803afa973eb\
             de0ff244877ea60a4cb0432ce577c31beb009c5c2c49aa2e4eadb217ad8cc09b",
        ),
    ];
    for (m, d) in sha512_v {
        expect(&format!("sha512(len {})", m.len()), &sha512(m), d)?;
    }

    // --- AES: FIPS 197 Appendix C.1 (AES-128) and C.3 (AES-256)
    let pt = to_block(&unhex("00112233445566778899aabbccddeeff"));
    let k128 = unhex("000102030405060708090a0b0c0d0e0f");
    let k256 = unhex("000102030405060708090a0b0c0d0e0f101112131415161718191a1b1c1d1e1f");
    let c128 = aes_encrypt_block(&k128, &pt);
    expect("aes128 C.1 encrypt", &c128, "69c4e0d86a7b0430d8cdb78070b4c55a")?;
    expect("aes128 C.1 decrypt", &aes_decrypt_block(&k128, &c128), &hex(&pt))?;
    let c256 = aes_encrypt_block(&k256, &pt);
    expect("aes256 C.3 encrypt", &c256, "8ea2b7ca516745bfeafc49904b496089")?;
    expect("aes256 C.3 decrypt", &aes_decrypt_block(&k256, &c256), &hex(&pt))?;

    // --- CBC: NIST SP 800-38A F.2.1/F.2.2 (CBC-AES128) and F.2.5/F.2.6 (CBC-AES256), first two blocks
    let iv = to_block(&unhex("000102030405060708090a0b0c0d0e0f"));
    let cbc_pt = unhex("6bc1bee22e409f96e93d7e117393172aae2d8a571e03ac9c9eb76fac45af8e51");
    let cbc128_key = unhex("2b7e151628aed2a6abf7158809cf4f3c");
    let cbc128_ct = "7649abac8119b246cee98e9b12e9197d5086cb9b507219ee95db113a917678b2";
    let cbc256_key = unhex("603deb1015ca71be2b73aef0857d77811f352c073b6108d72d9810a30914dff4");
    let cbc256_ct = "f58c4c04d6e5f1ba779eabfb5f7bfbd69cfc4e967edb808d679f777bc6702c7d";
    for (name, key, ct) in [("cbc-aes128", &cbc128_key, cbc128_ct), ("cbc-aes256", &cbc256_key, cbc256_ct)] {
        let got = aes_cbc_encrypt_nopad(key, &iv, &cbc_pt);
        expect(&format!("{name} encrypt"), &got, ct)?;
        expect(&format!("{name} decrypt"), &aes_cbc_decrypt_nopad(key, &iv, &got), &hex(&cbc_pt))?;
    }

    // --- PKCS#5 wrapper: lengths, round trip, strictness
    for len in [0usize, 1, 15, 16, 17, 31, 32, 33] {
        let msg: Vec<u8> = (0..len as u8).collect();
        let enc = aes_cbc_encrypt_pkcs5(&cbc256_key, &iv, &msg);
        if enc.len() != 16 + (len / 16 + 1) * 16 || enc[..16] != iv {
            return Err(format!("pkcs5 encrypt: bad framing for len {len}"));
        }
        if aes_cbc_decrypt_pkcs5(&cbc256_key, &enc)? != msg {
            return Err(format!("pkcs5 round trip failed for len {len}"));
        }
    }
    if aes_cbc_decrypt_pkcs5(&cbc128_key, &[])? != Vec::<u8>::new()
        || aes_cbc_decrypt_pkcs5(&cbc128_key, &iv)? != Vec::<u8>::new()
    {
        return Err("pkcs5 decrypt: empty / IV-only input must yield empty output".into());
    }
    if aes_cbc_decrypt_pkcs5(&cbc128_key, &[0u8; 17]).is_ok() {
        return Err("pkcs5 decrypt: accepted a ragged length".into());
    }
    // a block whose plaintext ends in 0x00 / in 0x11 / in inconsistent bytes must be rejected
    for tail in [[7u8, 7, 0], [0x11, 0x11, 0x11], [3, 2, 3]] {
        let mut block = [9u8; 16];
        block[13..].copy_from_slice(&tail);
        let mut bad = iv.to_vec();
        bad.extend(aes_cbc_encrypt_nopad(&cbc128_key, &iv, &block));
        if aes_cbc_decrypt_pkcs5(&cbc128_key, &bad).is_ok() {
            return Err(format!("pkcs5 decrypt: accepted bad padding {tail:?}"));
        }
    }

    // --- RC4: classic vectors
    expect("rc4 Key/Plaintext", &rc4(b"Key", b"Plaintext"), "bbf316e8d940af0ad3")?;
    expect("rc4 Wiki/pedia", &rc4(b"Wiki", b"pedia"), "1021bf0420")?;
    expect("rc4 Secret/Attack at dawn", &rc4(b"Secret", b"Attack at dawn"), "45a01f645fc35b383552544b9bf5")?;
    // RFC 6229 keystream prefixes (offset 0), 40-bit and 128-bit keys
    expect("rc4 RFC6229 40-bit", &rc4(&unhex("0102030405"), &[0u8; 16]), "b2396305f03dc027ccc3524a0a1118a8")?;
    expect(
        "rc4 RFC6229 128-bit",
        &rc4(&unhex("0102030405060708090a0b0c0d0e0f10"), &[0u8; 16]),
        "9ac7cc9a609d1ef7b2932899cde41b97",
    )?;
    // RFC 6229 40-bit key, keystream at offset 240
    let ks = rc4(&unhex("0102030405"), &[0u8; 256]);
    expect("rc4 RFC6229 40-bit @240", &ks[240..256], "28cb1132c96ce286421dcaadb8b69eae")?;
    Ok(())
}
