//! Proleptic Gregorian civil-date arithmetic (days since 1970-01-01 <-> y/m/d), independent of
//! every date-time crate. Algorithm: era-based conversion (public domain, H. Hinnant's
//! "chrono-compatible low-level date algorithms").

pub fn days_from_civil(y: i64, m: u32, d: u32) -> i64 {
    let y = if m <= 2 { y - 1 } else { y };
    let era = if y >= 0 { y } else { y - 399 } / 400;
    let yoe = y - era * 400;
    let mp = (m as i64 + 9) % 12;
    let doy = (153 * mp + 2) / 5 + d as i64 - 1;
    let doe = yoe * 365 + yoe / 4 - yoe / 100 + doy;
    era * 146097 + doe - 719468
}

pub fn civil_from_days(z: i64) -> (i64, u32, u32) {
    let z = z + 719468;
    let era = if z >= 0 { z } else { z - 146096 } / 146097;
    let doe = z - era * 146097;
    let yoe = (doe - doe / 1460 + doe / 36524 - doe / 146096) / 365;
    let y = yoe + era * 400;
    let doy = doe - (365 * yoe + yoe / 4 - yoe / 100);
    let mp = (5 * doy + 2) / 153;
    let d = (doy - (153 * mp + 2) / 5 + 1) as u32;
    let m = if mp < 10 { mp + 3 } else { mp - 9 } as u32;
    (if m <= 2 { y + 1 } else { y }, m, d)
}

/// local civil fields of an instant at a fixed offset
pub fn fields(unix_secs: i64, offset_minutes: i32) -> (i64, u32, u32, u32, u32, u32) {
    let local = unix_secs + offset_minutes as i64 * 60;
    let days = local.div_euclid(86400);
    let sod = local.rem_euclid(86400);
    let (y, m, d) = civil_from_days(days);
    (y, m, d, (sod / 3600) as u32, ((sod % 3600) / 60) as u32, (sod % 60) as u32)
}

/// the PDF date string of ISO 32000-1 7.9.4 with an explicit offset: D:YYYYMMDDHHmmSS+HH'mm'
pub fn pdf_date(unix_secs: i64, offset_minutes: i32) -> String {
    let (y, m, d, h, mi, s) = fields(unix_secs, offset_minutes);
    let sign = if offset_minutes < 0 { '-' } else { '+' };
    let a = offset_minutes.abs();
    format!("D:{:04}{:02}{:02}{:02}{:02}{:02}{}{:02}'{:02}'", y, m, d, h, mi, s, sign, a / 60, a % 60)
}

/// the UTC form: D:YYYYMMDDHHmmSSZ
pub fn pdf_date_z(unix_secs: i64) -> String {
    let (y, m, d, h, mi, s) = fields(unix_secs, 0);
    format!("D:{:04}{:02}{:02}{:02}{:02}{:02}Z", y, m, d, h, mi, s)
}

pub fn unix_from_fields(y: i64, m: u32, d: u32, h: u32, mi: u32, s: u32, offset_minutes: i32) -> i64 {
    days_from_civil(y, m, d) * 86400 + h as i64 * 3600 + mi as i64 * 60 + s as i64 - offset_minutes as i64 * 60
}

pub fn selftest() -> Result<(), String> {
    // anchors from the calendar, not from any library
    let known = [((1970, 1, 1), 0i64), ((2000, 3, 1), 11017), ((2000, 2, 29), 11016), ((1900, 3, 1), -25508), ((1, 1, 1), -719162), ((9999, 12, 31), 2932896), ((2024, 2, 29), 19782), ((1600, 2, 29), -135081)];
    for ((y, m, d), days) in known {
        if days_from_civil(y, m, d) != days {
            return Err(format!("days_from_civil({}-{}-{}) = {} != {}", y, m, d, days_from_civil(y, m, d), days));
        }
        if civil_from_days(days) != (y, m, d) {
            return Err(format!("civil_from_days({}) = {:?}", days, civil_from_days(days)));
        }
    }
    // every day of years 1..=9999 is consecutive and round-trips
    let mut prev = days_from_civil(1, 1, 1) - 1;
    for y in 1..=9999i64 {
        for m in 1..=12u32 {
            let dim = match m {
                1 | 3 | 5 | 7 | 8 | 10 | 12 => 31,
                4 | 6 | 9 | 11 => 30,
                _ => if (y % 4 == 0 && y % 100 != 0) || y % 400 == 0 { 29 } else { 28 },
            };
            for d in 1..=dim {
                let z = days_from_civil(y, m, d);
                if z != prev + 1 || civil_from_days(z) != (y, m, d) {
                    return Err(format!("calendar walk broke at {}-{}-{}", y, m, d));
                }
                prev = z;
            }
        }
    }
    if pdf_date(1_000_000_000, 330) != "D:20010909071640+05'30'" || pdf_date(0, -480) != "D:19691231160000-08'00'" || pdf_date_z(951782400) != "D:20000229000000Z" {
        return Err("pdf_date anchor strings".into());
    }
    Ok(())
}
