//! Independent reference implementations (no lopdf types in here).
pub mod civil;
pub mod cmap_ref;
pub mod codecs;
pub mod crypto;
pub mod sechandler;
pub mod refwriter;
pub mod robj;
pub mod saslprep_pairs;
pub mod strictreader;
pub mod tables;

pub fn selftests() -> Vec<(&'static str, Result<(), String>)> {
    vec![("codecs", codecs::selftest()), ("civil", civil::selftest()), ("crypto", crypto::selftest()), ("sechandler", sechandler::selftest())]
}
