//! Independent reference implementations (no lopdf types in here).
pub mod codecs;
pub mod robj;

pub fn selftests() -> Vec<(&'static str, Result<(), String>)> {
    vec![("codecs", codecs::selftest())]
}
