//! Strict, byte-accounting PDF reader (independent of lopdf). It follows only the structures
//! ISO 32000-1 §7.5 defines — header, startxref, cross-reference sections, Prev chain, object
//! offsets — tolerates nothing, and checks that every byte of the file belongs to one of them.

use super::codecs;
use super::robj::{RDoc, RObj};
use std::collections::{BTreeMap, BTreeSet};

pub type R<T> = Result<T, String>;

fn is_ws(c: u8) -> bool {
    matches!(c, 0 | 9 | 10 | 12 | 13 | 32)
}
fn is_delim(c: u8) -> bool {
    b"()<>[]{}/%".contains(&c)
}
fn is_regular(c: u8) -> bool {
    !is_ws(c) && !is_delim(c)
}

pub struct Lexer<'a> {
    pub b: &'a [u8],
    pub p: usize,
}

impl<'a> Lexer<'a> {
    pub fn new(b: &'a [u8], p: usize) -> Lexer<'a> {
        Lexer { b, p }
    }
    fn peek(&self) -> Option<u8> {
        self.b.get(self.p).copied()
    }
    fn err<T>(&self, m: &str) -> R<T> {
        Err(format!("{} at byte {}", m, self.p))
    }
    /// white-space and comments
    pub fn skip_ws(&mut self) {
        loop {
            match self.peek() {
                Some(c) if is_ws(c) => self.p += 1,
                Some(b'%') => {
                    while let Some(c) = self.peek() {
                        if c == b'\r' || c == b'\n' {
                            break;
                        }
                        self.p += 1;
                    }
                }
                _ => break,
            }
        }
    }
    pub fn at_keyword(&self, kw: &[u8]) -> bool {
        self.b[self.p.min(self.b.len())..].starts_with(kw) && self.b.get(self.p + kw.len()).map(|c| !is_regular(*c)).unwrap_or(true)
    }
    pub fn expect_keyword(&mut self, kw: &[u8]) -> R<()> {
        if self.at_keyword(kw) {
            self.p += kw.len();
            Ok(())
        } else {
            self.err(&format!("expected keyword {:?}", String::from_utf8_lossy(kw)))
        }
    }
    fn regular_token(&mut self) -> &'a [u8] {
        let s = self.p;
        while let Some(c) = self.peek() {
            if is_regular(c) {
                self.p += 1
            } else {
                break;
            }
        }
        &self.b[s..self.p]
    }
    pub fn unsigned(&mut self) -> R<u64> {
        let s = self.p;
        let t = self.regular_token();
        if t.is_empty() || !t.iter().all(|c| c.is_ascii_digit()) || t.len() > 19 {
            self.p = s;
            return self.err("expected unsigned integer");
        }
        Ok(std::str::from_utf8(t).unwrap().parse::<u64>().map_err(|e| e.to_string())?)
    }

    pub fn object(&mut self, depth: usize) -> R<RObj> {
        if depth > 200 {
            return self.err("nesting too deep for the strict reader");
        }
        self.skip_ws();
        match self.peek() {
            None => self.err("unexpected end of data"),
            Some(b'/') => {
                self.p += 1;
                Ok(RObj::Name(self.name_body()?))
            }
            Some(b'(') => Ok(RObj::Str(self.literal_string()?, false)),
            Some(b'[') => {
                self.p += 1;
                let mut v = vec![];
                loop {
                    self.skip_ws();
                    if self.peek() == Some(b']') {
                        self.p += 1;
                        break;
                    }
                    v.push(self.object(depth + 1)?);
                }
                Ok(RObj::Array(v))
            }
            Some(b'<') => {
                if self.b.get(self.p + 1) == Some(&b'<') {
                    Ok(RObj::Dict(self.dict(depth)?))
                } else {
                    Ok(RObj::Str(self.hex_string()?, true))
                }
            }
            Some(c) if is_regular(c) => self.number_keyword_or_ref(),
            Some(c) => self.err(&format!("unexpected byte 0x{:02x}", c)),
        }
    }

    pub fn dict(&mut self, depth: usize) -> R<Vec<(Vec<u8>, RObj)>> {
        if !self.b[self.p..].starts_with(b"<<") {
            return self.err("expected <<");
        }
        self.p += 2;
        let mut d: Vec<(Vec<u8>, RObj)> = vec![];
        loop {
            self.skip_ws();
            if self.b[self.p.min(self.b.len())..].starts_with(b">>") {
                self.p += 2;
                break;
            }
            if self.peek() != Some(b'/') {
                return self.err("dictionary key must be a name");
            }
            self.p += 1;
            let k = self.name_body()?;
            let v = self.object(depth + 1)?;
            if d.iter().any(|(kk, _)| *kk == k) {
                return self.err("duplicate dictionary key");
            }
            d.push((k, v));
        }
        Ok(d)
    }

    fn name_body(&mut self) -> R<Vec<u8>> {
        let mut n = vec![];
        while let Some(c) = self.peek() {
            if !is_regular(c) {
                break;
            }
            if c == b'#' {
                let h = self.b.get(self.p + 1..self.p + 3).ok_or("truncated # escape")?;
                let hv = |x: u8| (x as char).to_digit(16);
                match (hv(h[0]), hv(h[1])) {
                    (Some(a), Some(b)) => n.push((a * 16 + b) as u8),
                    _ => return self.err("bad # escape in name"),
                }
                self.p += 3;
            } else {
                if !(33..=126).contains(&c) {
                    return self.err("byte outside 33..126 written raw in a name");
                }
                n.push(c);
                self.p += 1;
            }
        }
        Ok(n)
    }

    fn literal_string(&mut self) -> R<Vec<u8>> {
        self.p += 1; // (
        let mut out = vec![];
        let mut depth = 0usize;
        loop {
            let Some(c) = self.peek() else { return self.err("unterminated string") };
            self.p += 1;
            match c {
                b'(' => {
                    depth += 1;
                    out.push(c)
                }
                b')' => {
                    if depth == 0 {
                        break;
                    }
                    depth -= 1;
                    out.push(c)
                }
                b'\r' => {
                    if self.peek() == Some(b'\n') {
                        self.p += 1;
                    }
                    out.push(b'\n')
                }
                b'\\' => {
                    let Some(e) = self.peek() else { return self.err("unterminated escape") };
                    self.p += 1;
                    match e {
                        b'n' => out.push(b'\n'),
                        b'r' => out.push(b'\r'),
                        b't' => out.push(b'\t'),
                        b'b' => out.push(8),
                        b'f' => out.push(12),
                        b'(' | b')' | b'\\' => out.push(e),
                        b'\r' => {
                            if self.peek() == Some(b'\n') {
                                self.p += 1;
                            }
                        }
                        b'\n' => {}
                        b'0'..=b'7' => {
                            let mut v = (e - b'0') as u32;
                            for _ in 0..2 {
                                match self.peek() {
                                    Some(d @ b'0'..=b'7') => {
                                        v = v * 8 + (d - b'0') as u32;
                                        self.p += 1;
                                    }
                                    _ => break,
                                }
                            }
                            out.push(v as u8)
                        }
                        other => out.push(other), // backslash ignored
                    }
                }
                _ => out.push(c),
            }
        }
        Ok(out)
    }

    fn hex_string(&mut self) -> R<Vec<u8>> {
        self.p += 1; // <
        let mut nibbles = vec![];
        loop {
            let Some(c) = self.peek() else { return self.err("unterminated hex string") };
            self.p += 1;
            if c == b'>' {
                break;
            }
            if is_ws(c) {
                continue;
            }
            match (c as char).to_digit(16) {
                Some(v) => nibbles.push(v as u8),
                None => return self.err("non-hex character in hex string"),
            }
        }
        if nibbles.len() % 2 == 1 {
            nibbles.push(0);
        }
        Ok(nibbles.chunks(2).map(|c| c[0] * 16 + c[1]).collect())
    }

    fn number_keyword_or_ref(&mut self) -> R<RObj> {
        let start = self.p;
        let t = self.regular_token();
        match t {
            b"true" => return Ok(RObj::Bool(true)),
            b"false" => return Ok(RObj::Bool(false)),
            b"null" => return Ok(RObj::Null),
            _ => {}
        }
        let s = std::str::from_utf8(t).map_err(|_| format!("non-ASCII token at byte {}", start))?;
        let body = s.strip_prefix(['+', '-']).unwrap_or(s);
        let is_int = !body.is_empty() && body.bytes().all(|c| c.is_ascii_digit());
        let is_real = !is_int && body.bytes().filter(|c| *c == b'.').count() == 1 && body.len() > 1 && body.bytes().all(|c| c.is_ascii_digit() || c == b'.');
        if is_int {
            let v: i64 = s.parse().map_err(|_| format!("integer out of range at byte {}", start))?;
            // reference lookahead: <uint> <ws> <uint> <ws> R
            if !s.starts_with(['+', '-']) {
                let save = self.p;
                let mut l = Lexer::new(self.b, self.p);
                l.skip_ws();
                if l.p > save {
                    if let Ok(g) = l.unsigned() {
                        let after_g = l.p;
                        l.skip_ws();
                        if l.p > after_g && l.at_keyword(b"R") && g <= 65535 && v <= u32::MAX as i64 {
                            self.p = l.p + 1;
                            return Ok(RObj::Ref(v as u32, g as u16));
                        }
                    }
                }
                self.p = save;
            }
            return Ok(RObj::Int(v));
        }
        if is_real {
            let v: f32 = s.parse().map_err(|_| format!("bad real at byte {}", start))?;
            return Ok(RObj::Real(v));
        }
        self.p = start;
        self.err(&format!("unknown token {:?}", s))
    }
}

#[derive(Clone, Debug, PartialEq)]
pub enum Entry {
    Free,
    InUse { offset: usize, gen: u16 },
    Compressed { container: u32, index: usize },
}

#[derive(Clone, Debug)]
pub struct Section {
    pub offset: usize,
    pub is_stream: bool,
    pub entries: BTreeMap<u32, Entry>,
    pub trailer: Vec<(Vec<u8>, RObj)>,
    pub size: u32,
    pub prev: Option<usize>,
    pub subsections: usize,
    /// byte range of the section in the file (table: 'xref'..end of trailer dict; stream: the object)
    pub end: usize,
    pub xref_stream_id: Option<u32>,
}

#[derive(Clone, Debug, Default)]
pub struct Stats {
    pub xref_entries_verified: u64,
    pub subsections: u64,
    pub stream_lengths_checked: u64,
    pub bytes_accounted: u64,
    pub objects_in_object_streams: u64,
    pub sections: u64,
}

#[derive(Clone, Debug)]
pub struct Parsed {
    pub doc: RDoc,
    pub sections: Vec<Section>, // newest first
    pub startxref: usize,
    /// object numbers that are file-structure containers (XRef streams, ObjStm)
    pub containers: BTreeSet<u32>,
    /// every indirect object found by the sequential scan: offset -> (id, end offset)
    pub sequential: BTreeMap<usize, ((u32, u16), usize)>,
    pub stats: Stats,
    pub header_has_binary_comment: bool,
}

pub struct StrictReader<'a> {
    b: &'a [u8],
    /// demand a binary comment line after the header
    pub require_binary_comment: bool,
}

fn dget<'x>(d: &'x [(Vec<u8>, RObj)], k: &[u8]) -> Option<&'x RObj> {
    RObj::dict_get(d, k)
}
fn dint(d: &[(Vec<u8>, RObj)], k: &[u8]) -> Option<i64> {
    match dget(d, k) {
        Some(RObj::Int(i)) => Some(*i),
        _ => None,
    }
}

impl<'a> StrictReader<'a> {
    pub fn new(b: &'a [u8]) -> StrictReader<'a> {
        StrictReader { b, require_binary_comment: false }
    }

    fn line_end(&self, p: usize) -> usize {
        let mut q = p;
        while q < self.b.len() && self.b[q] != b'\r' && self.b[q] != b'\n' {
            q += 1;
        }
        q
    }
    fn eat_eol(&self, p: usize) -> R<usize> {
        match (self.b.get(p), self.b.get(p + 1)) {
            (Some(b'\r'), Some(b'\n')) => Ok(p + 2),
            (Some(b'\n'), _) | (Some(b'\r'), _) => Ok(p + 1),
            _ => Err(format!("expected end-of-line at byte {}", p)),
        }
    }

    /// decode a stream body through its Filter chain with the reference decoders
    pub fn decode_stream(&self, d: &[(Vec<u8>, RObj)], data: &[u8]) -> R<Vec<u8>> {
        let filters: Vec<Vec<u8>> = match dget(d, b"Filter") {
            None => vec![],
            Some(RObj::Name(n)) => vec![n.clone()],
            Some(RObj::Array(a)) => a.iter().map(|x| if let RObj::Name(n) = x { Ok(n.clone()) } else { Err("Filter array element is not a name".to_string()) }).collect::<R<Vec<_>>>()?,
            _ => return Err("bad Filter".into()),
        };
        let parms: Vec<Option<Vec<(Vec<u8>, RObj)>>> = match dget(d, b"DecodeParms") {
            None => vec![None; filters.len()],
            Some(RObj::Dict(p)) if filters.len() == 1 => vec![Some(p.clone())],
            Some(RObj::Array(a)) if a.len() == filters.len() => a
                .iter()
                .map(|x| match x {
                    RObj::Dict(p) => Ok(Some(p.clone())),
                    RObj::Null => Ok(None),
                    _ => Err("bad DecodeParms element".to_string()),
                })
                .collect::<R<Vec<_>>>()?,
            _ => return Err("DecodeParms does not match Filter".into()),
        };
        let mut cur = data.to_vec();
        for (f, p) in filters.iter().zip(parms) {
            let p = p.unwrap_or_default();
            cur = match f.as_slice() {
                b"ASCII85Decode" => codecs::a85_decode_ref(&cur)?,
                b"FlateDecode" => codecs::inflate_ref(&cur)?,
                b"LZWDecode" => codecs::lzw_decode_ref(&cur, dint(&p, b"EarlyChange").unwrap_or(1) != 0)?,
                other => return Err(format!("unsupported filter {}", String::from_utf8_lossy(other))),
            };
            let pred = dint(&p, b"Predictor").unwrap_or(1);
            if (10..=15).contains(&pred) {
                let colors = dint(&p, b"Colors").unwrap_or(1) as usize;
                let bpc = dint(&p, b"BitsPerComponent").unwrap_or(8) as usize;
                let cols = dint(&p, b"Columns").unwrap_or(1) as usize;
                cur = codecs::png_decode_ref(&cur, colors, bpc, cols)?;
            } else if pred != 1 {
                return Err("unsupported predictor".into());
            }
        }
        Ok(cur)
    }

    /// parse `n g obj ... endobj` starting exactly at `off`. Indirect /Length is resolved
    /// through `resolve_len`. Returns (id, object, end offset after 'endobj').
    fn indirect_at(&self, off: usize, resolve_len: &dyn Fn(u32, u16) -> Option<i64>, stats: &mut Stats) -> R<((u32, u16), RObj, usize)> {
        let mut l = Lexer::new(self.b, off);
        if !self.b.get(off).map(|c| c.is_ascii_digit()).unwrap_or(false) {
            return Err(format!("offset {} is not the first byte of an object header", off));
        }
        let n = l.unsigned()?;
        let p0 = l.p;
        l.skip_ws();
        if l.p == p0 {
            return l.err("missing white-space after object number");
        }
        let g = l.unsigned()?;
        let p1 = l.p;
        l.skip_ws();
        if l.p == p1 {
            return l.err("missing white-space after generation");
        }
        l.expect_keyword(b"obj")?;
        if n > u32::MAX as u64 || g > 65535 {
            return l.err("object id out of range");
        }
        let id = (n as u32, g as u16);
        l.skip_ws();
        let obj = if self.b[l.p.min(self.b.len())..].starts_with(b"<<") {
            let d = l.dict(0)?;
            l.skip_ws();
            if l.at_keyword(b"stream") {
                l.p += 6;
                // 'stream' must be followed by CRLF or LF (not CR alone)
                let data_start = match (self.b.get(l.p), self.b.get(l.p + 1)) {
                    (Some(b'\r'), Some(b'\n')) => l.p + 2,
                    (Some(b'\n'), _) => l.p + 1,
                    _ => return l.err("'stream' keyword not followed by CRLF or LF"),
                };
                let len = match dget(&d, b"Length") {
                    Some(RObj::Int(i)) => *i,
                    Some(RObj::Ref(ln, lg)) => resolve_len(*ln, *lg).ok_or(format!("indirect Length {} {} R of object {} does not resolve to an integer", ln, lg, n))?,
                    _ => return Err(format!("stream {} {} has no usable Length", n, g)),
                };
                if len < 0 || data_start + len as usize > self.b.len() {
                    return Err(format!("stream {} {}: Length {} runs past the end of the file", n, g, len));
                }
                let data_end = data_start + len as usize;
                // Length must be exactly the bytes up to (an optional EOL and) 'endstream'
                let mut q = data_end;
                if self.b[q..].starts_with(b"\r\n") {
                    q += 2;
                } else if self.b[q..].starts_with(b"\n") || self.b[q..].starts_with(b"\r") {
                    q += 1;
                }
                if !self.b[q..].starts_with(b"endstream") {
                    return Err(format!(
                        "stream {} {}: Length {} does not end at 'endstream' (bytes there: {:?})",
                        n,
                        g,
                        len,
                        String::from_utf8_lossy(&self.b[data_end..(data_end + 12).min(self.b.len())])
                    ));
                }
                stats.stream_lengths_checked += 1;
                l.p = q + 9;
                let mut dd = d;
                dd.retain(|(k, _)| k != b"Length");
                RObj::Stream(dd, self.b[data_start..data_end].to_vec())
            } else {
                RObj::Dict(d)
            }
        } else {
            l.object(0)?
        };
        l.skip_ws();
        l.expect_keyword(b"endobj")?;
        Ok((id, obj, l.p))
    }

    fn table_section(&self, off: usize, stats: &mut Stats) -> R<Section> {
        let mut p = off;
        if !self.b[p..].starts_with(b"xref") {
            return Err(format!("no 'xref' keyword at {}", off));
        }
        p = self.eat_eol(p + 4)?;
        let mut entries = BTreeMap::new();
        let mut subsections = 0;
        loop {
            if self.b[p..].starts_with(b"trailer") {
                break;
            }
            // subsection header: "<start> <count>" EOL
            let le = self.line_end(p);
            let line = std::str::from_utf8(&self.b[p..le]).map_err(|_| "non-ASCII subsection header")?;
            let mut it = line.split(' ');
            let (a, c) = (it.next(), it.next());
            if it.next().is_some() {
                return Err(format!("malformed subsection header {:?} at {}", line, p));
            }
            let digits = |s: &str| !s.is_empty() && s.bytes().all(|c| c.is_ascii_digit());
            let (start, count) = match (a, c) {
                (Some(a), Some(c)) if digits(a) && digits(c) => (a.parse::<u64>().map_err(|e| e.to_string())?, c.parse::<u64>().map_err(|e| e.to_string())?),
                _ => return Err(format!("malformed subsection header {:?} at {}", line, p)),
            };
            p = self.eat_eol(le)?;
            subsections += 1;
            for i in 0..count {
                let e = self.b.get(p..p + 20).ok_or(format!("truncated xref entry at {}", p))?;
                let ok = e[..10].iter().all(|c| c.is_ascii_digit())
                    && e[10] == b' '
                    && e[11..16].iter().all(|c| c.is_ascii_digit())
                    && e[16] == b' '
                    && (e[17] == b'n' || e[17] == b'f')
                    && (&e[18..20] == b" \n" || &e[18..20] == b"\r\n" || &e[18..20] == b" \r");
                if !ok {
                    return Err(format!("xref entry at byte {} is not a well-formed 20-byte entry: {:?}", p, String::from_utf8_lossy(e)));
                }
                let f1: usize = std::str::from_utf8(&e[..10]).unwrap().parse().unwrap();
                let f2: u32 = std::str::from_utf8(&e[11..16]).unwrap().parse().unwrap();
                let num = start + i;
                if num > u32::MAX as u64 {
                    return Err("object number out of range".into());
                }
                if entries.contains_key(&(num as u32)) {
                    return Err(format!("object {} listed twice in one xref section", num));
                }
                if e[17] == b'n' {
                    if f2 > 65535 {
                        return Err("generation out of range".into());
                    }
                    entries.insert(num as u32, Entry::InUse { offset: f1, gen: f2 as u16 });
                } else {
                    entries.insert(num as u32, Entry::Free);
                }
                p += 20;
            }
        }
        stats.subsections += subsections as u64;
        let mut l = Lexer::new(self.b, p + 7);
        l.skip_ws();
        let trailer = l.dict(0)?;
        let size = dint(&trailer, b"Size").ok_or("trailer has no integer Size")?;
        let prev = match dget(&trailer, b"Prev") {
            None => None,
            Some(RObj::Int(i)) if *i >= 0 => Some(*i as usize),
            _ => return Err("bad Prev".into()),
        };
        if dget(&trailer, b"XRefStm").is_some() {
            return Err("hybrid-reference file (XRefStm) is outside the strict reader's domain".into());
        }
        Ok(Section { offset: off, is_stream: false, entries, trailer, size: size as u32, prev, subsections, end: l.p, xref_stream_id: None })
    }

    fn stream_section(&self, off: usize, stats: &mut Stats) -> R<Section> {
        let (id, obj, end) = self.indirect_at(off, &|_, _| None, stats)?;
        let RObj::Stream(d, raw) = obj else { return Err(format!("object at startxref offset {} is not a stream", off)) };
        if dget(&d, b"Type") != Some(&RObj::Name(b"XRef".to_vec())) {
            return Err("cross-reference stream lacks /Type /XRef".into());
        }
        let data = self.decode_stream(&d, &raw)?;
        let size = dint(&d, b"Size").ok_or("xref stream has no integer Size")?;
        let w: Vec<i64> = match dget(&d, b"W") {
            Some(RObj::Array(a)) if a.len() == 3 => a.iter().map(|x| if let RObj::Int(i) = x { Ok(*i) } else { Err("W element not an integer".to_string()) }).collect::<R<Vec<_>>>()?,
            _ => return Err("xref stream W must be an array of three integers".into()),
        };
        if w.iter().any(|x| *x < 0 || *x > 8) {
            return Err("xref stream W out of range".into());
        }
        let index: Vec<i64> = match dget(&d, b"Index") {
            None => vec![0, size],
            Some(RObj::Array(a)) if a.len() % 2 == 0 => a.iter().map(|x| if let RObj::Int(i) = x { Ok(*i) } else { Err("Index element not an integer".to_string()) }).collect::<R<Vec<_>>>()?,
            _ => return Err("bad Index".into()),
        };
        let total: i64 = index.chunks(2).map(|c| c[1]).sum();
        let rec = (w[0] + w[1] + w[2]) as usize;
        if index.iter().any(|x| *x < 0) || data.len() != rec * total as usize {
            return Err(format!("xref stream: W {:?}, Index {:?} and decoded Length {} are inconsistent", w, index, data.len()));
        }
        let mut entries = BTreeMap::new();
        let mut p = 0usize;
        let be = |s: &[u8]| s.iter().fold(0u64, |a, b| (a << 8) | *b as u64);
        for c in index.chunks(2) {
            for i in 0..c[1] {
                let t = if w[0] == 0 { 1 } else { be(&data[p..p + w[0] as usize]) };
                let f2 = be(&data[p + w[0] as usize..p + (w[0] + w[1]) as usize]);
                let f3 = if w[2] == 0 { 0 } else { be(&data[p + (w[0] + w[1]) as usize..p + rec]) };
                p += rec;
                let num = (c[0] + i) as u32;
                if entries.contains_key(&num) {
                    return Err(format!("object {} listed twice in one xref stream", num));
                }
                let e = match t {
                    0 => Entry::Free,
                    1 => {
                        if f3 > 65535 {
                            return Err("generation out of range".into());
                        }
                        Entry::InUse { offset: f2 as usize, gen: f3 as u16 }
                    }
                    2 => Entry::Compressed { container: f2 as u32, index: f3 as usize },
                    _ => return Err(format!("xref stream entry type {} is undefined", t)),
                };
                entries.insert(num, e);
            }
        }
        stats.subsections += (index.len() / 2) as u64;
        let prev = match dget(&d, b"Prev") {
            None => None,
            Some(RObj::Int(i)) if *i >= 0 => Some(*i as usize),
            _ => return Err("bad Prev".into()),
        };
        // the trailer content of an xref stream is its dictionary
        let trailer = d.clone();
        Ok(Section { offset: off, is_stream: true, entries, trailer, size: size as u32, prev, subsections: index.len() / 2, end, xref_stream_id: Some(id.0) })
    }

    /// decode an object stream into its (object number, object) list in index order
    fn objstm_objects(&self, d: &[(Vec<u8>, RObj)], raw: &[u8]) -> R<Vec<(u32, RObj)>> {
        let data = self.decode_stream(d, raw)?;
        let nn = dint(d, b"N").ok_or("ObjStm without N")? as usize;
        let first = dint(d, b"First").ok_or("ObjStm without First")? as usize;
        if first > data.len() {
            return Err("ObjStm First beyond data".into());
        }
        let mut l = Lexer::new(&data[..first], 0);
        let mut pairs = vec![];
        for _ in 0..nn {
            l.skip_ws();
            let a = l.unsigned()?;
            l.skip_ws();
            let o = l.unsigned()?;
            pairs.push((a as u32, o as usize));
        }
        l.skip_ws();
        if l.p != first {
            return Err("ObjStm index block has trailing data".into());
        }
        let mut objs = vec![];
        for (a, o) in pairs {
            let mut ol = Lexer::new(&data, first + o);
            objs.push((a, ol.object(0)?));
        }
        Ok(objs)
    }

    pub fn parse(&self) -> R<Parsed> {
        let b = self.b;
        let mut stats = Stats::default();
        // ---- header
        if !b.starts_with(b"%PDF-") {
            return Err("file does not start with %PDF-".into());
        }
        let le = self.line_end(5);
        let version = String::from_utf8(b[5..le].to_vec()).map_err(|_| "version is not UTF-8")?;
        let mut p = self.eat_eol(le)?;
        let mut binary_mark: Option<Vec<u8>> = None;
        if b.get(p) == Some(&b'%') {
            let le2 = self.line_end(p);
            binary_mark = Some(b[p + 1..le2].to_vec());
            p = self.eat_eol(le2)?;
        }
        if self.require_binary_comment && binary_mark.is_none() {
            return Err("no binary comment line after the header".into());
        }
        let body_start = p;
        // ---- tail: startxref <offset> %%EOF [EOL]
        let mut end = b.len();
        if b.ends_with(b"\r\n") {
            end -= 2;
        } else if b.ends_with(b"\n") || b.ends_with(b"\r") {
            end -= 1;
        }
        if !b[..end].ends_with(b"%%EOF") {
            return Err("file does not end with %%EOF".into());
        }
        // ---- locate the last startxref (strictly: "startxref" EOL digits EOL "%%EOF" at the tail)
        let tail_kw = b[..end].windows(9).rposition(|w| w == b"startxref").ok_or("no startxref keyword")?;
        let q = self.eat_eol(tail_kw + 9)?;
        let le = self.line_end(q);
        if le == q || !b[q..le].iter().all(|c| c.is_ascii_digit()) {
            return Err("startxref is not followed by an offset line".into());
        }
        let startxref: usize = std::str::from_utf8(&b[q..le]).unwrap().parse().map_err(|_| "startxref overflow")?;
        if self.eat_eol(le)? + 5 != end {
            return Err("the last startxref offset line is not directly followed by the final %%EOF".into());
        }
        // ---- cross-reference chain
        let mut sections: Vec<Section> = vec![];
        let mut seen = BTreeSet::new();
        let mut next = Some(startxref);
        while let Some(off) = next {
            if !seen.insert(off) {
                return Err("Prev chain loops".into());
            }
            if off >= b.len() {
                return Err(format!("cross-reference offset {} is outside the file", off));
            }
            let s = if b[off..].starts_with(b"xref") { self.table_section(off, &mut stats)? } else { self.stream_section(off, &mut stats)? };
            next = s.prev;
            sections.push(s);
        }
        let mut merged: BTreeMap<u32, Entry> = BTreeMap::new();
        for s in &sections {
            for (n, e) in &s.entries {
                merged.entry(*n).or_insert_with(|| e.clone());
            }
        }
        // integer objects (for indirect /Length) are resolved through the cross-reference data
        // a length kept as a plain object (the only form allowed for the Length of an object stream itself)
        let resolve_plain = |n: u32, g: u16| -> Option<i64> {
            for s in &sections {
                if let Some(Entry::InUse { offset, gen }) = s.entries.get(&n) {
                    if *gen == g {
                        let mut st = Stats::default();
                        if let Ok((id, RObj::Int(i), _)) = self.indirect_at(*offset, &|_, _| None, &mut st) {
                            if id == (n, g) {
                                return Some(i);
                            }
                        }
                    }
                }
            }
            None
        };
        let resolve_int = |n: u32, g: u16| -> Option<i64> {
            // search every section: an older revision's stream may refer to an older length object
            for s in &sections {
                match s.entries.get(&n) {
                    Some(Entry::InUse { offset, gen }) if *gen == g => {
                        let mut st = Stats::default();
                        if let Ok((id, RObj::Int(i), _)) = self.indirect_at(*offset, &|_, _| None, &mut st) {
                            if id == (n, g) {
                                return Some(i);
                            }
                        }
                    }
                    Some(Entry::Compressed { container, index }) if g == 0 => {
                        if let Some(Entry::InUse { offset, .. }) = merged.get(container) {
                            let mut st = Stats::default();
                            if let Ok((_, RObj::Stream(d, raw), _)) = self.indirect_at(*offset, &resolve_plain, &mut st) {
                                if let Ok(objs) = self.objstm_objects(&d, &raw) {
                                    if let Some((a, RObj::Int(i))) = objs.get(*index) {
                                        if *a == n {
                                            return Some(*i);
                                        }
                                    }
                                }
                            }
                        }
                    }
                    _ => {}
                }
            }
            None
        };
        stats = Stats::default();
        // ---- sequential scan: every byte belongs to a structure
        let mut sequential: BTreeMap<usize, ((u32, u16), usize)> = BTreeMap::new();
        let mut seq_objs: BTreeMap<usize, ((u32, u16), RObj)> = BTreeMap::new();
        let mut table_offsets: Vec<usize> = vec![];
        let mut startxrefs: Vec<(usize, usize)> = vec![]; // (value, position of keyword)
        {
            let mut l = Lexer::new(b, body_start);
            loop {
                l.skip_ws();
                if l.p >= b.len() {
                    break;
                }
                let c = b[l.p];
                if c.is_ascii_digit() {
                    let off = l.p;
                    let (id, o, e) = self.indirect_at(off, &resolve_int, &mut stats).map_err(|e| format!("sequential scan: {}", e))?;
                    sequential.insert(off, (id, e));
                    seq_objs.insert(off, (id, o));
                    l.p = e;
                } else if l.at_keyword(b"xref") {
                    let s = self.table_section(l.p, &mut stats)?;
                    table_offsets.push(l.p);
                    l.p = s.end;
                } else if l.at_keyword(b"startxref") {
                    let kw = l.p;
                    l.p += 9;
                    let q = self.eat_eol(l.p)?;
                    let le = self.line_end(q);
                    let t = &b[q..le];
                    if t.is_empty() || !t.iter().all(|c| c.is_ascii_digit()) {
                        return Err(format!("startxref at {} is not followed by an offset line", kw));
                    }
                    let v: usize = std::str::from_utf8(t).unwrap().parse().map_err(|_| "startxref overflow")?;
                    let q2 = self.eat_eol(le)?;
                    if !b[q2..].starts_with(b"%%EOF") {
                        return Err(format!("startxref at {} is not followed by %%EOF", kw));
                    }
                    l.p = q2 + 5;
                    startxrefs.push((v, kw));
                } else {
                    return Err(format!("byte {} (0x{:02x}) belongs to no file structure: {:?}", l.p, c, String::from_utf8_lossy(&b[l.p..(l.p + 20).min(b.len())])));
                }
            }
        }
        stats.subsections = 0;
        stats.bytes_accounted = b.len() as u64;
        for s in &sections {
            if s.is_stream {
                if !sequential.contains_key(&s.offset) {
                    return Err(format!("startxref/Prev {} is not the offset of an object found by the scan", s.offset));
                }
            } else if !table_offsets.contains(&s.offset) {
                return Err(format!("startxref/Prev {} does not point at a cross-reference table found by the scan", s.offset));
            }
        }
        stats.sections = sections.len() as u64;
        // every startxref value written in the file is the offset of one of the sections, oldest first
        let chain: Vec<usize> = sections.iter().rev().map(|s| s.offset).collect();
        let written: Vec<usize> = startxrefs.iter().map(|x| x.0).collect();
        if chain != written {
            return Err(format!("startxref values in the file {:?} are not the Prev chain {:?}", written, chain));
        }
        // ---- merge newest-first and verify every in-use entry of every section
        let mut referenced_offsets: BTreeSet<usize> = BTreeSet::new();
        let mut containers: BTreeSet<u32> = BTreeSet::new();
        // Size of a section: greater than every object number that is in use in the file as of that revision, i.e.
        // in the table formed by this section and all sections reachable through Prev, newer entries winning
        // (ISO 32000-1 Table 15). Numbers that a revision has freed are not held against a smaller Size.
        for (k, s) in sections.iter().enumerate() {
            let mut view: BTreeMap<u32, &Entry> = BTreeMap::new();
            for o in &sections[k..] {
                for (n, e) in &o.entries {
                    view.entry(*n).or_insert(e);
                }
            }
            if let Some(n) = view.iter().filter(|(_, e)| !matches!(e, Entry::Free)).map(|(n, _)| *n).max() {
                if n >= s.size {
                    return Err(format!("Size {} of the section at byte {} does not exceed object number {} in use as of that revision", s.size, s.offset, n));
                }
            }
        }
        for s in &sections {
            if let Some(x) = s.xref_stream_id {
                containers.insert(x);
                referenced_offsets.insert(s.offset);
            }
            for (n, e) in &s.entries {
                if *n >= s.size {
                    return Err(format!("Size {} does not exceed object number {}", s.size, n));
                }
                if let Entry::InUse { offset, gen } = e {
                    match sequential.get(offset) {
                        Some((id, _)) if *id == (*n, *gen) => {
                            stats.xref_entries_verified += 1;
                            referenced_offsets.insert(*offset);
                        }
                        Some((id, _)) => return Err(format!("xref entry for {} {} points at the header of object {} {}", n, gen, id.0, id.1)),
                        None => return Err(format!("xref entry for object {} {} (offset {}) does not point at an object header", n, gen, offset)),
                    }
                }
            }
        }
        for (off, (id, _)) in &sequential {
            if !referenced_offsets.contains(off) {
                return Err(format!("object {} {} at byte {} is not named by any cross-reference section", id.0, id.1, off));
            }
        }
        // ---- build the document
        let mut doc = RDoc::new();
        doc.version = version;
        doc.binary_mark = binary_mark.clone().unwrap_or_default();
        let mut objstm_cache: BTreeMap<u32, Vec<(u32, RObj)>> = BTreeMap::new();
        for (n, e) in &merged {
            match e {
                Entry::Free => {}
                Entry::InUse { offset, gen } => {
                    let (_, o) = &seq_objs[offset];
                    doc.objects.insert((*n, *gen), o.clone());
                }
                Entry::Compressed { container, index } => {
                    if !objstm_cache.contains_key(container) {
                        let Some(Entry::InUse { offset, .. }) = merged.get(container) else { return Err(format!("object stream {} of object {} is not an in-use object", container, n)) };
                        let (_, o) = &seq_objs[offset];
                        let RObj::Stream(d, raw) = o else { return Err(format!("container {} is not a stream", container)) };
                        if dget(d, b"Type") != Some(&RObj::Name(b"ObjStm".to_vec())) {
                            return Err(format!("container {} lacks /Type /ObjStm", container));
                        }
                        let objs = self.objstm_objects(d, raw)?;
                        containers.insert(*container);
                        objstm_cache.insert(*container, objs);
                    }
                    let objs = &objstm_cache[container];
                    match objs.get(*index) {
                        Some((a, o)) if a == n => {
                            doc.objects.insert((*n, 0), o.clone());
                            stats.objects_in_object_streams += 1;
                        }
                        _ => return Err(format!("object {} is not at index {} of object stream {}", n, index, container)),
                    }
                }
            }
        }
        doc.trailer = sections[0].trailer.clone();
        let has_bin = binary_mark.is_some();
        Ok(Parsed { doc, sections, startxref, containers, sequential, stats, header_has_binary_comment: has_bin })
    }
}
