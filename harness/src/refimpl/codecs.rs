//! Independent reference codecs for the PDF stream filters, written from the specifications only
//! (ISO 32000-1 §7.4.3 / §7.4.4, RFC 1950 / RFC 1951, PNG §6 / §9, TIFF 6.0 §13).
//! Pure std, no `unsafe`.  Encoders generate inputs for the decoders under test; the `*_ref`
//! decoders are the oracle (and self-test the encoders).  Decoders never panic: malformed input => `Err`.
#![allow(dead_code)]

/// tiny deterministic RNG handed in by the caller for randomised encoder choices
pub trait Choice {
    /// uniform in 0..n (n >= 1)
    fn below(&mut self, n: u32) -> u32;
}

fn err<T>(m: &str) -> Result<T, String> {
    Err(m.to_string())
}

// =====================================================================================
// ASCII85 (ISO 32000-1 §7.4.3)
// =====================================================================================

pub struct A85Opts {
    /// encode an all-zero full group as 'z'
    pub use_z: bool,
    /// insert a newline after every N output characters (0 = none)
    pub whitespace_every: usize,
    /// append the "~>" end-of-data marker
    pub eod: bool,
}

/// A final partial group of n bytes becomes n+1 characters (never 'z').
pub fn a85_encode(data: &[u8], o: &A85Opts) -> Vec<u8> {
    let mut out = Vec::with_capacity(data.len() / 4 * 5 + 8);
    let mut col = 0usize;
    for g in data.chunks(4) {
        let mut v = 0u32;
        for i in 0..4 {
            v = (v << 8) | u32::from(*g.get(i).unwrap_or(&0));
        }
        let mut d = [b'z'; 5];
        let mut n = 1;
        if !(g.len() == 4 && v == 0 && o.use_z) {
            for slot in d.iter_mut().rev() {
                *slot = (v % 85) as u8 + b'!';
                v /= 85;
            }
            n = g.len() + 1;
        }
        for &ch in &d[..n] {
            if o.whitespace_every > 0 && col == o.whitespace_every {
                out.push(b'\n');
                col = 0;
            }
            out.push(ch);
            col += 1;
        }
    }
    if o.eod {
        out.extend_from_slice(b"~>");
    }
    out
}

fn a85_group(g: &[u8; 5]) -> Result<[u8; 4], String> {
    let v = g.iter().fold(0u64, |v, &d| v * 85 + u64::from(d));
    if v > u64::from(u32::MAX) {
        return err("a85: group value exceeds 2^32-1");
    }
    Ok((v as u32).to_be_bytes())
}

/// Strict per ISO: white-space ignored, 'z' only at a group boundary, stops at "~>" (end of input is
/// also accepted as end of data; anything after "~>" is ignored), a final group of 1 character is an
/// error, a group value > 2^32-1 is an error, any other byte outside '!'..='u' is an error.
pub fn a85_decode_ref(input: &[u8]) -> Result<Vec<u8>, String> {
    let mut out = Vec::new();
    let (mut g, mut n) = ([0u8; 5], 0usize);
    let mut it = input.iter();
    while let Some(&ch) = it.next() {
        match ch {
            0 | 9 | 10 | 12 | 13 | 32 => {}
            b'~' => {
                if it.next() != Some(&b'>') {
                    return err("a85: '~' not followed by '>'");
                }
                break;
            }
            b'z' => {
                if n != 0 {
                    return err("a85: 'z' inside a group");
                }
                out.extend_from_slice(&[0; 4]);
            }
            b'!'..=b'u' => {
                g[n] = ch - b'!';
                n += 1;
                if n == 5 {
                    out.extend_from_slice(&a85_group(&g)?);
                    n = 0;
                }
            }
            _ => return Err(format!("a85: illegal byte 0x{ch:02x}")),
        }
    }
    if n == 1 {
        return err("a85: final group of a single character");
    }
    if n > 1 {
        g[n..].fill(84);
        out.extend_from_slice(&a85_group(&g)?[..n - 1]);
    }
    Ok(out)
}

// =====================================================================================
// LZW, PDF flavour (ISO 32000-1 §7.4.4 / TIFF 6.0 §13): MSB-first, 9..12 bits, 256 clear, 257 EOD
// =====================================================================================
//
// Code-width rule, stated for the DECODER whose next free table slot is `d`:
//   EarlyChange=1:  width = smallest w in 9..=12 with d + 1 < 2^w   (10 bits once slot 510 is filled)
//   EarlyChange=0:  width = smallest w in 9..=12 with d     < 2^w   (10 bits once slot 511 is filled)
// After k >= 1 codes following a clear the encoder has filled one slot more than the decoder.

const LZW_CLEAR: u16 = 256;
const LZW_EOD: u16 = 257;

fn lzw_width(decoder_next: usize, early: bool) -> u32 {
    let v = decoder_next + usize::from(early);
    (9..12).find(|&w| v < (1usize << w)).unwrap_or(12)
}

/// Starts with a clear code and ends with EOD.  One `c.below(4)` picks the optional-clear rate
/// (0 = never, else about 1 per 100 / 1500 / 20000 codes; a clear is emitted when `c.below(rate) == 0`),
/// so a `Choice` that always answers 0 or always n-1 yields no optional clears.  A clear is always
/// emitted before the code width would exceed 12 bits: after slot 4094 (early) / 4095 (late) is filled.
pub fn lzw_encode(data: &[u8], early_change: bool, c: &mut dyn Choice) -> Vec<u8> {
    use std::collections::HashMap;
    struct W {
        out: Vec<u8>,
        acc: u32,
        n: u32,
    }
    impl W {
        fn put(&mut self, code: u16, width: u32) {
            self.acc = (self.acc << width) | u32::from(code);
            self.n += width;
            while self.n >= 8 {
                self.n -= 8;
                self.out.push((self.acc >> self.n) as u8);
            }
        }
    }
    let rate = [0u32, 100, 1500, 20000][c.below(4) as usize];
    let limit = if early_change { 4095 } else { 4096 };
    let mut w = W { out: Vec::new(), acc: 0, n: 0 };
    let mut table: HashMap<(u16, u8), u16> = HashMap::new();
    let mut next = 258usize; // encoder's next free slot
    // decoder's next free slot when it reads our next code is `next - 1` (or 258 right after a clear)
    let width = |next: usize| lzw_width(next.max(259) - 1, early_change);
    w.put(LZW_CLEAR, 9);
    if rate != 0 && c.below(rate) == 0 {
        w.put(LZW_CLEAR, 9);
    }
    let mut cur: Option<u16> = None;
    for &b in data {
        let Some(p) = cur else {
            cur = Some(u16::from(b));
            continue;
        };
        if let Some(&code) = table.get(&(p, b)) {
            cur = Some(code);
            continue;
        }
        w.put(p, width(next));
        table.insert((p, b), next as u16);
        next += 1;
        cur = Some(u16::from(b));
        if next >= limit || (rate != 0 && c.below(rate) == 0) {
            w.put(LZW_CLEAR, width(next));
            table.clear();
            next = 258;
        }
    }
    if let Some(p) = cur {
        w.put(p, width(next));
        next += 1; // the decoder fills a slot for this code too
    }
    w.put(LZW_EOD, width(next));
    if w.n > 0 {
        w.put(0, 8 - w.n);
    }
    w.out
}

/// Returns (data, number of clear codes seen).
fn lzw_decode_inner(input: &[u8], early: bool) -> Result<(Vec<u8>, usize), String> {
    let mut out = Vec::new();
    // string table as (prefix code, last byte, first byte, length); slots 256/257 are placeholders
    let mut tab: Vec<(u16, u8, u8, usize)> = (0..258).map(|i| (0, i as u8, i as u8, 1)).collect();
    let (mut acc, mut nbits, mut pos) = (0u32, 0u32, 0usize);
    let mut prev: Option<u16> = None;
    let mut clears = 0;
    loop {
        let w = lzw_width(tab.len(), early);
        while nbits < w {
            let Some(&b) = input.get(pos) else {
                return err("lzw: input ends before EOD code");
            };
            acc = (acc << 8) | u32::from(b);
            nbits += 8;
            pos += 1;
        }
        nbits -= w;
        let code = ((acc >> nbits) & ((1 << w) - 1)) as u16;
        if code == LZW_CLEAR {
            tab.truncate(258);
            prev = None;
            clears += 1;
            continue;
        }
        if code == LZW_EOD {
            return Ok((out, clears));
        }
        let ci = usize::from(code);
        let Some(p) = prev else {
            if code > 255 {
                return err("lzw: first code after clear is not a literal");
            }
            out.push(code as u8);
            prev = Some(code);
            continue;
        };
        let pe = tab[usize::from(p)];
        // entry this code stands for (KwKwK case: the slot about to be filled)
        let (e, extra) = if ci < tab.len() {
            (tab[ci], None)
        } else if ci == tab.len() && ci < 4096 {
            (pe, Some(pe.2))
        } else {
            return Err(format!("lzw: code {code} not in table (size {})", tab.len()));
        };
        let start = out.len();
        out.resize(start + e.3, 0);
        let (mut k, mut x) = (start + e.3, e);
        loop {
            k -= 1;
            out[k] = x.1;
            if x.3 == 1 {
                break;
            }
            x = tab[usize::from(x.0)];
        }
        out.extend(extra);
        if tab.len() < 4096 {
            tab.push((p, out[start], pe.2, pe.3 + 1));
        }
        prev = Some(code);
    }
}

/// Strict: the EOD code is required (bytes after it are ignored), the first code after a clear must be a
/// literal, a code beyond the next free slot is an error.  A full table (4096) stays at 12 bits and stops growing.
pub fn lzw_decode_ref(input: &[u8], early_change: bool) -> Result<Vec<u8>, String> {
    lzw_decode_inner(input, early_change).map(|r| r.0)
}

// =====================================================================================
// zlib / deflate (RFC 1950 / RFC 1951)
// =====================================================================================

pub enum ZMode {
    Stored,
    Fixed,
    /// random sequence of stored and fixed-Huffman blocks
    Mixed,
}

pub fn adler32(data: &[u8]) -> u32 {
    let (mut a, mut b) = (1u32, 0u32);
    for &x in data {
        a = (a + u32::from(x)) % 65521;
        b = (b + a) % 65521;
    }
    (b << 16) | a
}

const LEN_BASE: [u16; 29] = [
    3, 4, 5, 6, 7, 8, 9, 10, 11, 13, 15, 17, 19, 23, 27, 31, 35, 43, 51, 59, 67, 83, 99, 115, 131, 163, 195, 227, 258,
];
const LEN_EXTRA: [u8; 29] = [0, 0, 0, 0, 0, 0, 0, 0, 1, 1, 1, 1, 2, 2, 2, 2, 3, 3, 3, 3, 4, 4, 4, 4, 5, 5, 5, 5, 0];
const DIST_BASE: [u16; 30] = [
    1, 2, 3, 4, 5, 7, 9, 13, 17, 25, 33, 49, 65, 97, 129, 193, 257, 385, 513, 769, 1025, 1537, 2049, 3073, 4097, 6145,
    8193, 12289, 16385, 24577,
];
const DIST_EXTRA: [u8; 30] =
    [0, 0, 0, 0, 1, 1, 2, 2, 3, 3, 4, 4, 5, 5, 6, 6, 7, 7, 8, 8, 9, 9, 10, 10, 11, 11, 12, 12, 13, 13];

/// LSB-first bit writer (RFC 1951 §3.1.1)
struct BitW {
    out: Vec<u8>,
    acc: u64,
    n: u32,
}
impl BitW {
    fn bits(&mut self, v: u32, k: u32) {
        self.acc |= u64::from(v) << self.n;
        self.n += k;
        while self.n >= 8 {
            self.out.push(self.acc as u8);
            self.acc >>= 8;
            self.n -= 8;
        }
    }
    /// Huffman codes are packed starting from their most significant bit
    fn huff(&mut self, code: u32, k: u32) {
        self.bits(code.reverse_bits() >> (32 - k), k);
    }
    fn align(&mut self) {
        if self.n > 0 {
            self.bits(0, 8 - self.n);
        }
    }
    /// fixed literal/length code, RFC 1951 §3.2.6
    fn fixed_sym(&mut self, s: u32) {
        match s {
            0..=143 => self.huff(0x30 + s, 8),
            144..=255 => self.huff(0x190 + s - 144, 9),
            256..=279 => self.huff(s - 256, 7),
            _ => self.huff(0xC0 + s - 280, 8),
        }
    }
}

/// hash-chain LZ77 match finder over the whole input (so matches may reach back across block borders)
struct Lz<'a> {
    d: &'a [u8],
    head: Vec<u32>, // hash -> position+1 of most recent occurrence (0 = none)
    prev: Vec<u32>, // position -> position+1 of previous occurrence with the same hash
}
impl Lz<'_> {
    fn hash(&self, i: usize) -> usize {
        let d = self.d;
        ((usize::from(d[i]) << 10) ^ (usize::from(d[i + 1]) << 5) ^ usize::from(d[i + 2])) & 0x7fff
    }
    fn insert(&mut self, i: usize) {
        if i + 3 <= self.d.len() {
            let h = self.hash(i);
            self.prev[i] = self.head[h];
            self.head[h] = i as u32 + 1;
        }
    }
    /// longest match (len, dist) at `i`, 3 <= len <= max, 1 <= dist <= 32768
    fn find(&self, i: usize, max: usize) -> Option<(usize, usize)> {
        if max < 3 || i + 3 > self.d.len() {
            return None;
        }
        let mut best = None;
        let mut cand = self.head[self.hash(i)];
        for _ in 0..24 {
            if cand == 0 || i - (cand as usize - 1) > 32768 {
                break;
            }
            let p = cand as usize - 1;
            let len = (0..max).take_while(|&k| self.d[p + k] == self.d[i + k]).count();
            if len >= 3 && best.is_none_or(|(l, _)| len > l) {
                best = Some((len, i - p));
            }
            cand = self.prev[p];
        }
        best
    }
}

/// Valid RFC 1950 stream: CMF 0x78, random FLEVEL, correct FCHECK, no preset dictionary; random block
/// splits (stored blocks <= 65535 bytes, occasionally empty blocks, possibly trailing ones); fixed-Huffman
/// blocks mix literals with greedy hash-chain LZ77 matches (3..258, 1..32768, overlapping allowed), now
/// and then skipping or shortening a match; Adler-32 trailer.
pub fn zlib_encode(data: &[u8], mode: ZMode, c: &mut dyn Choice) -> Vec<u8> {
    let n = data.len();
    let flg = c.below(4) << 6;
    // CMF = CINFO << 4 | 8 (RFC 1950): the usual 32 KiB window gives 0x78; where no back-reference can reach further
    // than 256 bytes (stored blocks only, or at most 256 bytes of data) any smaller window may be declared
    let small_ok = matches!(mode, ZMode::Stored) || n <= 256;
    let cinfo = if small_ok && c.below(3) == 0 { c.below(8) } else { 7 };
    let cmf = (cinfo << 4) | 8;
    let mut w = BitW { out: vec![cmf as u8, (flg + (31 - (cmf * 256 + flg) % 31) % 31) as u8], acc: 0, n: 0 };
    let mut lz = Lz { d: data, head: vec![0; 1 << 15], prev: vec![0; n] };
    let (mut pos, mut trailing) = (0usize, 0);
    loop {
        let stored = match mode {
            ZMode::Stored => true,
            ZMode::Fixed => false,
            ZMode::Mixed => c.below(2) == 0,
        };
        let size = match c.below(8) {
            0 => 0,
            1 | 2 => c.below(64),
            3 | 4 => c.below(4096),
            5 | 6 => c.below(65536),
            _ => if stored { 65535 } else { 200_000 },
        } as usize;
        let end = pos + size.min(n - pos);
        let last = end == n && (trailing >= 2 || c.below(4) != 0);
        trailing += usize::from(end == n);
        w.bits(u32::from(last), 1);
        if stored {
            w.bits(0, 2);
            w.align();
            let len = (end - pos) as u16;
            w.out.extend_from_slice(&len.to_le_bytes());
            w.out.extend_from_slice(&(!len).to_le_bytes());
            w.out.extend_from_slice(&data[pos..end]);
            (pos..end).for_each(|i| lz.insert(i));
        } else {
            w.bits(1, 2);
            let mut i = pos;
            while i < end {
                let m = lz.find(i, (end - i).min(258)).filter(|_| c.below(8) != 0);
                let Some((mut len, dist)) = m else {
                    w.fixed_sym(u32::from(data[i]));
                    lz.insert(i);
                    i += 1;
                    continue;
                };
                if c.below(8) == 0 {
                    len = 3 + c.below(len as u32 - 2) as usize;
                }
                let ls = LEN_BASE.iter().rposition(|&b| usize::from(b) <= len).unwrap_or(0);
                w.fixed_sym(257 + ls as u32);
                w.bits((len - usize::from(LEN_BASE[ls])) as u32, u32::from(LEN_EXTRA[ls]));
                let ds = DIST_BASE.iter().rposition(|&b| usize::from(b) <= dist).unwrap_or(0);
                w.huff(ds as u32, 5);
                w.bits((dist - usize::from(DIST_BASE[ds])) as u32, u32::from(DIST_EXTRA[ds]));
                (i..i + len).for_each(|k| lz.insert(k));
                i += len;
            }
            w.fixed_sym(256);
        }
        pos = end;
        if last {
            break;
        }
    }
    w.align();
    w.out.extend_from_slice(&adler32(data).to_be_bytes());
    w.out
}

/// LSB-first bit reader
struct BitR<'a> {
    d: &'a [u8],
    pos: usize,
    acc: u32,
    n: u32,
}
impl BitR<'_> {
    fn bits(&mut self, k: u32) -> Result<u32, String> {
        while self.n < k {
            let Some(&b) = self.d.get(self.pos) else {
                return err("inflate: unexpected end of input");
            };
            self.acc |= u32::from(b) << self.n;
            self.n += 8;
            self.pos += 1;
        }
        let v = self.acc & ((1u32 << k) - 1);
        self.acc >>= k;
        self.n -= k;
        Ok(v)
    }
    fn byte(&mut self) -> Result<u8, String> {
        self.bits(8).map(|v| v as u8)
    }
    /// canonical-Huffman decode, one bit at a time (RFC 1951 §3.2.2)
    fn sym(&mut self, h: &Huff) -> Result<usize, String> {
        let (mut code, mut first, mut index) = (0i32, 0i32, 0i32);
        for len in 1..16 {
            code |= self.bits(1)? as i32;
            let count = i32::from(h.count[len]);
            if code - count < first {
                return Ok(usize::from(h.sym[(index + code - first) as usize]));
            }
            index += count;
            first = (first + count) << 1;
            code <<= 1;
        }
        err("inflate: invalid Huffman code")
    }
}

struct Huff {
    count: [u16; 16],
    sym: Vec<u16>,
}

/// Canonical code from code lengths.  Over-subscribed sets are rejected; incomplete sets are rejected
/// unless `allow_single` and the set is a single 1-bit code (or empty) - the same policy as zlib.
fn huff_build(lens: &[u8], allow_single: bool) -> Result<Huff, String> {
    let mut count = [0u16; 16];
    for &l in lens {
        count[usize::from(l)] += 1;
    }
    let mut left = 1i32;
    for &c in &count[1..] {
        left = (left << 1) - i32::from(c);
        if left < 0 {
            return err("inflate: over-subscribed Huffman code");
        }
    }
    let used = lens.len() - usize::from(count[0]);
    if left > 0 && !(allow_single && (used == 0 || (used == 1 && count[1] == 1))) {
        return err("inflate: incomplete Huffman code");
    }
    let mut offs = [0u16; 16];
    for l in 1..15 {
        offs[l + 1] = offs[l] + count[l];
    }
    let mut sym = vec![0u16; used];
    for (s, &l) in lens.iter().enumerate() {
        if l != 0 {
            sym[usize::from(offs[usize::from(l)])] = s as u16;
            offs[usize::from(l)] += 1;
        }
    }
    Ok(Huff { count, sym })
}

fn dynamic_tables(r: &mut BitR) -> Result<(Huff, Huff), String> {
    const ORDER: [usize; 19] = [16, 17, 18, 0, 8, 7, 9, 6, 10, 5, 11, 4, 12, 3, 13, 2, 14, 1, 15];
    let hlit = r.bits(5)? as usize + 257;
    let hdist = r.bits(5)? as usize + 1;
    let hclen = r.bits(4)? as usize + 4;
    if hlit > 286 || hdist > 30 {
        return err("inflate: too many length or distance codes");
    }
    let mut cl = [0u8; 19];
    for &o in &ORDER[..hclen] {
        cl[o] = r.bits(3)? as u8;
    }
    let clh = huff_build(&cl, false)?;
    let mut lens: Vec<u8> = Vec::with_capacity(hlit + hdist);
    while lens.len() < hlit + hdist {
        let (val, rep) = match r.sym(&clh)? {
            s @ 0..=15 => (s as u8, 1),
            16 => match lens.last() {
                Some(&p) => (p, 3 + r.bits(2)? as usize),
                None => return err("inflate: repeat code with no previous length"),
            },
            17 => (0, 3 + r.bits(3)? as usize),
            _ => (0, 11 + r.bits(7)? as usize),
        };
        if lens.len() + rep > hlit + hdist {
            return err("inflate: code-length repeat overruns the tables");
        }
        lens.resize(lens.len() + rep, val);
    }
    if lens[256] == 0 {
        return err("inflate: no end-of-block code");
    }
    Ok((huff_build(&lens[..hlit], true)?, huff_build(&lens[hlit..], true)?))
}

fn fixed_tables() -> (Huff, Huff) {
    let mut l = [8u8; 288];
    l[144..256].fill(9);
    l[256..280].fill(7);
    // both sets are complete, so these cannot fail
    let lit = huff_build(&l, false).unwrap_or(Huff { count: [0; 16], sym: Vec::new() });
    let dist = huff_build(&[5u8; 32], false).unwrap_or(Huff { count: [0; 16], sym: Vec::new() });
    (lit, dist)
}

/// Full RFC 1950/1951 decoder: stored, fixed and dynamic Huffman blocks.  Checks CM/CINFO/FCHECK, rejects
/// FDICT, checks LEN/NLEN, distances reaching before the start of output, reserved symbols and block
/// type 3, and the Adler-32 trailer.  Bytes after the trailer are ignored.
pub fn inflate_ref(input: &[u8]) -> Result<Vec<u8>, String> {
    if input.len() < 2 {
        return err("zlib: truncated header");
    }
    let (cmf, flg) = (u32::from(input[0]), u32::from(input[1]));
    if cmf & 15 != 8 || cmf >> 4 > 7 {
        return err("zlib: bad CM/CINFO");
    }
    if (cmf * 256 + flg) % 31 != 0 {
        return err("zlib: bad FCHECK");
    }
    if flg & 0x20 != 0 {
        return err("zlib: preset dictionary not supported");
    }
    let mut r = BitR { d: input, pos: 2, acc: 0, n: 0 };
    let mut out: Vec<u8> = Vec::new();
    loop {
        let last = r.bits(1)? == 1;
        let (lit, dist) = match r.bits(2)? {
            0 => {
                (r.acc, r.n) = (0, 0); // skip to the byte boundary (at most 7 bits are ever buffered here)
                let len = r.bits(16)?;
                if r.bits(16)? != len ^ 0xffff {
                    return err("inflate: stored LEN/NLEN mismatch");
                }
                let end = r.pos + len as usize;
                let Some(chunk) = input.get(r.pos..end) else {
                    return err("inflate: stored block truncated");
                };
                out.extend_from_slice(chunk);
                r.pos = end;
                if last {
                    break;
                }
                continue;
            }
            1 => fixed_tables(),
            2 => dynamic_tables(&mut r)?,
            _ => return err("inflate: reserved block type 3"),
        };
        loop {
            let s = r.sym(&lit)?;
            match s {
                0..=255 => out.push(s as u8),
                256 => break,
                257..=285 => {
                    let len = usize::from(LEN_BASE[s - 257]) + r.bits(u32::from(LEN_EXTRA[s - 257]))? as usize;
                    let ds = r.sym(&dist)?;
                    if ds >= 30 {
                        return err("inflate: reserved distance symbol");
                    }
                    let d = usize::from(DIST_BASE[ds]) + r.bits(u32::from(DIST_EXTRA[ds]))? as usize;
                    if d > out.len() {
                        return err("inflate: distance reaches before start of output");
                    }
                    for _ in 0..len {
                        out.push(out[out.len() - d]);
                    }
                }
                _ => return err("inflate: reserved length symbol"),
            }
        }
        if last {
            break;
        }
    }
    // the bit buffer never holds a whole byte after a read, so the trailer starts at the next byte
    (r.acc, r.n) = (0, 0);
    let mut sum = 0u32;
    for _ in 0..4 {
        sum = (sum << 8) | u32::from(r.byte().map_err(|_| "zlib: truncated Adler-32".to_string())?);
    }
    if sum != adler32(&out) {
        return err("zlib: Adler-32 mismatch");
    }
    Ok(out)
}

// =====================================================================================
// PNG predictors (PDF /Predictor 10..15; PNG §6 / §9): every row carries its own filter-type byte
// =====================================================================================

#[derive(Clone, Copy, Debug, PartialEq, Eq)]
pub enum RowFilter {
    None = 0,
    Sub = 1,
    Up = 2,
    Avg = 3,
    Paeth = 4,
}

/// PNG §9.4; a = left, b = above, c = upper-left; ties resolve a, then b, then c
pub fn paeth(a: u8, b: u8, c: u8) -> u8 {
    let (ia, ib, ic) = (i32::from(a), i32::from(b), i32::from(c));
    let p = ia + ib - ic;
    let (pa, pb, pc) = ((p - ia).abs(), (p - ib).abs(), (p - ic).abs());
    if pa <= pb && pa <= pc {
        a
    } else if pb <= pc {
        b
    } else {
        c
    }
}

/// (bytes per pixel, bytes per row)
fn png_geom(colors: usize, bpc: usize, columns: usize) -> (usize, usize) {
    let bits = colors.saturating_mul(bpc);
    ((bits / 8).max(1), columns.saturating_mul(bits).div_ceil(8))
}

/// predictor for byte `i` of a row given the raw current row so far and the raw previous row
fn png_predict(f: RowFilter, bpp: usize, prev: &[u8], cur: &[u8], i: usize) -> u8 {
    let a = if i >= bpp { cur[i - bpp] } else { 0 };
    let b = prev.get(i).copied().unwrap_or(0);
    let c = if i >= bpp { prev.get(i - bpp).copied().unwrap_or(0) } else { 0 };
    match f {
        RowFilter::None => 0,
        RowFilter::Sub => a,
        RowFilter::Up => b,
        RowFilter::Avg => ((u16::from(a) + u16::from(b)) / 2) as u8,
        RowFilter::Paeth => paeth(a, b, c),
    }
}

/// bytes_per_pixel = max(1, colors*bpc/8); row_len = ceil(columns*colors*bpc/8).
/// `data.len()` must be a multiple of row_len (panics otherwise).  `pick(row_index)` chooses each row's filter.
pub fn png_encode(
    data: &[u8],
    colors: usize,
    bpc: usize,
    columns: usize,
    pick: &mut dyn FnMut(usize) -> RowFilter,
) -> Vec<u8> {
    let (bpp, row_len) = png_geom(colors, bpc, columns);
    if data.is_empty() {
        return Vec::new();
    }
    assert!(row_len > 0 && data.len().is_multiple_of(row_len), "png_encode: data is not a whole number of rows");
    let mut out = Vec::with_capacity(data.len() + data.len() / row_len);
    let zero = vec![0u8; row_len];
    let mut prev: &[u8] = &zero;
    for (r, cur) in data.chunks(row_len).enumerate() {
        let f = pick(r);
        out.push(f as u8);
        out.extend((0..row_len).map(|i| cur[i].wrapping_sub(png_predict(f, bpp, prev, cur, i))));
        prev = cur;
    }
    out
}

/// In-place reconstruction of one row per PNG §9.2 (Avg = floor((left+above)/2) without 8-bit overflow).
/// Bytes of `prev` missing beyond its length count as 0.
pub fn png_unfilter_row(f: RowFilter, bpp: usize, prev: &[u8], cur: &mut [u8]) {
    let bpp = bpp.max(1);
    for i in 0..cur.len() {
        cur[i] = cur[i].wrapping_add(png_predict(f, bpp, prev, cur, i));
    }
}

/// `enc` must be a whole number of (1 + row_len)-byte rows, each starting with a filter type 0..=4.
pub fn png_decode_ref(enc: &[u8], colors: usize, bpc: usize, columns: usize) -> Result<Vec<u8>, String> {
    let (bpp, row_len) = png_geom(colors, bpc, columns);
    if row_len == 0 {
        return err("png: zero row length");
    }
    if !enc.len().is_multiple_of(row_len + 1) {
        return err("png: data is not a whole number of rows");
    }
    if enc.is_empty() {
        return Ok(Vec::new()); // (also keeps an absurd row_len from being allocated)
    }
    let mut out: Vec<u8> = Vec::with_capacity(enc.len());
    let mut prev = vec![0u8; row_len];
    for row in enc.chunks(row_len + 1) {
        let f = match row[0] {
            0 => RowFilter::None,
            1 => RowFilter::Sub,
            2 => RowFilter::Up,
            3 => RowFilter::Avg,
            4 => RowFilter::Paeth,
            t => return Err(format!("png: bad filter type {t}")),
        };
        let mut cur = row[1..].to_vec();
        png_unfilter_row(f, bpp, &prev, &mut cur);
        out.extend_from_slice(&cur);
        prev = cur;
    }
    Ok(out)
}

// =====================================================================================
// self-test
// =====================================================================================

/// xorshift64* used only by `selftest`
struct TestRng(u64);
impl TestRng {
    fn next(&mut self) -> u64 {
        self.0 ^= self.0 >> 12;
        self.0 ^= self.0 << 25;
        self.0 ^= self.0 >> 27;
        self.0.wrapping_mul(0x2545_F491_4F6C_DD1D)
    }
    fn bytes(&mut self, n: usize, alphabet: u32) -> Vec<u8> {
        (0..n).map(|_| self.below(alphabet) as u8).collect()
    }
}
impl Choice for TestRng {
    fn below(&mut self, n: u32) -> u32 {
        ((self.next() >> 33) % u64::from(n.max(1))) as u32
    }
}
/// always answers n-1: no optional LZW clears
struct Last;
impl Choice for Last {
    fn below(&mut self, n: u32) -> u32 {
        n - 1
    }
}

const LEVIATHAN: &[u8] = b"Man is distinguished, not only by his reason, but by this singular passion from other \
animals, which is a lust of the mind, that by a perseverance of delight in the continued and indefatigable \
generation of knowledge, exceeds the short vehemence of any carnal pleasure.";
const LEVIATHAN_A85: &[u8] = b"9jqo^BlbD-BleB1DJ+*+F(f,q/0JhKF<GL>Cj@.4Gp$d7F!,L7@<6@)/0JDEF<G%<+EV:2F!,O<\
DJ+*.@<*K0@<6L(Df-\\0Ec5e;DffZ(EZee.Bl.9pF\"AGXBPCsi+DGm>@3BB/F*&OCAfu2/AKYi(\
DIb:@FD,*)+C]U=@3BN#EcYf8ATD3s@q?d$AftVqCh[NqF<G:8+EV:.+Cf>-FD5W8ARlolDIal(\
DId<j@<?3r@:F%a+D58'ATD4$Bl@l3De:,-DJs`8ARoFb/0JMK@qB4^F!,R<AKZ&-DfTqBG%G>u\
D.RTpAKYo'+CT/5+Cei#DII?(E,9)oF*2M7/c";

/// python3 `zlib.compress(LEVIATHAN, 9)`: one DYNAMIC-Huffman block
const ZLIB_LEVIATHAN: [u8; 179] = [
    0x78, 0xda, 0x2d, 0x8f, 0xd1, 0x91, 0xc4, 0x20, 0x0c, 0x43, 0x5b, 0x51, 0x01, 0x99, 0xeb, 0xe4,
    0x8a, 0x70, 0x40, 0x01, 0xcf, 0x11, 0x93, 0xc1, 0xb0, 0xbb, 0xe9, 0x7e, 0x21, 0x73, 0xbf, 0xb2,
    0xf4, 0x24, 0xff, 0x8a, 0x41, 0x1d, 0x51, 0xbd, 0xab, 0xa5, 0xa1, 0x9e, 0x19, 0x37, 0x58, 0xed,
    0xa8, 0x56, 0x6e, 0xec, 0x37, 0xf2, 0x3c, 0x37, 0x8a, 0x57, 0xdb, 0xb0, 0x8f, 0xbe, 0xa4, 0xbe,
    0x34, 0x5f, 0xfe, 0x22, 0x0d, 0x97, 0xb8, 0x6b, 0x35, 0x1c, 0xad, 0x9e, 0xa8, 0x3d, 0xb3, 0x41,
    0x4c, 0x4f, 0x29, 0xbe, 0xe1, 0x9d, 0x35, 0xe4, 0x55, 0x20, 0x28, 0xc3, 0x27, 0xf4, 0x98, 0x61,
    0xe2, 0x54, 0x9b, 0x2d, 0x3d, 0xcb, 0x83, 0x13, 0x5c, 0x6c, 0xce, 0x17, 0x9b, 0x58, 0xe0, 0xf2,
    0x44, 0x16, 0x4d, 0xb9, 0x43, 0xed, 0xb1, 0x87, 0x6a, 0x73, 0xdd, 0x60, 0x9c, 0xe0, 0x38, 0xc5,
    0xc8, 0x43, 0xba, 0x26, 0xd9, 0x0b, 0x91, 0x68, 0x33, 0xd7, 0xd7, 0x80, 0x19, 0xfc, 0xb3, 0xfa,
    0x2e, 0x8c, 0x89, 0x1b, 0xf8, 0x09, 0x64, 0xf4, 0x07, 0xe0, 0xb9, 0xb6, 0x8e, 0x17, 0x33, 0x4f,
    0xfe, 0x57, 0x88, 0xdd, 0x08, 0xd2, 0x4c, 0x0a, 0xae, 0x32, 0xdf, 0x1b, 0x8d, 0x3f, 0x5f, 0x88,
    0xc0, 0x62, 0x2d,
];
/// python3 `zlib.compress(b"abcabcabd"*40 + bytes(range(32)) + bytes(300), 9)`: one fixed-Huffman block with overlapping matches
const ZLIB_REPEATS: [u8; 56] = [
    0x78, 0xda, 0x4b, 0x4c, 0x4a, 0x4e, 0x04, 0xa1, 0x94, 0xc4, 0x51, 0x06, 0x2d, 0x19, 0x0c, 0x8c,
    0x4c, 0xcc, 0x2c, 0xac, 0x6c, 0xec, 0x1c, 0x9c, 0x5c, 0xdc, 0x3c, 0xbc, 0x7c, 0xfc, 0x02, 0x82,
    0x42, 0xc2, 0x22, 0xa2, 0x62, 0xe2, 0x12, 0x92, 0x52, 0xd2, 0x32, 0xb2, 0x72, 0xf2, 0x0c, 0xa3,
    0x80, 0x68, 0x00, 0x00, 0xa0, 0xfa, 0x8b, 0xe9,
];

fn check(ok: bool, what: &str) -> Result<(), String> {
    if ok { Ok(()) } else { Err(format!("codecs selftest: {what}")) }
}

pub fn selftest() -> Result<(), String> {
    let mut rng = TestRng(0x9E37_79B9_7F4A_7C15);

    // ---- ASCII85 ----
    let plain = A85Opts { use_z: true, whitespace_every: 0, eod: false };
    let enc = a85_encode(LEVIATHAN, &plain);
    check(enc.starts_with(b"9jqo^BlbD-BleB1DJ+*+") && enc.ends_with(b"DII?(E,9)oF*2M7/c"), "a85 Leviathan ends")?;
    check(enc == LEVIATHAN_A85, "a85 Leviathan full text")?;
    check(a85_decode_ref(&enc)? == LEVIATHAN, "a85 Leviathan decode")?;
    check(a85_encode(&[0; 4], &plain) == b"z", "a85 zero group -> z")?;
    check(a85_encode(&[0; 4], &A85Opts { use_z: false, ..plain }) == b"!!!!!", "a85 zero group without z")?;
    check(a85_encode(&[0; 3], &plain) == b"!!!!", "a85 partial zero group is not z")?;
    check(a85_decode_ref(b"<~ 9jqo^ ~>").is_err(), "a85 '<' must be rejected")?;
    for bad in [&b"!"[..], b"!!!!!!~>", b"s8W-\"", b"!!z!!!", b"ab~", b"ab~ >", b"abv", b"s8W-"] {
        check(a85_decode_ref(bad).is_err(), "a85 malformed input accepted")?;
    }
    check(a85_decode_ref(b"s8W-!~>junk")? == [255; 4], "a85 max group / stop at EOD")?;
    check(a85_decode_ref(b"s8 N\n~>")? == [255, 255], "a85 whitespace + partial group")?;
    for i in 0..200 {
        let d = rng.bytes(i % 23 + (i / 23) * 7, if i % 3 == 0 { 2 } else { 256 });
        let o = A85Opts { use_z: i % 2 == 0, whitespace_every: [0, 1, 7, 64][i % 4], eod: i % 5 != 0 };
        check(a85_decode_ref(&a85_encode(&d, &o))? == d, "a85 round trip")?;
    }

    // ---- Adler-32 / inflate on streams produced by real zlib ----
    check(adler32(b"Wikipedia") == 0x11E6_0398 && adler32(b"") == 1, "adler32")?;
    check(ZLIB_LEVIATHAN[2] >> 1 & 3 == 2 && ZLIB_REPEATS[2] >> 1 & 3 == 1, "embedded zlib block types")?;
    check(inflate_ref(&ZLIB_LEVIATHAN)? == LEVIATHAN, "inflate real-zlib dynamic block")?;
    let mut repeats = b"abcabcabd".repeat(40);
    repeats.extend(0..32u8);
    repeats.extend([0u8; 300]);
    check(inflate_ref(&ZLIB_REPEATS)? == repeats, "inflate real-zlib fixed block")?;
    for (i, mode) in [ZMode::Stored, ZMode::Fixed, ZMode::Mixed, ZMode::Mixed, ZMode::Fixed].into_iter().enumerate() {
        let d = match i {
            0 => rng.bytes(70_000, 256),
            1 => rng.bytes(40_000, 3),
            2 => b"abcabcabd".repeat(5000),
            3 => Vec::new(),
            _ => vec![7u8; 70_000],
        };
        let z = zlib_encode(&d, mode, &mut rng);
        check(inflate_ref(&z)? == d, "zlib round trip")?;
        let mut bad = z.clone();
        let k = bad.len() - 1;
        bad[k] ^= 1;
        check(inflate_ref(&bad).is_err(), "zlib corrupt Adler-32 accepted")?;
        check(inflate_ref(&z[..k]).is_err(), "zlib truncated stream accepted")?;
    }
    check(inflate_ref(&[0x78, 0x9d, 3, 0, 0, 0, 0, 1]).is_err(), "zlib bad FCHECK accepted")?;
    check(inflate_ref(&[0x78, 0x9c, 7, 0, 0, 0, 0, 1]).is_err(), "deflate block type 3 accepted")?;
    check(inflate_ref(&[0x78, 0x9c, 1, 1, 0, 0xfe, 0xfe, 9, 0, 0x0a, 0, 0x0a]).is_err(), "stored NLEN mismatch accepted")?;

    // ---- LZW ----
    let iso_in = [45u8, 45, 45, 45, 45, 65, 45, 45, 45, 66];
    let iso_out = [0x80u8, 0x0B, 0x60, 0x50, 0x22, 0x0C, 0x0C, 0x85, 0x01];
    check(lzw_encode(&iso_in, true, &mut Last) == iso_out, "lzw ISO 32000 example (encode)")?;
    check(lzw_decode_ref(&iso_out, true)? == iso_in, "lzw ISO 32000 example (decode)")?;
    check(lzw_encode(&[], true, &mut Last) == [0x80, 0x40, 0x40], "lzw empty input")?;
    check(lzw_decode_ref(&iso_out[..8], true).is_err(), "lzw missing EOD accepted")?;
    check(lzw_decode_ref(&[0x80, 0x40, 0x80], true).is_err(), "lzw non-literal after clear accepted")?;
    check(lzw_decode_ref(&[0x80, 0x0B, 0x60, 0x80], true).is_err(), "lzw out-of-table code accepted")?;
    for early in [true, false] {
        // > 5000 distinct strings: forces the table-full clear even without optional clears
        let big = rng.bytes(30_000, 256);
        let e = lzw_encode(&big, early, &mut Last);
        let (d, clears) = lzw_decode_inner(&e, early)?;
        check(d == big, "lzw random round trip")?;
        check(clears >= 3, "lzw table-full clear path not exercised")?;
        // the two EarlyChange flavours are not interchangeable once the table passes 510 entries
        check(lzw_decode_ref(&e, !early).ok().as_ref() != Some(&big), "lzw early/late streams identical")?;
        for i in 0..40usize {
            let d = match i % 5 {
                0 => rng.bytes(i * 997, 256),
                1 => rng.bytes(i * 1500, 2),
                2 => vec![i as u8; i * 2000 + 1],
                3 => b"-----A---B".repeat(i * 300),
                _ => (0..i * 1200).map(|k| (k / 3 % 251) as u8).collect(),
            };
            let e = if i % 2 == 0 { lzw_encode(&d, early, &mut rng) } else { lzw_encode(&d, early, &mut Last) };
            check(lzw_decode_ref(&e, early)? == d, "lzw round trip")?;
        }
    }

    // ---- PNG predictors ----
    // hand-computed: p = a+b-c, nearest of a,b,c with ties a, b, c
    for (a, b, c, want) in [
        (0u8, 0u8, 0u8, 0u8),
        (10, 20, 30, 10),     // p=0:   pa=10  pb=20  pc=30
        (50, 60, 40, 60),     // p=70:  pa=20  pb=10  pc=30
        (100, 50, 80, 80),    // p=70:  pa=30  pb=20  pc=10
        (255, 0, 0, 255),     // p=255: pa=0
        (0, 255, 0, 255),     // p=255: pa=255 pb=0
        (200, 200, 100, 200), // p=300: pa=100 pb=100 pc=200 (tie -> a)
        (1, 3, 2, 2),         // p=2:   pa=1   pb=1   pc=0
        (3, 1, 2, 2),         // p=2:   pa=1   pb=1   pc=0
        (11, 8, 10, 8),       // p=9:   pa=2   pb=1   pc=1   (tie -> b)
        (8, 11, 10, 8),       // p=9:   pa=1   pb=2   pc=1   (tie -> a)
    ] {
        check(paeth(a, b, c) == want, "paeth triple")?;
    }
    let filters = [RowFilter::None, RowFilter::Sub, RowFilter::Up, RowFilter::Avg, RowFilter::Paeth];
    for (colors, bpc, bpp) in [(1, 1, 1), (1, 8, 1), (1, 16, 2), (3, 8, 3), (4, 8, 4), (3, 16, 6), (4, 16, 8), (1, 4, 1)] {
        for columns in [1usize, 2, 5, 17] {
            let (g_bpp, row_len) = png_geom(colors, bpc, columns);
            check(g_bpp == bpp, "png bytes-per-pixel")?;
            let data = rng.bytes(row_len * 7, 256);
            for f in filters {
                let enc = png_encode(&data, colors, bpc, columns, &mut |_| f);
                check(enc.len() == data.len() + 7 && enc[0] == f as u8, "png encoded shape")?;
                check(png_decode_ref(&enc, colors, bpc, columns)? == data, "png single-filter round trip")?;
            }
            let enc = png_encode(&data, colors, bpc, columns, &mut |r| filters[(r * 3 + columns) % 5]);
            check(png_decode_ref(&enc, colors, bpc, columns)? == data, "png mixed-filter round trip")?;
            check(png_decode_ref(&enc[1..], colors, bpc, columns).is_err(), "png ragged input accepted")?;
        }
    }
    // hand-computed rows, bpp = 1: prev = [10, 20, 30]
    let prev = [10u8, 20, 30];
    let mut row = [1u8, 2, 3];
    png_unfilter_row(RowFilter::Sub, 1, &prev, &mut row);
    check(row == [1, 3, 6], "png Sub row")?;
    let mut row = [250u8, 250, 250];
    png_unfilter_row(RowFilter::Up, 1, &prev, &mut row);
    check(row == [4, 14, 24], "png Up row (wraps)")?;
    let mut row = [1u8, 1, 1];
    png_unfilter_row(RowFilter::Avg, 1, &[255, 255, 255], &mut row);
    check(row == [128, 192, 224], "png Avg row (no 8-bit overflow)")?; // 1+127, 1+(128+255)/2, 1+(192+255)/2
    let mut row = [1u8, 1, 1];
    png_unfilter_row(RowFilter::Paeth, 1, &prev, &mut row);
    check(row == [11, 21, 31], "png Paeth row")?; // paeth(0,10,0)=10; paeth(11,20,10)=20 (p=21); paeth(21,30,20)=30 (p=31)
    check(png_decode_ref(&[5, 0, 0, 0], 1, 8, 3).is_err(), "png filter type 5 accepted")?;
    Ok(())
}
