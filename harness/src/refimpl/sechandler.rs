//! Independent reference model of the PDF standard security handler
//! (ISO 32000-1:2008 §7.6 and ISO 32000-2:2020 §7.6), revisions 2, 3, 4, 5, 6.
//!
//! Written from the specification text: Algorithms 1, 1.A, 2, 2.A, 2.B, 3-13.
//! Algorithm numbers follow ISO 32000-2 (Alg 8/9/10 = compute U+UE / O+OE / Perms,
//! Alg 11/12/13 = authenticate user / owner / validate Perms).
//!
//! Malformed inputs never panic in the authenticate / decrypt paths: they yield
//! `None`, `false`, `Err` or (for the `Vec`-returning R2-R4 helpers) an empty vector.

#![allow(dead_code)] // reference code: not every entry point is used by every harness build
#![allow(clippy::manual_is_multiple_of, clippy::type_complexity)]

use super::crypto::*;

/// The 32-byte password padding string of Algorithm 2 step (a).
#[rustfmt::skip]
pub const PAD: [u8; 32] = [
    0x28, 0xBF, 0x4E, 0x5E, 0x4E, 0x75, 0x8A, 0x41, 0x64, 0x00, 0x4E, 0x56, 0xFF, 0xFA, 0x01, 0x08,
    0x2E, 0x2E, 0x00, 0xB6, 0xD0, 0x68, 0x3E, 0x80, 0x2F, 0x0C, 0xA9, 0xFE, 0x64, 0x53, 0x69, 0x7A,
];

/// The on-disk encryption dictionary contract.
#[derive(Clone, Debug, Default)]
pub struct EncDict {
    pub v: i64,
    pub r: i64,
    /// 40 for V1/R2; 40..=128 step 8 for V2/R3; 128 for V4/R4; 256 for V5.
    pub length_bits: usize,
    /// Permission word as a signed 32-bit integer.
    pub p: i32,
    pub encrypt_metadata: bool,
    /// 32 bytes for R<=4, 48 bytes for R>=5.
    pub o: Vec<u8>,
    pub u: Vec<u8>,
    /// 32 bytes, R>=5 only.
    pub oe: Vec<u8>,
    pub ue: Vec<u8>,
    /// 16 bytes, R>=5 only.
    pub perms: Vec<u8>,
    /// First element of the trailer /ID array.
    pub id0: Vec<u8>,
}

// ====================================================================== R2..R4

/// Pad or truncate a password to exactly 32 bytes (Algorithm 2 step a).
fn pad32(pw: &[u8]) -> [u8; 32] {
    let n = pw.len().min(32);
    let mut out = [0u8; 32];
    out[..n].copy_from_slice(&pw[..n]);
    out[n..].copy_from_slice(&PAD[..32 - n]);
    out
}

/// File-key length n in bytes: 5 for R2, Length/8 for R3/R4.  `None` if malformed.
fn key_len(r: i64, length_bits: usize) -> Option<usize> {
    match r {
        2 => Some(5),
        3 | 4 if length_bits % 8 == 0 && (40..=128).contains(&length_bits) => Some(length_bits / 8),
        _ => None,
    }
}

fn xor_key(key: &[u8], i: u8) -> Vec<u8> {
    key.iter().map(|b| b ^ i).collect()
}

/// Algorithm 2: file encryption key from the (user) password.  Empty on malformed R/Length.
pub fn alg2_file_key(d: &EncDict, user_pw: &[u8]) -> Vec<u8> {
    let Some(n) = key_len(d.r, d.length_bits) else { return Vec::new() };
    let mut m = pad32(user_pw).to_vec(); // (a), (b)
    m.extend_from_slice(&d.o); // (c)
    m.extend_from_slice(&(d.p as u32).to_le_bytes()); // (d)
    m.extend_from_slice(&d.id0); // (e)
    if d.r >= 4 && !d.encrypt_metadata {
        m.extend_from_slice(&[0xFF; 4]); // (f)
    }
    let mut h = md5(&m); // (g)
    if d.r >= 3 {
        for _ in 0..50 {
            h = md5(&h[..n]); // (h)
        }
    }
    h[..n].to_vec() // (i)
}

/// Algorithm 3 steps (a)-(d): the RC4 key derived from the owner password.
fn owner_rc4_key(r: i64, n: usize, owner_pw: &[u8]) -> Vec<u8> {
    let mut h = md5(&pad32(owner_pw));
    if r >= 3 {
        for _ in 0..50 {
            h = md5(&h);
        }
    }
    h[..n].to_vec()
}

/// Algorithm 3: the O value.  An empty owner password means "use the user password".
pub fn alg3_owner_value(r: i64, length_bits: usize, owner_pw: &[u8], user_pw: &[u8]) -> Vec<u8> {
    let Some(n) = key_len(r, length_bits) else { return Vec::new() };
    let opw = if owner_pw.is_empty() { user_pw } else { owner_pw };
    let key = owner_rc4_key(r, n, opw);
    let mut out = rc4(&key, &pad32(user_pw));
    if r >= 3 {
        for i in 1..=19u8 {
            out = rc4(&xor_key(&key, i), &out);
        }
    }
    out
}

/// Algorithm 4 (R2) / Algorithm 5 (R3, R4): the 32-byte U value.
/// For R>=3 the trailing 16 bytes are arbitrary; zeros are used here.
pub fn alg4_5_user_value(d: &EncDict, user_pw: &[u8]) -> Vec<u8> {
    let key = alg2_file_key(d, user_pw);
    if key.is_empty() {
        return Vec::new();
    }
    if d.r == 2 {
        return rc4(&key, &PAD);
    }
    let mut m = PAD.to_vec();
    m.extend_from_slice(&d.id0);
    let mut out = rc4(&key, &md5(&m));
    for i in 1..=19u8 {
        out = rc4(&xor_key(&key, i), &out);
    }
    out.resize(32, 0);
    out
}

/// Algorithm 6: returns the file key if `pw` is the user password.
pub fn alg6_auth_user(d: &EncDict, pw: &[u8]) -> Option<Vec<u8>> {
    let u = alg4_5_user_value(d, pw);
    if u.len() != 32 {
        return None;
    }
    let ok = if d.r == 2 { d.u == u } else { d.u.len() >= 16 && d.u[..16] == u[..16] };
    ok.then(|| alg2_file_key(d, pw))
}

/// Algorithm 7: recovers the user password from O using `pw` as the owner password,
/// then authenticates it with Algorithm 6.  Returns the file key.
pub fn alg7_auth_owner(d: &EncDict, pw: &[u8]) -> Option<Vec<u8>> {
    let n = key_len(d.r, d.length_bits)?;
    let key = owner_rc4_key(d.r, n, pw);
    let mut user_pw = d.o.clone();
    if d.r == 2 {
        user_pw = rc4(&key, &user_pw);
    } else {
        for i in (0..=19u8).rev() {
            user_pw = rc4(&xor_key(&key, i), &user_pw);
        }
    }
    alg6_auth_user(d, &user_pw)
}

// ====================================================================== R5 / R6

/// Passwords for R5/R6 are limited to 127 bytes of UTF-8.
fn trunc127(pw: &[u8]) -> &[u8] {
    &pw[..pw.len().min(127)]
}

/// Algorithm 2.B; also returns the number of rounds executed (always >= 64).
///
/// Termination (ISO 32000-2 steps e/f): rounds 0..=63 run unconditionally; from then on, with
/// `n` = number of rounds completed so far (the "round number" of the round that would come next),
/// stop as soon as the last byte of E is <= n - 32.  So after the 64th round the test is
/// `E[last] <= 32`.  This is what qpdf, pdfium, mupdf, pdf.js and pypdf do.
fn alg2b_with_rounds(pw: &[u8], salt: &[u8], udata: &[u8]) -> ([u8; 32], u32) {
    let mut k: Vec<u8> = sha256(&[pw, salt, udata].concat()).to_vec();
    let mut done: u32 = 0; // rounds completed
    loop {
        // (a) K1 = 64 repetitions of pw || K || udata
        let k1 = [pw, &k, udata].concat().repeat(64);
        // (b) AES-128-CBC, no padding, key = K[0..16], IV = K[16..32]
        let mut iv = [0u8; 16];
        iv.copy_from_slice(&k[16..32]);
        let e = aes_cbc_encrypt_nopad(&k[..16], &iv, &k1);
        // (c) first 16 bytes of E as a big-endian integer mod 3 (256 = 1 mod 3, so a byte sum suffices)
        let sel = e[..16].iter().map(|&b| b as u32).sum::<u32>() % 3;
        // (d) next K: SHA-256 / SHA-384 / SHA-512 of E
        k = match sel {
            0 => sha256(&e).to_vec(),
            1 => sha384(&e).to_vec(),
            _ => sha512(&e).to_vec(),
        };
        done += 1;
        // (e)/(f)
        let last = *e.last().unwrap_or(&0) as u32;
        if done >= 64 && last <= done - 32 {
            break;
        }
    }
    let mut out = [0u8; 32];
    out.copy_from_slice(&k[..32]);
    (out, done)
}

/// R5: SHA-256(pw || salt || udata).  R6: Algorithm 2.B.  `pw` is truncated to 127 bytes.
pub fn alg2b_hash(r: i64, pw: &[u8], salt: &[u8], udata: &[u8]) -> [u8; 32] {
    let pw = trunc127(pw);
    if r == 5 {
        sha256(&[pw, salt, udata].concat())
    } else {
        alg2b_with_rounds(pw, salt, udata).0
    }
}

const ZERO_IV: [u8; 16] = [0u8; 16];

fn hash_salts_value(
    r: i64,
    pw: &[u8],
    vsalt: &[u8; 8],
    ksalt: &[u8; 8],
    udata: &[u8],
    file_key: &[u8; 32],
) -> (Vec<u8>, Vec<u8>) {
    let mut val = alg2b_hash(r, pw, vsalt, udata).to_vec();
    val.extend_from_slice(vsalt);
    val.extend_from_slice(ksalt);
    let ikey = alg2b_hash(r, pw, ksalt, udata);
    (val, aes_cbc_encrypt_nopad(&ikey, &ZERO_IV, file_key))
}

/// Algorithm 8: (U, UE) = (hash(pw||vsalt) || vsalt || ksalt, AES-256-CBC_{hash(pw||ksalt)}(file key)).
pub fn alg8_user(r: i64, pw: &[u8], file_key: &[u8; 32], vsalt: &[u8; 8], ksalt: &[u8; 8]) -> (Vec<u8>, Vec<u8>) {
    hash_salts_value(r, pw, vsalt, ksalt, &[], file_key)
}

/// Algorithm 9: (O, OE); like Algorithm 8 but every hash input is followed by the 48-byte U.
pub fn alg9_owner(
    r: i64,
    pw: &[u8],
    file_key: &[u8; 32],
    vsalt: &[u8; 8],
    ksalt: &[u8; 8],
    u: &[u8],
) -> (Vec<u8>, Vec<u8>) {
    hash_salts_value(r, pw, vsalt, ksalt, u.get(..48).unwrap_or(u), file_key)
}

/// Algorithm 10: the encrypted 16-byte Perms value (AES-256, ECB, no IV).
pub fn alg10_perms(p: i32, encrypt_metadata: bool, file_key: &[u8; 32], rnd: [u8; 4]) -> Vec<u8> {
    let mut b = [0u8; 16];
    b[..4].copy_from_slice(&(p as u32).to_le_bytes());
    b[4..8].copy_from_slice(&[0xFF; 4]);
    b[8] = if encrypt_metadata { b'T' } else { b'F' };
    b[9..12].copy_from_slice(b"adb");
    b[12..].copy_from_slice(&rnd);
    aes_encrypt_block(file_key, &b).to_vec()
}

/// Splits a 48-byte (or longer; excess ignored) U/O string into (hash, validation salt, key salt).
fn split48(s: &[u8]) -> Option<(&[u8], &[u8], &[u8])> {
    (s.len() >= 48).then(|| (&s[..32], &s[32..40], &s[40..48]))
}

fn unwrap_key(ikey: &[u8; 32], wrapped: &[u8]) -> Option<Vec<u8>> {
    (wrapped.len() >= 32).then(|| aes_cbc_decrypt_nopad(ikey, &ZERO_IV, &wrapped[..32]))
}

fn r56(d: &EncDict) -> bool {
    d.r == 5 || d.r == 6
}

/// Algorithm 11: is `pw` the user password?
pub fn alg11_auth_user(d: &EncDict, pw: &[u8]) -> bool {
    match split48(&d.u) {
        Some((h, vsalt, _)) if r56(d) => alg2b_hash(d.r, pw, vsalt, &[])[..] == *h,
        _ => false,
    }
}

/// Algorithm 12: is `pw` the owner password?
pub fn alg12_auth_owner(d: &EncDict, pw: &[u8]) -> bool {
    match (split48(&d.o), d.u.get(..48)) {
        (Some((h, vsalt, _)), Some(u)) if r56(d) => alg2b_hash(d.r, pw, vsalt, u)[..] == *h,
        _ => false,
    }
}

/// Algorithm 2.A steps (a)-(e): try `pw` as owner, then as user password.
/// Returns (file key, was_owner).  The Perms check (step f) is [`alg13_perms_ok`].
pub fn alg2a_file_key(d: &EncDict, pw: &[u8]) -> Option<(Vec<u8>, bool)> {
    if alg12_auth_owner(d, pw) {
        let (_, _, ksalt) = split48(&d.o)?;
        let ikey = alg2b_hash(d.r, pw, ksalt, d.u.get(..48)?);
        return Some((unwrap_key(&ikey, &d.oe)?, true));
    }
    if alg11_auth_user(d, pw) {
        let (_, _, ksalt) = split48(&d.u)?;
        let ikey = alg2b_hash(d.r, pw, ksalt, &[]);
        return Some((unwrap_key(&ikey, &d.ue)?, false));
    }
    None
}

/// Algorithm 13: decrypt Perms (AES-256 ECB) and validate it against P and EncryptMetadata.
pub fn alg13_perms_ok(d: &EncDict, file_key: &[u8]) -> Result<(), String> {
    if file_key.len() != 32 {
        return Err(format!("file key is {} bytes, want 32", file_key.len()));
    }
    let Some(perms) = d.perms.get(..16) else {
        return Err(format!("Perms is {} bytes, want 16", d.perms.len()));
    };
    let mut block = [0u8; 16];
    block.copy_from_slice(perms);
    let b = aes_decrypt_block(file_key, &block);
    if &b[9..12] != b"adb" {
        return Err(format!("Perms bytes 9..12 are {:02x?}, want \"adb\"", &b[9..12]));
    }
    if b[..4] != (d.p as u32).to_le_bytes() {
        return Err(format!("Perms bytes 0..4 {:02x?} do not match P = {}", &b[..4], d.p));
    }
    match (b[8], d.encrypt_metadata) {
        (b'T', true) | (b'F', false) => Ok(()),
        (c, em) => Err(format!("Perms byte 8 is {c:#04x}, EncryptMetadata is {em}")),
    }
}

// ====================================================================== Algorithm 1 / 1.A

/// Crypt filter method.
#[derive(Clone, Copy, Debug, PartialEq, Eq)]
pub enum Cfm {
    Identity,
    Rc4,
    AesV2,
    AesV3,
}

/// Per-object key.  Rc4/AesV2 (Algorithm 1): MD5(file key || obj[0..3] LE || gen[0..2] LE [|| "sAlT"])
/// truncated to min(n + 5, 16) bytes.  AesV3 (Algorithm 1.A) and Identity: the file key itself.
pub fn object_key(file_key: &[u8], obj: u32, gen: u16, cfm: Cfm) -> Vec<u8> {
    if matches!(cfm, Cfm::Identity | Cfm::AesV3) {
        return file_key.to_vec();
    }
    let mut m = file_key.to_vec();
    m.extend_from_slice(&obj.to_le_bytes()[..3]);
    m.extend_from_slice(&gen.to_le_bytes());
    if cfm == Cfm::AesV2 {
        m.extend_from_slice(b"sAlT");
    }
    md5(&m)[..(file_key.len() + 5).min(16)].to_vec()
}

/// Encrypt a string or stream.  Identity: copy.  Rc4: RC4.  AES: `iv || CBC-PKCS#5`.
/// Panics if the file key is unusable for the method (AesV2 needs >= 11 bytes, AesV3 exactly 32).
pub fn encrypt_data(file_key: &[u8], obj: u32, gen: u16, cfm: Cfm, iv: [u8; 16], plain: &[u8]) -> Vec<u8> {
    let key = object_key(file_key, obj, gen, cfm);
    match cfm {
        Cfm::Identity => plain.to_vec(),
        Cfm::Rc4 => rc4(&key, plain),
        Cfm::AesV2 => {
            assert!(key.len() == 16, "AESV2 needs a 128-bit object key");
            aes_cbc_encrypt_pkcs5(&key, &iv, plain)
        }
        Cfm::AesV3 => {
            assert!(key.len() == 32, "AESV3 needs a 256-bit file key");
            aes_cbc_encrypt_pkcs5(&key, &iv, plain)
        }
    }
}

/// Inverse of [`encrypt_data`]; never panics.
pub fn decrypt_data(file_key: &[u8], obj: u32, gen: u16, cfm: Cfm, data: &[u8]) -> Result<Vec<u8>, String> {
    let key = object_key(file_key, obj, gen, cfm);
    match cfm {
        Cfm::Identity => Ok(data.to_vec()),
        Cfm::Rc4 if key.is_empty() || key.len() > 256 => Err(format!("rc4: bad key length {}", key.len())),
        Cfm::Rc4 => Ok(rc4(&key, data)),
        Cfm::AesV2 if key.len() != 16 => Err(format!("AESV2: object key is {} bytes, want 16", key.len())),
        Cfm::AesV3 if key.len() != 32 => Err(format!("AESV3: file key is {} bytes, want 32", key.len())),
        Cfm::AesV2 | Cfm::AesV3 => aes_cbc_decrypt_pkcs5(&key, data),
    }
}

// ====================================================================== self-test

fn check(cond: bool, what: impl FnOnce() -> String) -> Result<(), String> {
    if cond {
        Ok(())
    } else {
        Err(what())
    }
}

fn selftest_rc4_revisions() -> Result<(), String> {
    let id0 = unhex("000102030405060708090a0b0c0d0e0f");
    let long_pw: Vec<u8> = (0..40u8).map(|i| b'a' + i % 26).collect();
    let cases: [(i64, i64, usize, bool); 7] = [
        (1, 2, 40, true),
        (2, 3, 40, true),
        (2, 3, 56, true),
        (2, 3, 128, true),
        (4, 4, 128, true),
        (4, 4, 128, false),
        (2, 3, 96, true),
    ];
    let pws: [(&[u8], &[u8]); 4] = [(b"user", b"owner"), (b"", b"owner"), (b"user", b""), (&long_pw, b"0wn3r")];
    for (v, r, bits, em) in cases {
        for (user, owner) in pws {
            let tag = format!("R{r}/{bits}/em={em}/user={:?}", String::from_utf8_lossy(user));
            let mut d = EncDict {
                v,
                r,
                length_bits: bits,
                p: -3904,
                encrypt_metadata: em,
                id0: id0.clone(),
                ..Default::default()
            };
            d.o = alg3_owner_value(r, bits, owner, user);
            d.u = alg4_5_user_value(&d, user);
            check(d.o.len() == 32 && d.u.len() == 32, || format!("{tag}: O/U not 32 bytes"))?;
            let key = alg2_file_key(&d, user);
            check(key.len() == if r == 2 { 5 } else { bits / 8 }, || format!("{tag}: key length {}", key.len()))?;

            check(alg6_auth_user(&d, user).as_ref() == Some(&key), || format!("{tag}: user pw rejected"))?;
            let eff_owner = if owner.is_empty() { user } else { owner };
            check(alg7_auth_owner(&d, eff_owner).as_ref() == Some(&key), || format!("{tag}: owner pw rejected"))?;
            check(alg6_auth_user(&d, b"wrong").is_none(), || format!("{tag}: wrong pw accepted as user"))?;
            check(alg7_auth_owner(&d, b"wrong").is_none(), || format!("{tag}: wrong pw accepted as owner"))?;
            if eff_owner != user {
                check(alg6_auth_user(&d, eff_owner).is_none(), || format!("{tag}: owner pw accepted as user"))?;
                check(alg7_auth_owner(&d, user).is_none(), || format!("{tag}: user pw accepted as owner"))?;
            }
            // passwords are significant only up to 32 bytes
            if user.len() > 32 {
                check(alg6_auth_user(&d, &user[..32]).is_some(), || format!("{tag}: 32-byte truncation"))?;
            }
            // Defining relations, undone with the raw primitives:
            if r == 2 {
                // Algorithm 4: U = RC4(file key, PAD)
                check(d.u == rc4(&key, &PAD), || format!("{tag}: U != RC4(key, PAD)"))?;
                check(rc4(&key, &d.u) == PAD, || format!("{tag}: RC4(key, U) != PAD"))?;
                // Algorithm 3: O = RC4(MD5(pad(owner))[..5], pad(user))
                let okey = &md5(&pad32(eff_owner))[..5];
                check(rc4(okey, &d.o) == pad32(user), || format!("{tag}: O does not decrypt to padded user pw"))?;
            } else {
                // Algorithm 5: peeling the 20 RC4 layers off U[..16] gives MD5(PAD || ID[0])
                let mut x = d.u[..16].to_vec();
                for i in (0..=19u8).rev() {
                    x = rc4(&xor_key(&key, i), &x);
                }
                check(x == md5(&[&PAD[..], &id0].concat()), || format!("{tag}: U does not unwrap to MD5(PAD||ID)"))?;
                check(d.u[16..] == [0u8; 16], || format!("{tag}: U tail not zero"))?;
            }
            // changing P or ID must change the key
            let mut d2 = d.clone();
            d2.p ^= 4;
            check(alg2_file_key(&d2, user) != key, || format!("{tag}: key independent of P"))?;
            let mut d3 = d.clone();
            d3.id0[0] ^= 1;
            check(alg2_file_key(&d3, user) != key, || format!("{tag}: key independent of ID"))?;
            // EncryptMetadata matters for R4 only
            let mut d4 = d.clone();
            d4.encrypt_metadata = !em;
            check((alg2_file_key(&d4, user) != key) == (r >= 4), || format!("{tag}: EncryptMetadata handling"))?;
        }
    }

    // Vectors computed with an independent tool chain (Python hashlib MD5 + OpenSSL `enc -rc4-40` / `-rc4`),
    // user "user", owner "owner", P = -3904, ID[0] = 00..0f.
    let fixed: [(i64, usize, &str, &str, &str); 3] =
        [(2, 40, R2_O, R2_U, R2_KEY), (3, 128, R3_O, R3_U16, R3_KEY), (4, 128, R3_O, R4_U16_NOMETA, R4_KEY_NOMETA)];
    for (r, bits, o, u, key) in fixed {
        let em = r != 4;
        let mut d = EncDict {
            v: r.min(4),
            r,
            length_bits: bits,
            p: -3904,
            encrypt_metadata: em,
            id0: id0.clone(),
            ..Default::default()
        };
        d.o = alg3_owner_value(r, bits, b"owner", b"user");
        check(hex(&d.o) == o, || format!("R{r} fixed vector: O = {}", hex(&d.o)))?;
        d.u = alg4_5_user_value(&d, b"user");
        check(hex(&d.u[..u.len() / 2]) == u, || format!("R{r} fixed vector: U = {}", hex(&d.u)))?;
        check(hex(&alg2_file_key(&d, b"user")) == key, || format!("R{r} fixed vector: key"))?;
    }

    // malformed dictionaries must not panic
    let bad = EncDict { v: 2, r: 3, length_bits: 0, ..Default::default() };
    check(
        alg2_file_key(&bad, b"x").is_empty()
            && alg6_auth_user(&bad, b"x").is_none()
            && alg7_auth_owner(&bad, b"x").is_none(),
        || "R3/Length=0 not rejected".into(),
    )?;
    let bad = EncDict { v: 2, r: 3, length_bits: 128, ..Default::default() };
    check(alg6_auth_user(&bad, b"x").is_none() && alg7_auth_owner(&bad, b"x").is_none(), || {
        "empty O/U authenticated".into()
    })?;
    let bad = EncDict { v: 9, r: 9, length_bits: 128, ..Default::default() };
    check(alg6_auth_user(&bad, b"x").is_none() && alg2a_file_key(&bad, b"x").is_none(), || "R9 authenticated".into())?;
    Ok(())
}

const R2_O: &str = "94e8094419662a774442fb072e3d9f19e9d130ec09a4d0061e78fe920f7ab62f";
const R2_U: &str = "13f520c882d052bf57b416b747c13979bded7ea31240fe41928852aca3894c49";
const R2_KEY: &str = "7fca5cfcc5";
const R3_O: &str = "0ba3835f88f90388e74e54584125ce142be0de24c6b0d37746e075b891756671";
const R3_U16: &str = "b8d04c0b647956d75df3b1f5a437ef97";
const R3_KEY: &str = "ebc53cf170c71152a5ba9925bd0fefc3";
const R4_U16_NOMETA: &str = "8cfe739c15d10ed11168124af4cac78e";
const R4_KEY_NOMETA: &str = "b7f28ee1b51d773508063d025d186024";

fn selftest_aes256_revisions() -> Result<(), String> {
    let mut file_key = [0u8; 32];
    for (i, b) in file_key.iter_mut().enumerate() {
        *b = (i as u8).wrapping_mul(7).wrapping_add(3);
    }
    let (uvs, uks, ovs, oks) = (*b"12345678", *b"abcdefgh", *b"ABCDEFGH", *b"!@#$%^&*");
    let long_pw = vec![b'x'; 140];
    let utf8_pw = "pässwörd".as_bytes();
    // (R, EncryptMetadata, user pw, owner pw, run the negative / malformed checks too).
    // Algorithm 2.B is expensive, so R6 runs the full set once and the positive checks once more.
    let cases: [(i64, bool, &[u8], &[u8], bool); 6] = [
        (5, true, b"user", b"owner", true),
        (5, false, b"", b"owner", true),
        (5, true, &long_pw, utf8_pw, true),
        (5, false, utf8_pw, &long_pw, true),
        (6, true, b"user", b"owner", true),
        (6, false, b"", utf8_pw, false),
    ];
    for (r, em, user, owner, full) in cases {
        let tag = format!("R{r}/em={em}/userlen={}", user.len());
        let (u, ue) = alg8_user(r, user, &file_key, &uvs, &uks);
        let (o, oe) = alg9_owner(r, owner, &file_key, &ovs, &oks, &u);
        let perms = alg10_perms(-1084, em, &file_key, *b"rand");
        check(u.len() == 48 && o.len() == 48 && ue.len() == 32 && oe.len() == 32 && perms.len() == 16, || {
            format!("{tag}: bad lengths")
        })?;
        check(u[32..40] == uvs && u[40..] == uks && o[32..40] == ovs && o[40..] == oks, || {
            format!("{tag}: salts misplaced")
        })?;
        let d = EncDict {
            v: 5,
            r,
            length_bits: 256,
            p: -1084,
            encrypt_metadata: em,
            o,
            u,
            oe,
            ue,
            perms,
            ..Default::default()
        };

        check(alg2a_file_key(&d, user) == Some((file_key.to_vec(), false)), || format!("{tag}: alg2a user"))?;
        check(alg2a_file_key(&d, owner) == Some((file_key.to_vec(), true)), || format!("{tag}: alg2a owner"))?;
        alg13_perms_ok(&d, &file_key).map_err(|e| format!("{tag}: alg13: {e}"))?;
        // Perms layout, decrypted with the raw primitive
        let mut pb = [0u8; 16];
        pb.copy_from_slice(&d.perms);
        let want = [&(-1084i32).to_le_bytes()[..], &[0xFF; 4], if em { b"T" } else { b"F" }, b"adb", b"rand"].concat();
        check(aes_decrypt_block(&file_key, &pb)[..] == want[..], || format!("{tag}: Perms layout"))?;
        if !full {
            continue;
        }

        check(alg11_auth_user(&d, user) && !alg11_auth_user(&d, owner) && !alg11_auth_user(&d, b"wrong"), || {
            format!("{tag}: alg11")
        })?;
        check(alg12_auth_owner(&d, owner) && !alg12_auth_owner(&d, user) && !alg12_auth_owner(&d, b"wrong"), || {
            format!("{tag}: alg12")
        })?;
        check(alg2a_file_key(&d, b"wrong").is_none(), || format!("{tag}: alg2a wrong pw"))?;
        if user.len() > 127 {
            check(alg11_auth_user(&d, &user[..127]) && !alg11_auth_user(&d, &user[..126]), || {
                format!("{tag}: 127-byte truncation")
            })?;
        }
        let mut t = d.clone();
        t.p ^= 4;
        check(alg13_perms_ok(&t, &file_key).is_err(), || format!("{tag}: alg13 accepted wrong P"))?;
        let mut t = d.clone();
        t.encrypt_metadata = !em;
        check(alg13_perms_ok(&t, &file_key).is_err(), || format!("{tag}: alg13 accepted wrong EncryptMetadata"))?;
        let mut wrong_key = file_key;
        wrong_key[0] ^= 1;
        check(alg13_perms_ok(&d, &wrong_key).is_err(), || format!("{tag}: alg13 accepted wrong key"))?;
        // the owner hash covers U: flipping a bit of U must invalidate the owner password only
        let mut t = d.clone();
        t.u[47] ^= 1;
        check(!alg12_auth_owner(&t, owner) && alg11_auth_user(&t, user), || {
            format!("{tag}: owner hash does not cover U")
        })?;
        if r == 5 {
            // malformed: truncated entries must be rejected, not panic (same code path for R6)
            let mut t = d.clone();
            t.u.truncate(47);
            check(alg2a_file_key(&t, user).is_none() && alg2a_file_key(&t, owner).is_none(), || {
                format!("{tag}: short U accepted")
            })?;
            let mut t = d.clone();
            t.oe.truncate(31);
            t.ue.clear();
            check(alg2a_file_key(&t, user).is_none() && alg2a_file_key(&t, owner).is_none(), || {
                format!("{tag}: short OE/UE accepted")
            })?;
            let mut t = d.clone();
            t.perms.truncate(15);
            check(alg13_perms_ok(&t, &file_key).is_err() && alg13_perms_ok(&d, &file_key[..31]).is_err(), || {
                format!("{tag}: short Perms/key accepted")
            })?;
            // entries longer than specified (some writers pad them): excess is ignored
            let mut t = d.clone();
            t.u.extend_from_slice(&[0; 79]);
            t.o.extend_from_slice(&[0; 79]);
            check(alg2a_file_key(&t, user).is_some() && alg2a_file_key(&t, owner).is_some(), || {
                format!("{tag}: padded U/O rejected")
            })?;
        }
    }
    // R6: passwords are truncated to 127 bytes
    check(alg2b_hash(6, &long_pw, &uvs, &[]) == alg2b_hash(6, &long_pw[..127], &uvs, &[]), || {
        "R6: 127-byte truncation".to_string()
    })?;

    // R5 U/UE pair built by hand with OpenSSL (`dgst -sha256`, `enc -aes-256-cbc -nopad -iv 0`):
    // password "user", validation salt "12345678", key salt "abcdefgh", file key as above.
    let (u, ue) = alg8_user(5, b"user", &file_key, &uvs, &uks);
    check(hex(&u) == R5_U, || format!("R5 OpenSSL vector: U = {}", hex(&u)))?;
    check(hex(&ue) == R5_UE, || format!("R5 OpenSSL vector: UE = {}", hex(&ue)))?;
    // ... and the matching O/OE (password "owner", salts "ABCDEFGH" / "!@#$%^&*") and Perms (P=-1084, 'T', "rand").
    let (o, oe) = alg9_owner(5, b"owner", &file_key, &ovs, &oks, &u);
    check(hex(&o) == R5_O && hex(&oe) == R5_OE, || format!("R5 OpenSSL vector: O = {} OE = {}", hex(&o), hex(&oe)))?;
    check(hex(&alg10_perms(-1084, true, &file_key, *b"rand")) == PERMS_VEC, || "Perms OpenSSL vector".to_string())?;

    // Algorithm 2.B: independent Python (hashlib + OpenSSL aes-128-cbc) results, including round counts.
    // The last two inputs discriminate the termination rule: at the decisive check the last byte of E
    // equals exactly (rounds completed) - 32, so an off-by-one rule runs 65 resp. 73 rounds instead.
    let v2b: [(&[u8], &[u8], &[u8], &str, u32); 5] = [
        (b"user", b"12345678", b"", ALG2B_1.0, ALG2B_1.1),
        (b"", b"abcdefgh", b"", ALG2B_2.0, ALG2B_2.1),
        (b"owner", b"ABCDEFGH", &unhex(R5_U), ALG2B_3.0, ALG2B_3.1),
        (b"pw063", b"saltsalt", b"", ALG2B_4.0, ALG2B_4.1),
        (b"pw049", b"saltsalt", b"", ALG2B_5.0, ALG2B_5.1),
    ];
    let mut distinct_rounds = std::collections::BTreeSet::new();
    for (pw, salt, udata, want, want_rounds) in v2b {
        let (h, rounds) = alg2b_with_rounds(pw, salt, udata);
        check(rounds >= 64, || format!("alg 2.B ran only {rounds} rounds"))?;
        check(hex(&h) == want && rounds == want_rounds, || {
            format!("alg 2.B vector: got {} after {rounds} rounds", hex(&h))
        })?;
        check(alg2b_hash(5, pw, salt, udata) == sha256(&[pw, salt, udata].concat()), || {
            "alg2b_hash(5) != SHA-256".to_string()
        })?;
    }
    check(hex(&alg2b_hash(6, b"user", b"12345678", b"")) == ALG2B_1.0, || "alg2b_hash(6) != alg 2.B".to_string())?;
    // Termination rule: never fewer than 64 rounds, and the count varies with the input.
    for i in 0..8u8 {
        let (_, rounds) = alg2b_with_rounds(&[b'p', i], b"saltsalt", &[]);
        check((64..=288).contains(&rounds), || format!("alg 2.B round count {rounds} out of range"))?;
        distinct_rounds.insert(rounds);
    }
    check(distinct_rounds.len() > 1, || "alg 2.B round count does not depend on data".to_string())?;
    Ok(())
}

const R5_U: &str = "8a35e0ef6b995a3af7a084c7b39f3f9aa96f4ce6b961d27d5ee084a779b93ec331323334353637386162636465666768";
const R5_UE: &str = "f5f42ca550814d59c50e19ce05ffb8faa2ae3b6ff90356e0af1645bcb0c52e7a";
const R5_O: &str = "5be197a1ff972a2085a21da380b999bbf1b028fed04737a4aebb87636917b65e414243444546474821402324255e262a";
const R5_OE: &str = "cddec9f2caa4fc26ded915952b61baca44ae3f91695865ef47f92eab5604812b";
const PERMS_VEC: &str = "c615b9dc71f529d5dfe9db1775c8dbf1";
const ALG2B_1: (&str, u32) = ("33a74805a1940282ca67d2b4938a4f77db6f69c75e92e9f281f0743ef0111571", 64);
const ALG2B_2: (&str, u32) = ("eb81524a284f88d1f7e7b1a24864149ff2df303b44148ac467344ddd490c5cf3", 75);
const ALG2B_3: (&str, u32) = ("3646873f4bf13c6af006fa8aa4a60a2d5d4c5a04b73e53df37337119548b6594", 65);
const ALG2B_4: (&str, u32) = ("3102fdcc08fbc1953865468a1912f4854f77f2af91bc7288d16e23129061911d", 64);
const ALG2B_5: (&str, u32) = ("fd849994add325a51a3ff0baa16eec18269dbc8baa0bde18c5cc7f6426a182e7", 65);

fn selftest_object_data() -> Result<(), String> {
    let k40 = unhex("0102030405");
    let k128 = unhex("000102030405060708090a0b0c0d0e0f");
    let k256: Vec<u8> = (0..32u8).collect();
    // Algorithm 1 spelled out with the raw primitive (object 0x123456, generation 0x789a)
    let (obj, gen) = (0x0012_3456u32, 0x789au16);
    let want = md5(&[&k40[..], &[0x56, 0x34, 0x12, 0x9a, 0x78]].concat());
    check(object_key(&k40, obj, gen, Cfm::Rc4) == want[..10], || "object key 40-bit".to_string())?;
    let want = md5(&[&k128[..], &[0x56, 0x34, 0x12, 0x9a, 0x78]].concat());
    check(object_key(&k128, obj, gen, Cfm::Rc4) == want[..16], || "object key 128-bit".to_string())?;
    let want = md5(&[&k128[..], &[0x56, 0x34, 0x12, 0x9a, 0x78], b"sAlT"].concat());
    check(object_key(&k128, obj, gen, Cfm::AesV2) == want[..16], || "object key AESV2".to_string())?;
    check(object_key(&k256, obj, gen, Cfm::AesV3) == k256, || "object key AESV3".to_string())?;
    // only the low 3 bytes of the object number take part
    check(object_key(&k128, obj | 0xFF00_0000, gen, Cfm::Rc4) == object_key(&k128, obj, gen, Cfm::Rc4), || {
        "object number high byte used".to_string()
    })?;
    // hashlib/OpenSSL-derived vectors for object 7 generation 0
    check(hex(&object_key(&k40, 7, 0, Cfm::Rc4)) == OBJKEY_40, || "object key vector (40-bit)".to_string())?;
    check(hex(&object_key(&k128, 7, 0, Cfm::AesV2)) == OBJKEY_AESV2, || "object key vector (AESV2)".to_string())?;
    check(hex(&encrypt_data(&k128, 7, 0, Cfm::AesV2, [0x24; 16], b"Hello, world")) == AESV2_CT, || {
        "AESV2 string vector".to_string()
    })?;
    check(hex(&encrypt_data(&k40, 7, 0, Cfm::Rc4, [0; 16], b"Hello, world")) == RC4_CT, || {
        "RC4 string vector".to_string()
    })?;

    let iv = [0x5a; 16];
    for (cfm, key) in
        [(Cfm::Identity, &k128), (Cfm::Rc4, &k40), (Cfm::Rc4, &k128), (Cfm::AesV2, &k128), (Cfm::AesV3, &k256)]
    {
        for len in [0usize, 1, 15, 16, 17, 100] {
            let plain: Vec<u8> = (0..len).map(|i| (i * 13 + 1) as u8).collect();
            let enc = encrypt_data(key, 12, 3, cfm, iv, &plain);
            let want_len = match cfm {
                Cfm::Identity | Cfm::Rc4 => len,
                _ => 16 + (len / 16 + 1) * 16,
            };
            check(enc.len() == want_len, || format!("{cfm:?}: ciphertext length {} for {len}", enc.len()))?;
            check(cfm == Cfm::Identity || len == 0 || enc != plain, || {
                format!("{cfm:?}: ciphertext equals plaintext")
            })?;
            check(decrypt_data(key, 12, 3, cfm, &enc)? == plain, || format!("{cfm:?}: round trip failed for {len}"))?;
            if len > 0 && cfm != Cfm::Identity {
                check(decrypt_data(key, 13, 3, cfm, &enc).ok().as_ref() != Some(&plain) || cfm == Cfm::AesV3, || {
                    format!("{cfm:?}: object number ignored")
                })?;
            }
        }
    }
    // AES: malformed ciphertexts / keys are errors, degenerate ones are empty
    check(decrypt_data(&k128, 1, 0, Cfm::AesV2, &[0u8; 20]).is_err(), || "ragged AES data accepted".to_string())?;
    check(decrypt_data(&k128, 1, 0, Cfm::AesV2, &[]) == Ok(vec![]), || "empty AES data".to_string())?;
    check(decrypt_data(&k128, 1, 0, Cfm::AesV2, &[1u8; 16]) == Ok(vec![]), || "IV-only AES data".to_string())?;
    check(decrypt_data(&k40, 1, 0, Cfm::AesV2, &[0u8; 32]).is_err(), || "AESV2 with 40-bit key accepted".to_string())?;
    check(decrypt_data(&k128, 1, 0, Cfm::AesV3, &[0u8; 32]).is_err(), || {
        "AESV3 with 128-bit key accepted".to_string()
    })?;
    Ok(())
}

const OBJKEY_40: &str = "9898fd1c6f9cd632194c";
const OBJKEY_AESV2: &str = "8be05f4432358a80b1989cd329ba6e21";
const AESV2_CT: &str = "242424242424242424242424242424248ac78e1af1f5517e2800a6d3afba2eef";
const RC4_CT: &str = "b4b2be0d62b2dc12d5cf3e43";

/// Internal consistency for every revision plus externally derived vectors.
pub fn selftest() -> Result<(), String> {
    check(md5(&PAD)[..4] == unhex(PAD_MD5_PREFIX)[..], || "PAD constant corrupted".to_string())?;
    selftest_rc4_revisions()?;
    selftest_aes256_revisions()?;
    selftest_object_data()
}

const PAD_MD5_PREFIX: &str = "512147b9";
