//! ToUnicode CMap model (mapping table updated in definition order, last definition wins) and a
//! renderer that writes the table as CMap text with random sectioning / spelling.

use crate::prng::Rng;

#[derive(Clone, Debug, PartialEq)]
pub enum Target {
    /// bfchar, or bfrange with a single target whose last unit is incremented
    Single(Vec<u16>),
    /// bfrange with one target per code
    Array(Vec<Vec<u16>>),
}

#[derive(Clone, Debug, PartialEq)]
pub struct Def {
    pub len: u8, // code length in bytes 1..=4
    pub lo: u32,
    pub hi: u32,
    pub target: Target,
    /// written in a bfchar section (lo == hi, Single) rather than as a one-code bfrange
    pub as_char: bool,
}

/// what the CMap defines for `code` of byte length `len`
pub fn lookup(defs: &[Def], len: u8, code: u32) -> Option<Vec<u16>> {
    for d in defs.iter().rev() {
        if d.len == len && d.lo <= code && code <= d.hi {
            let off = code - d.lo;
            return Some(match &d.target {
                Target::Single(t) => {
                    let mut t = t.clone();
                    let l = t.len() - 1;
                    t[l] = t[l].wrapping_add(off as u16);
                    t
                }
                Target::Array(a) => a[off as usize].clone(),
            });
        }
    }
    None
}

fn max_code(len: u8) -> u32 {
    if len >= 4 {
        u32::MAX
    } else {
        (1u32 << (8 * len as u32)) - 1
    }
}

/// first-byte ranges per code length: makes the code set prefix-free across lengths
/// The first bytes 00..FF are split into four quarters, one per code length, so that code sets are prefix-free
/// across lengths. Which quarter a length gets is rotated per CMap (`rot`): long codes may begin with 00 bytes.
pub fn first_byte_range(len: u8, rot: u8) -> (u8, u8) {
    let q = (len.clamp(1, 4) - 1 + rot) % 4;
    (q * 0x40, q * 0x40 + 0x3F)
}

fn random_code(r: &mut Rng, len: u8, rot: u8) -> u32 {
    let (a, b) = first_byte_range(len, rot);
    let fb = a as u32 + r.below((b - a) as u64 + 1) as u32;
    let mut c = fb;
    for _ in 1..len {
        // keep codes clustered so that ranges overlap and touch
        c = (c << 8) | if r.chance(3, 4) { r.below(48) as u32 } else { r.below(256) as u32 };
    }
    c
}

/// a well-formed UTF-16 target; `room` = how far its last unit may be incremented
fn random_target(r: &mut Rng, room: u32) -> Vec<u16> {
    let mut t: Vec<u16> = vec![];
    let n = match r.below(10) {
        0..=5 => 1,
        6 | 7 => 2,
        _ => 1 + r.usize_below(4),
    };
    for i in 0..n {
        let last = i + 1 == n;
        if r.chance(1, 4) {
            // astral character as a surrogate pair
            let lo_max = if last { 0xDFFFu32.saturating_sub(room).max(0xDC00) } else { 0xDFFF };
            if !last || lo_max >= 0xDC00 {
                t.push(0xD800 + r.below(0x400) as u16);
                t.push((0xDC00 + r.below((lo_max - 0xDC00 + 1) as u64) as u32) as u16);
                continue;
            }
        }
        // BMP non-surrogate, with room for increments that stay below the surrogate block or below 0xFFFF
        let u = loop {
            let u = match r.below(4) {
                0 => 0x20 + r.below(0x5f) as u32,
                1 => 0xA0 + r.below(0x2000) as u32,
                2 => 0xE000 + r.below(0x1F00) as u32,
                _ => r.below(0xD800) as u32,
            };
            let ok = if last { (u < 0xD800 && u + room < 0xD800) || (u >= 0xE000 && u + room <= 0xFFFD) } else { true };
            if ok {
                break u;
            }
            if room > 0xD000 {
                break 0;
            }
        };
        t.push(u as u16);
    }
    t
}

pub fn gen_defs(r: &mut Rng) -> Vec<Def> {
    let lens: Vec<u8> = match r.below(6) {
        0 => vec![1],
        1 | 2 => vec![2],
        3 => vec![1, 2],
        4 => vec![2, 3],
        _ => vec![1, 2, 3, 4],
    };
    let n = 1 + r.usize_below(40);
    let rot = r.below(4) as u8;
    let mut defs: Vec<Def> = vec![];
    for _ in 0..n {
        let len = *r.pick(&lens);
        let (fa, fb) = first_byte_range(len, rot);
        let lo_limit = (fa as u32) << (8 * (len as u32 - 1));
        let hi_limit = (((fb as u32) + 1) << (8 * (len as u32 - 1))).wrapping_sub(1).min(max_code(len));
        let kind = r.below(10);
        // most producers keep a range inside one 256-code block; merged ranges (and identity maps) cross blocks
        let block = |r: &mut Rng, lo: u32| if r.chance(1, 4) { u32::MAX } else { lo | 0xFF };
        // start near an existing definition half of the time: adjacency and overlap
        // (a neighbour now and then repeats the earlier definition's destination: the same ligature on adjacent codes)
        let mut reuse: Option<(Target, u32)> = None;
        let mut lo = if !defs.is_empty() && r.bool() {
            let d = r.pick(&defs).clone();
            if d.len == len {
                if r.chance(1, 3) {
                    reuse = Some((d.target.clone(), d.hi - d.lo));
                }
                match r.below(4) {
                    0 => d.hi.saturating_add(1),
                    1 => d.lo.saturating_sub(r.below(4) as u32),
                    2 => d.lo + r.below((d.hi - d.lo + 1) as u64) as u32,
                    _ => d.lo,
                }
            } else {
                random_code(r, len, rot)
            }
        } else {
            random_code(r, len, rot)
        };
        // a long code may consist of 00 bytes, a shorter mapped code and one more byte (<00417A> next to <41>)
        if fa == 0 && r.chance(1, 3) {
            if let Some(d) = defs.iter().find(|d| d.len + 2 <= len).cloned() {
                lo = (d.lo << 8) | r.below(256) as u32;
            }
        }
        lo = lo.clamp(lo_limit, hi_limit);
        if let Some((t, room)) = reuse {
            match t {
                Target::Single(t) => {
                    let span = if r.bool() { 0 } else { r.below(room as u64 + 1) as u32 };
                    let hi = lo.saturating_add(span).min(hi_limit).min(block(r, lo));
                    defs.push(Def { len, lo, hi, target: Target::Single(t), as_char: hi == lo && r.bool() });
                }
                Target::Array(a) => {
                    let hi = lo.saturating_add(a.len() as u32 - 1).min(hi_limit).min(block(r, lo));
                    let a: Vec<Vec<u16>> = a[..(hi - lo + 1) as usize].to_vec();
                    defs.push(Def { len, lo, hi, target: Target::Array(a), as_char: false });
                }
            }
            continue;
        }
        if kind < 4 {
            defs.push(Def { len, lo, hi: lo, target: Target::Single(random_target(r, 0)), as_char: true });
        } else if kind < 8 {
            let span = match r.below(4) {
                0 => 0,
                1 => r.below(4) as u32,
                2 => r.below(40) as u32,
                _ => r.below(300) as u32,
            };
            // a range must not cross the last byte boundary? (Adobe: only the last byte varies). Keep within one 256-block
            let hi = lo.saturating_add(span).min(hi_limit).min(block(r, lo));
            let t = random_target(r, hi - lo);
            defs.push(Def { len, lo, hi, target: Target::Single(t), as_char: false });
        } else {
            let span = r.below(12) as u32;
            let hi = lo.saturating_add(span).min(hi_limit).min(block(r, lo));
            let n = (hi - lo + 1) as usize;
            let a: Vec<Vec<u16>> = match r.below(3) {
                // arrays producers really write are mostly runs of neighbouring code points: consecutive, consecutive
                // with the inner entries permuted (same end points as an incrementing range), reversed, or constant
                0 => {
                    let base = 0x21 + r.below(0xD700) as u16;
                    let mut v: Vec<u16> = (0..n as u16).map(|i| base.wrapping_add(i)).collect();
                    match r.below(4) {
                        0 if n > 2 => r.shuffle(&mut v[1..n - 1]),
                        1 => v.reverse(),
                        2 => v.iter_mut().for_each(|x| *x = base),
                        _ => {}
                    }
                    v.into_iter().map(|u| vec![u]).collect()
                }
                _ => (lo..=hi).map(|_| random_target(r, 0)).collect(),
            };
            defs.push(Def { len, lo, hi, target: Target::Array(a), as_char: false });
        }
    }
    defs
}

fn hex_code(c: u32, len: u8, upper: bool) -> String {
    let s = format!("{:0width$x}", c, width = 2 * len as usize);
    if upper {
        s.to_uppercase()
    } else {
        s
    }
}

fn hex_units(t: &[u16], r: &mut Rng, upper: bool) -> String {
    let mut s = String::from("<");
    for (i, u) in t.iter().enumerate() {
        if i > 0 && r.chance(1, 10) {
            s.push(' ');
        }
        let h = format!("{:04x}", u);
        s.push_str(&if upper { h.to_uppercase() } else { h });
    }
    s.push('>');
    s
}

/// Render definitions in order. Consecutive definitions of the same section kind are grouped
/// into sections of at most 100 entries (definition order is preserved).
pub fn render(defs: &[Def], r: &mut Rng) -> Vec<u8> {
    let eol: &str = *r.pick(&["\n", "\r\n", "\n", "\r"]);
    let upper = r.bool();
    let mut s = String::new();
    s.push_str("/CIDInit /ProcSet findresource begin");
    s.push_str(eol);
    s.push_str("12 dict begin");
    s.push_str(eol);
    s.push_str("begincmap");
    s.push_str(eol);
    if r.chance(9, 10) {
        s.push_str("/CIDSystemInfo");
        s.push_str(if r.bool() { eol } else { " " });
        s.push_str("<< /Registry (Adobe)");
        s.push_str(eol);
        s.push_str("/Ordering (UCS)");
        s.push_str(eol);
        s.push_str("/Supplement 0");
        s.push_str(eol);
        s.push_str(">> def");
        s.push_str(eol);
    }
    s.push_str("/CMapName /Adobe-Identity-UCS def");
    s.push_str(eol);
    s.push_str("/CMapType 2 def");
    s.push_str(eol);
    // codespace ranges: one per code length in use
    let mut lens: Vec<u8> = defs.iter().map(|d| d.len).collect();
    lens.sort();
    lens.dedup();
    s.push_str(&format!("{} begincodespacerange{}", lens.len(), eol));
    for l in &lens {
        // (the quarter of first bytes this length uses is read off its definitions)
        let q = defs.iter().find(|d| d.len == *l).map(|d| ((d.lo >> (8 * (*l as u32 - 1))) as u8) / 0x40).unwrap_or(0);
        let (a, b) = (q * 0x40, q * 0x40 + 0x3F);
        let lo = (a as u32) << (8 * (*l as u32 - 1));
        let hi = ((((b as u64) + 1) << (8 * (*l as u64 - 1))) - 1) as u32;
        s.push_str(&format!("<{}>{}<{}>{}", hex_code(lo, *l, upper), if r.bool() { " " } else { "" }, hex_code(hi, *l, upper), eol));
    }
    s.push_str("endcodespacerange");
    s.push_str(eol);
    let mut i = 0;
    while i < defs.len() {
        let is_char = defs[i].as_char;
        let mut j = i;
        while j < defs.len() && defs[j].as_char == is_char && j - i < 100 {
            // random early section breaks
            if j > i && r.chance(1, 8) {
                break;
            }
            j += 1;
        }
        let n = j - i;
        if is_char {
            s.push_str(&format!("{} beginbfchar{}", n, eol));
            for d in &defs[i..j] {
                let Target::Single(t) = &d.target else { unreachable!() };
                s.push_str(&format!("<{}>{}{}{}", hex_code(d.lo, d.len, upper), if r.chance(4, 5) { " " } else { "" }, hex_units(t, r, upper), eol));
            }
            s.push_str("endbfchar");
            s.push_str(eol);
        } else {
            s.push_str(&format!("{} beginbfrange{}", n, eol));
            for d in &defs[i..j] {
                let sp = |r: &mut Rng| if r.chance(4, 5) { " " } else { "" };
                s.push_str(&format!("<{}>{}<{}>{}", hex_code(d.lo, d.len, upper), sp(r), hex_code(d.hi, d.len, upper), sp(r)));
                match &d.target {
                    Target::Single(t) => s.push_str(&hex_units(t, r, upper)),
                    Target::Array(a) => {
                        s.push('[');
                        if r.bool() {
                            s.push(' ');
                        }
                        for (k, t) in a.iter().enumerate() {
                            if k > 0 {
                                s.push(' ');
                            }
                            s.push_str(&hex_units(t, r, upper));
                        }
                        if r.bool() {
                            s.push(' ');
                        }
                        s.push(']');
                    }
                }
                s.push_str(eol);
            }
            s.push_str("endbfrange");
            s.push_str(eol);
        }
        i = j;
    }
    s.push_str("endcmap");
    s.push_str(eol);
    s.push_str("CMapName currentdict /CMap defineresource pop");
    s.push_str(eol);
    s.push_str("end");
    s.push_str(eol);
    s.push_str("end");
    if r.bool() {
        s.push_str(eol);
    }
    s.into_bytes()
}

/// all codes some definition covers (len, code), capped
pub fn mapped_codes(defs: &[Def], cap: usize) -> Vec<(u8, u32)> {
    let mut v = vec![];
    for d in defs {
        for c in d.lo..=d.hi {
            v.push((d.len, c));
            if v.len() >= cap {
                return v;
            }
        }
    }
    v
}

pub fn code_bytes(len: u8, code: u32) -> Vec<u8> {
    (0..len).rev().map(|k| (code >> (8 * k as u32)) as u8).collect()
}
