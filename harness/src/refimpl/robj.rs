//! Abstract PDF object / document model owned by the harness (no lopdf types in here).

use std::collections::BTreeMap;

#[derive(Clone, Debug, PartialEq)]
pub enum RObj {
    Null,
    Bool(bool),
    Int(i64),
    Real(f32),
    Name(Vec<u8>),
    /// bytes, written-as-hex preference (a spelling hint, not part of equality)
    Str(Vec<u8>, bool),
    Array(Vec<RObj>),
    /// keys are unique; order is the order of definition (not part of equality)
    Dict(Vec<(Vec<u8>, RObj)>),
    /// only legal as a top-level (indirect) object; `dict` excludes /Length, which is implied by data
    Stream(Vec<(Vec<u8>, RObj)>, Vec<u8>),
    Ref(u32, u16),
}

#[derive(Clone, Debug, PartialEq)]
pub struct RDoc {
    pub version: String,
    pub binary_mark: Vec<u8>,
    pub objects: BTreeMap<(u32, u16), RObj>,
    pub trailer: Vec<(Vec<u8>, RObj)>,
}

impl RObj {
    pub fn kind(&self) -> &'static str {
        match self {
            RObj::Null => "null",
            RObj::Bool(_) => "bool",
            RObj::Int(_) => "int",
            RObj::Real(_) => "real",
            RObj::Name(_) => "name",
            RObj::Str(..) => "string",
            RObj::Array(_) => "array",
            RObj::Dict(_) => "dict",
            RObj::Stream(..) => "stream",
            RObj::Ref(..) => "ref",
        }
    }
    pub fn kind_index(&self) -> usize {
        match self {
            RObj::Null => 0,
            RObj::Bool(_) => 1,
            RObj::Int(_) => 2,
            RObj::Real(_) => 3,
            RObj::Name(_) => 4,
            RObj::Str(..) => 5,
            RObj::Array(_) => 6,
            RObj::Dict(_) => 7,
            RObj::Stream(..) => 8,
            RObj::Ref(..) => 9,
        }
    }
    pub fn dict_get<'a>(d: &'a [(Vec<u8>, RObj)], k: &[u8]) -> Option<&'a RObj> {
        d.iter().find(|(kk, _)| kk == k).map(|(_, v)| v)
    }
    pub fn depth(&self) -> usize {
        match self {
            RObj::Array(a) => 1 + a.iter().map(|x| x.depth()).max().unwrap_or(0),
            RObj::Dict(d) | RObj::Stream(d, _) => 1 + d.iter().map(|(_, x)| x.depth()).max().unwrap_or(0),
            _ => 0,
        }
    }
    /// visit every node (pre-order)
    pub fn walk<'a>(&'a self, f: &mut dyn FnMut(&'a RObj)) {
        f(self);
        match self {
            RObj::Array(a) => a.iter().for_each(|x| x.walk(f)),
            RObj::Dict(d) | RObj::Stream(d, _) => d.iter().for_each(|(_, x)| x.walk(f)),
            _ => {}
        }
    }
    pub fn walk_mut(&mut self, f: &mut dyn FnMut(&mut RObj)) {
        f(self);
        match self {
            RObj::Array(a) => a.iter_mut().for_each(|x| x.walk_mut(f)),
            RObj::Dict(d) | RObj::Stream(d, _) => d.iter_mut().for_each(|(_, x)| x.walk_mut(f)),
            _ => {}
        }
    }
    /// compact printable form for evidence samples and replay files
    pub fn show(&self) -> String {
        fn esc(b: &[u8]) -> String {
            let mut s = String::new();
            for &c in b {
                if (0x20..0x7f).contains(&c) && c != b'\\' && c != b'"' {
                    s.push(c as char)
                } else {
                    s.push_str(&format!("\\x{:02x}", c))
                }
            }
            s
        }
        match self {
            RObj::Null => "null".into(),
            RObj::Bool(b) => b.to_string(),
            RObj::Int(i) => i.to_string(),
            RObj::Real(r) => format!("{:?}f", r),
            RObj::Name(n) => format!("/\"{}\"", esc(n)),
            RObj::Str(s, hex) => format!("{}\"{}\"", if *hex { "hex" } else { "lit" }, esc(s)),
            RObj::Array(a) => format!("[{}]", a.iter().map(|x| x.show()).collect::<Vec<_>>().join(" ")),
            RObj::Dict(d) => format!(
                "<<{}>>",
                d.iter().map(|(k, v)| format!("/\"{}\" {}", esc(k), v.show())).collect::<Vec<_>>().join(" ")
            ),
            RObj::Stream(d, data) => format!(
                "<<{}>>stream\"{}\"",
                d.iter().map(|(k, v)| format!("/\"{}\" {}", esc(k), v.show())).collect::<Vec<_>>().join(" "),
                esc(&data[..data.len().min(64)])
            ),
            RObj::Ref(n, g) => format!("{} {} R", n, g),
        }
    }
}

impl RDoc {
    pub fn new() -> RDoc {
        RDoc { version: "1.5".into(), binary_mark: vec![0xBB, 0xAD, 0xC0, 0xDE], objects: BTreeMap::new(), trailer: vec![] }
    }
    pub fn max_num(&self) -> u32 {
        self.objects.keys().map(|k| k.0).max().unwrap_or(0)
    }
    pub fn show(&self) -> String {
        let mut s = format!("version={:?} mark={:02x?}\n", self.version, self.binary_mark);
        for ((n, g), o) in &self.objects {
            s.push_str(&format!("{} {} obj {}\n", n, g, o.show()));
        }
        s.push_str(&format!("trailer {}\n", RObj::Dict(self.trailer.clone()).show()));
        s
    }
}
