//! Run configuration, shard fan-out, evidence assembly, findings and known-finding matching.

use crate::refimpl::robj::{RDoc, RObj};
use serde_json::{json, Map, Value};
use std::collections::{BTreeMap, HashSet};
use std::path::{Path, PathBuf};
use std::time::Instant;

#[derive(Clone, Copy, Debug, PartialEq, Eq)]
pub enum Tier {
    Quick,
    Thorough,
}

#[derive(Clone, Debug)]
pub struct RunCfg {
    pub prop: String,
    pub tier: Tier,
    pub seed: u64,
    pub threads: usize,
    pub verif_dir: PathBuf,
    pub start: Instant,
    /// multiplies workload sizes (env VERIF_SCALE, default 1.0) — for experiments only
    pub scale: f64,
}

impl RunCfg {
    /// scratch directory of this run (worker status files, logs): under VERIF_OUT_DIR when set, else under /verif
    pub fn work_dir(&self) -> PathBuf {
        std::env::var("VERIF_OUT_DIR").map(PathBuf::from).unwrap_or_else(|_| self.verif_dir.clone()).join("work").join(&self.prop)
    }
    pub fn quick(&self) -> bool {
        self.tier == Tier::Quick
    }
    /// workload size by tier
    pub fn n(&self, quick: u64, thorough: u64) -> u64 {
        let base = if self.quick() { quick } else { thorough };
        ((base as f64) * self.scale).max(1.0) as u64
    }
    pub fn elapsed(&self) -> f64 {
        self.start.elapsed().as_secs_f64()
    }
}

#[derive(Clone, Debug)]
pub struct Finding {
    /// identifies the specific defect (not the property); matched against known_findings.json
    pub signature: String,
    pub what: String,
    /// self-contained witness (everything needed to re-execute the case)
    pub witness: Value,
}

#[derive(Default, Debug)]
pub struct ShardOut {
    pub evaluations: u64,
    pub digests: HashSet<u64>,
    pub samples: Vec<Value>,
    pub counters: BTreeMap<String, u64>,
    pub findings: Vec<Finding>,
    pub inconclusive: Vec<String>,
}

impl ShardOut {
    pub fn count(&mut self, k: &str) {
        *self.counters.entry(k.to_string()).or_insert(0) += 1;
    }
    pub fn add(&mut self, k: &str, n: u64) {
        *self.counters.entry(k.to_string()).or_insert(0) += n;
    }
    pub fn max(&mut self, k: &str, n: u64) {
        let e = self.counters.entry(k.to_string()).or_insert(0);
        if n > *e {
            *e = n;
        }
    }
    pub fn sample(&mut self, v: Value) {
        if self.samples.len() < 2 {
            self.samples.push(v);
        }
    }
    pub fn finding(&mut self, f: Finding) {
        // keep at most 3 witnesses per signature and shard
        if self.findings.iter().filter(|x| x.signature == f.signature).count() < 3 {
            self.findings.push(f);
        }
        self.count(&format!("violations_observed"));
    }
    pub fn merge(&mut self, o: ShardOut) {
        self.evaluations += o.evaluations;
        self.digests.extend(o.digests);
        for s in o.samples {
            if self.samples.len() < 6 {
                self.samples.push(s);
            }
        }
        for (k, v) in o.counters {
            if k.starts_with("max_") {
                let e = self.counters.entry(k).or_insert(0);
                if v > *e {
                    *e = v;
                }
            } else {
                *self.counters.entry(k).or_insert(0) += v;
            }
        }
        for f in o.findings {
            if self.findings.iter().filter(|x| x.signature == f.signature).count() < 3 {
                self.findings.push(f);
            }
        }
        self.inconclusive.extend(o.inconclusive);
    }
}

/// Run `f(shard_index)` on `n` OS threads (big stacks: the oracles themselves recurse over
/// nested objects) and merge the results.
pub fn shards<F>(n: usize, f: F) -> ShardOut
where
    F: Fn(usize) -> ShardOut + Sync,
{
    let mut total = ShardOut::default();
    std::thread::scope(|s| {
        let mut hs = vec![];
        for k in 0..n {
            let f = &f;
            hs.push(
                std::thread::Builder::new()
                    .stack_size(64 << 20)
                    .spawn_scoped(s, move || f(k))
                    .expect("spawn shard"),
            );
        }
        for (k, h) in hs.into_iter().enumerate() {
            match h.join() {
                Ok(o) => total.merge(o),
                Err(_) => total.inconclusive.push(format!("shard {} of the harness panicked (harness error)", k)),
            }
        }
    });
    total
}

pub struct PropMeta {
    pub level: &'static str,
    pub rule: String,
    pub assumptions: Vec<String>,
    pub exhaustive: bool,
    /// minimum number of distinct non-trivial cases below which the run is inconclusive
    pub min_distinct: u64,
}

// ---------------------------------------------------------------- JSON for the model

pub fn hex(b: &[u8]) -> String {
    b.iter().map(|x| format!("{:02x}", x)).collect()
}
pub fn unhex(s: &str) -> Vec<u8> {
    (0..s.len() / 2).map(|i| u8::from_str_radix(&s[2 * i..2 * i + 2], 16).unwrap_or(0)).collect()
}

pub fn robj_to_json(o: &RObj) -> Value {
    match o {
        RObj::Null => json!({"t":"null"}),
        RObj::Bool(b) => json!({"t":"bool","v":b}),
        RObj::Int(i) => json!({"t":"int","v":i.to_string()}),
        RObj::Real(r) => json!({"t":"real","bits":r.to_bits(),"approx":format!("{:?}", r)}),
        RObj::Name(n) => json!({"t":"name","hex":hex(n),"ascii":String::from_utf8_lossy(n)}),
        RObj::Str(s, h) => json!({"t":"str","hex":hex(s),"ashex":h,"ascii":String::from_utf8_lossy(s)}),
        RObj::Array(a) => json!({"t":"array","v":a.iter().map(robj_to_json).collect::<Vec<_>>()}),
        RObj::Dict(d) => json!({"t":"dict","v":dict_to_json(d)}),
        RObj::Stream(d, c) => json!({"t":"stream","v":dict_to_json(d),"data":hex(c)}),
        RObj::Ref(n, g) => json!({"t":"ref","n":n,"g":g}),
    }
}
fn dict_to_json(d: &[(Vec<u8>, RObj)]) -> Value {
    Value::Array(d.iter().map(|(k, v)| json!({"k":hex(k),"kascii":String::from_utf8_lossy(k),"v":robj_to_json(v)})).collect())
}
pub fn robj_from_json(v: &Value) -> Option<RObj> {
    let t = v.get("t")?.as_str()?;
    Some(match t {
        "null" => RObj::Null,
        "bool" => RObj::Bool(v.get("v")?.as_bool()?),
        "int" => RObj::Int(v.get("v")?.as_str()?.parse().ok()?),
        "real" => RObj::Real(f32::from_bits(v.get("bits")?.as_u64()? as u32)),
        "name" => RObj::Name(unhex(v.get("hex")?.as_str()?)),
        "str" => RObj::Str(unhex(v.get("hex")?.as_str()?), v.get("ashex")?.as_bool()?),
        "array" => RObj::Array(v.get("v")?.as_array()?.iter().map(robj_from_json).collect::<Option<Vec<_>>>()?),
        "dict" => RObj::Dict(dict_from_json(v.get("v")?)?),
        "stream" => RObj::Stream(dict_from_json(v.get("v")?)?, unhex(v.get("data")?.as_str()?)),
        "ref" => RObj::Ref(v.get("n")?.as_u64()? as u32, v.get("g")?.as_u64()? as u16),
        _ => return None,
    })
}
fn dict_from_json(v: &Value) -> Option<Vec<(Vec<u8>, RObj)>> {
    v.as_array()?.iter().map(|e| Some((unhex(e.get("k")?.as_str()?), robj_from_json(e.get("v")?)?))).collect()
}
pub fn rdoc_to_json(d: &RDoc) -> Value {
    json!({
        "version": d.version,
        "binary_mark": hex(&d.binary_mark),
        "objects": d.objects.iter().map(|((n,g),o)| json!({"n":n,"g":g,"o":robj_to_json(o)})).collect::<Vec<_>>(),
        "trailer": dict_to_json(&d.trailer),
    })
}
pub fn rdoc_from_json(v: &Value) -> Option<RDoc> {
    let mut d = RDoc::new();
    d.version = v.get("version")?.as_str()?.to_string();
    d.binary_mark = unhex(v.get("binary_mark")?.as_str()?);
    for e in v.get("objects")?.as_array()? {
        d.objects.insert((e.get("n")?.as_u64()? as u32, e.get("g")?.as_u64()? as u16), robj_from_json(e.get("o")?)?);
    }
    d.trailer = dict_from_json(v.get("trailer")?)?;
    Some(d)
}

// ---------------------------------------------------------------- known findings + final report

#[derive(Clone, Debug)]
pub struct Known {
    pub property: String,
    pub status: String,
    pub signature: String,
    pub what: String,
    pub witness: Option<String>,
}

/// known findings of the running property (set once by main before the workload starts)
pub static KNOWN: std::sync::OnceLock<Vec<Known>> = std::sync::OnceLock::new();

/// features named by `has:` signatures of still-open known findings of this property
pub fn known_has_features() -> Vec<String> {
    KNOWN
        .get()
        .map(|v| v.iter().filter(|k| k.status == "known").filter_map(|k| k.signature.split_once("/has:").map(|x| x.1.to_string())).collect())
        .unwrap_or_default()
}

pub fn load_known(verif_dir: &Path) -> Vec<Known> {
    let p = verif_dir.join("known_findings.json");
    let Ok(s) = std::fs::read_to_string(&p) else { return vec![] };
    let Ok(v) = serde_json::from_str::<Value>(&s) else { return vec![] };
    let mut out = vec![];
    if let Some(a) = v.get("findings").and_then(|x| x.as_array()) {
        for e in a {
            out.push(Known {
                property: e.get("property").and_then(|x| x.as_str()).unwrap_or("").to_string(),
                status: e.get("status").and_then(|x| x.as_str()).unwrap_or("").to_string(),
                signature: e.get("signature").and_then(|x| x.as_str()).unwrap_or("").to_string(),
                what: e.get("what").and_then(|x| x.as_str()).unwrap_or("").to_string(),
                witness: e.get("witness").and_then(|x| x.as_str()).map(|s| s.to_string()),
            });
        }
    }
    out
}

/// crash signatures: "kind|message-class|fn1,fn2,..." ; a listed signature may use a trailing
/// '*' on the function list meaning "observed function set must be a subset of the listed one"
pub fn signature_matches(listed: &str, observed: &str) -> bool {
    if listed == observed {
        return true;
    }
    // feature-set signatures "<PROP>/<variant>/<f1+f2+...>": a listed "<PROP>/has:<feature>"
    // matches when the (1-minimal) set of features needed to reproduce contains <feature>
    if let Some((prop, feat)) = listed.split_once("/has:") {
        if let Some(rest) = observed.strip_prefix(prop) {
            let feats = rest.rsplit('/').next().unwrap_or("");
            return feats.split('+').any(|f| f == feat);
        }
        return false;
    }
    let l: Vec<&str> = listed.split('|').collect();
    let o: Vec<&str> = observed.split('|').collect();
    if l.len() == 3 && o.len() == 3 && l[0] == o[0] && l[1] == o[1] {
        if let Some(set) = l[2].strip_prefix("subset:") {
            let allowed: HashSet<&str> = set.split(',').collect();
            let obs: Vec<&str> = o[2].split(',').filter(|s| !s.is_empty()).collect();
            return !obs.is_empty() && obs.iter().all(|f| allowed.contains(f));
        }
    }
    false
}

pub struct Outcome {
    pub exit: i32,
}

/// Writes replays + evidence, prints KNOWN-FINDING / VIOLATION lines, returns the exit code.
/// `witness_results`: for each known entry of this property, whether its committed witness
/// still fails with the listed signature on the current tree.
pub fn finish(
    cfg: &RunCfg, meta: &PropMeta, mut out: ShardOut, witness_still_fails: &[(Known, bool)], extra: Map<String, Value>,
) -> Outcome {
    let id = &cfg.prop;
    let known: Vec<Known> = load_known(&cfg.verif_dir).into_iter().filter(|k| &k.property == id).collect();
    let out_dir = std::env::var("VERIF_OUT_DIR").map(PathBuf::from).unwrap_or_else(|_| cfg.verif_dir.clone());
    let replay_dir = out_dir.join("replays").join(id);
    let _ = std::fs::create_dir_all(&replay_dir);

    let mut lines: Vec<String> = vec![];
    // 1. deterministic witness-replay stage output
    for (k, still) in witness_still_fails {
        if k.status == "known" && *still {
            lines.push(format!("KNOWN-FINDING: property={} {} [{}]", id, k.what, k.signature));
        }
    }
    // a fixed entry whose witness fails again is a regression: reported as a violation
    let mut new_violations = 0u64;
    let mut matched_known: BTreeMap<String, u64> = BTreeMap::new();
    for (k, still) in witness_still_fails {
        if k.status == "fixed" && *still {
            new_violations += 1;
            lines.push(format!(
                "VIOLATION property={} replay={}",
                id,
                cfg.verif_dir.join(k.witness.clone().unwrap_or_default()).display()
            ));
        }
    }
    // 2. findings of the workload
    let mut written: HashSet<String> = HashSet::new();
    for f in &out.findings {
        let m = known.iter().find(|k| k.status == "known" && signature_matches(&k.signature, &f.signature));
        if let Some(k) = m {
            *matched_known.entry(k.signature.clone()).or_insert(0) += 1;
            continue;
        }
        new_violations += 1;
        let name = format!("{:016x}", crate::prng::fnv(&f.signature));
        let path = replay_dir.join(format!("{}.json", name));
        if written.insert(name) {
            let doc = json!({
                "property": id, "signature": f.signature, "what": f.what, "seed": cfg.seed,
                "tier": if cfg.quick() {"quick"} else {"thorough"},
                "replay_cmd": format!("./check {} --replay {}", id, path.display()),
                "witness": f.witness,
            });
            let _ = std::fs::write(&path, serde_json::to_string_pretty(&doc).unwrap());
        }
        lines.push(format!("VIOLATION property={} replay={}", id, path.display()));
        eprintln!("  signature: {}\n  what: {}", f.signature, f.what);
    }
    let distinct = out.digests.len() as u64;
    let mut inconclusive = std::mem::take(&mut out.inconclusive);
    if out.evaluations == 0 || distinct < meta.min_distinct.max(2) {
        inconclusive.push(format!(
            "too few observations: evaluations={} distinct_nontrivial={} (minimum {})",
            out.evaluations, distinct, meta.min_distinct.max(2)
        ));
    }

    // 3. evidence
    let mut coverage = Map::new();
    coverage.insert("evaluations".into(), json!(out.evaluations));
    coverage.insert("distinct_nontrivial".into(), json!(distinct));
    coverage.insert("rule".into(), json!(meta.rule));
    coverage.insert("samples".into(), Value::Array(out.samples.clone()));
    coverage.insert("exhaustive".into(), json!(meta.exhaustive));
    coverage.insert("counters".into(), json!(out.counters));
    coverage.insert("known_findings_rediscovered".into(), json!(matched_known));
    coverage.insert(
        "known_finding_witnesses_replayed".into(),
        json!(witness_still_fails.iter().map(|(k, s)| json!({"signature":k.signature,"status":k.status,"still_fails":s})).collect::<Vec<_>>()),
    );
    coverage.insert("inconclusive".into(), json!(inconclusive));
    for (k, v) in extra {
        coverage.insert(k, v);
    }
    let ev = json!({
        "property_id": id,
        "tier": if cfg.quick() {"quick"} else {"thorough"},
        "seed": cfg.seed,
        "level": meta.level,
        "coverage": coverage,
        "assumptions": meta.assumptions,
        "wall_s": (cfg.elapsed()*100.0).round()/100.0,
        "violations": new_violations,
        "verdict": if new_violations>0 {"violated"} else if !inconclusive.is_empty() {"inconclusive"} else {"held on what was observed"},
    });
    let evdir = out_dir.join("evidence");
    let _ = std::fs::create_dir_all(&evdir);
    let _ = std::fs::write(evdir.join(format!("{}.json", id)), serde_json::to_string_pretty(&ev).unwrap());

    for l in &lines {
        println!("{}", l);
    }
    println!(
        "{}: evaluations={} distinct_nontrivial={} new_violations={} known_rediscovered={} inconclusive={} wall={:.1}s",
        id,
        out.evaluations,
        distinct,
        new_violations,
        matched_known.values().sum::<u64>(),
        inconclusive.len(),
        cfg.elapsed()
    );
    for i in &inconclusive {
        println!("INCONCLUSIVE: {}", i);
    }
    let exit = if new_violations > 0 {
        1
    } else if !inconclusive.is_empty() {
        2
    } else {
        0
    };
    Outcome { exit }
}
