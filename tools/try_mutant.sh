#!/bin/sh
# usage: tools/try_mutant.sh <patch.diff> <ID> [<ID>...]
# Tries a patch to lopdf against the quick checks WITHOUT touching /repo: a scratch worktree of /repo's HEAD gets the
# patch, the harness is built against it (cargo --config paths=[...]) into its own target directory, findings and
# evidence go to a scratch output directory. Expects each listed check to report VIOLATION (exit 1).
# Scratch worktree is removed afterwards; the scratch target directory /tmp/vh-mut-target is kept between calls
# (remove it when done: rm -rf /tmp/vh-mut-target /tmp/vh-mut-out).
P=$(readlink -f "$1"); shift
W=/tmp/vh-mut-wt-$$
git -C /repo worktree add -q --detach $W HEAD || exit 2
trap 'git -C /repo worktree remove --force '$W EXIT INT TERM
git -C $W apply "$P" || { echo "patch does not apply: $P"; exit 2; }
cd "$(dirname "$(readlink -f "$0")")/.."
for id in "$@"; do
  out=$(VERIF_LOPDF_PATH=$W VERIF_TARGET=/tmp/vh-mut-target VERIF_OUT_DIR=/tmp/vh-mut-out ./check "$id" --tier ${TIER:-quick} 2>&1); rc=$?
  n=$(printf '%s\n' "$out" | grep -c '^VIOLATION')
  echo "MUTANT $(basename $(dirname "$P"))/$(basename "$P") check=$id exit=$rc violations=$n $(printf '%s\n' "$out" | grep -m1 'signature:' )"
done
