#!/bin/sh
# usage: tools/try_mutant.sh <patch.diff> <ID> [<ID>...]   — applies a patch to /repo, runs the quick checks, always reverts.
# Expects each listed check to report VIOLATION (exit 1). Prints a one-line verdict per check.
P=$(readlink -f "$1"); shift
cd /repo || exit 2
if ! git diff --quiet; then echo "repo working tree not clean"; exit 2; fi
git apply "$P" || { echo "patch does not apply: $P"; exit 2; }
trap 'git -C /repo checkout -- . ' EXIT INT TERM
cd /verif
for id in "$@"; do
  out=$(VERIF_OUT_DIR=/tmp/vh-mut-out ./check "$id" --tier quick 2>&1); rc=$?
  n=$(printf '%s\n' "$out" | grep -c '^VIOLATION')
  echo "MUTANT $(basename "$P") check=$id exit=$rc violations=$n $(printf '%s\n' "$out" | grep -m1 'signature:' )"
done
