#!/bin/sh
# Replays every committed witness of a *fixed* finding against the ORIGINAL lopdf tree (before any fix: commit)
# to show that each witness is a genuine failing input there. Scratch worktree and build output are removed afterwards.
BASE=${1:-5b5d5dc}
W=/tmp/lopdf-base-$$
T=/tmp/vh-base-target-$$
git -C /repo worktree add -q --detach $W $BASE || exit 2
trap 'git -C /repo worktree remove --force '$W'; rm -rf '$T EXIT INT TERM
cd /verif/harness && RUSTFLAGS="--cfg lopdf_verif" cargo build --release --offline --features par,nohook --target-dir $T --config "paths=[\"$W\"]" 2>&1 | tail -2
cd /verif
python3 - "$T" <<'PY'
import json,subprocess,sys
T=sys.argv[1]
k=json.load(open('/verif/known_findings.json'))
for f in k['findings']:
    if f['status']!='fixed' or not f.get('witness'): continue
    r=subprocess.run([T+'/release/vh','replay',f['property'],'/verif/'+f['witness']],capture_output=True,text=True,env={**__import__('os').environ,'VERIF_DIR':'/verif'})
    sig=[l for l in r.stdout.splitlines() if 'signature' in l]
    print(f['property'], f['witness'], 'exit=%d'%r.returncode, (sig[0].strip() if sig else r.stdout.strip()[:100]))
PY
