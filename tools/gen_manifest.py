#!/usr/bin/env python3
"""Regenerates /verif/MANIFEST.json from the table below (kept in one place so the manifest
stays valid and consistent while checks are added)."""
import json
import os

VERIF = os.path.dirname(os.path.dirname(os.path.abspath(__file__)))

# id -> (category, design_ref, technique, level text, level note)
CHECKS = {
    "C01": (
        "exploration", "DESIGN.md §4 C01",
        "runtime monitor: reference-model equality oracle over observed save_to/load_mem executions (seeded documents + exhaustive byte-pair sweep), both feature builds",
        "Every generated abstract document is pushed through the real Document::save_to and Document::load_mem (twice, both xref formats, default and no-default-features builds) and the loaded objects/trailer/version are compared with the model by an independent structural oracle. Held = held on the documents of this run (counts in evidence); the lexical layer additionally sees all 65,536 byte pairs in every string/name/key position.",
        "Trusted: the harness' model/equality code and Rust std float formatting/parsing. Domain restrictions listed under assumptions in the evidence file.",
    ),
    "C02": (
        "exploration", "DESIGN.md §4 C02",
        "runtime monitor: independent reference PDF writer (randomised legal syntax) as workload, abstract-document equality oracle on Document::load_mem results, feature-level minimisation for signatures",
        "Every file is produced by an independent writer that randomises each syntactic freedom of ISO 32000-1 7.2-7.5 and is checked by an independent strict reader at setup; lopdf's loaded objects/trailer/version are compared with the abstract document. Held = on the files of this run; per-feature file counts are in the evidence.",
        "Trusted: reference writer (mutually self-tested with the strict reader), reference codecs (cross-checked against zlib/base64 during development), Rust std number parsing.",
    ),
    "C03": (
        "exploration", "DESIGN.md §4 C03",
        "runtime monitor: independent strict byte-accounting PDF reader applied to every file produced by Document::save_to / IncrementalDocument::save_to",
        "Every saved file (both xref formats, plain and 1..3 incremental updates) is parsed by a reader that shares no code with lopdf, tolerates nothing and accounts for every byte; the recovered document must equal the saved one.",
        "Trusted: strict reader (self-tested against the reference writer), reference codecs.",
    ),
    "C04": (
        "exploration", "DESIGN.md §4 C04, §2.1",
        "process-level runtime monitor (exit status/signal, panic hook with backtrace, per-case CPU time from /proc, counting global allocator, gdb stack triage) over isolated workers driving hostile inputs into 8 byte-level entry-point groups; nesting templates also run against an unoptimised (dev profile) build on a 2 MiB thread; valgrind memcheck replay in the thorough tier",
        "16 isolated worker processes call every byte-level entry point on structure-aware mutations of valid inputs and on size-parameterised adversarial templates, built with overflow checks on; a supervisor decides crash / panic / CPU bound exceeded / allocation unrelated to input size per case. Held = no such event on the cases of this run (counts per entry point and mutator in the evidence). Known finding (KNOWN-FINDING lines): in an unoptimised build nesting of 72-96 levels overflows a 2 MiB thread stack.",
        "Says nothing about inputs not generated. CPU bound 5 s + 50 us/byte; allocation bound max(64 MiB, 4096 x len) per request, 256 MiB + 8192 x len peak.",
    ),
    "C08": (
        "fault_enumeration", "DESIGN.md §4 C08, §2.3",
        "schedule enumeration through hook H1 (all k! completion orders of the object-stream blocks, k<=6) + sampling of real schedules on rayon pools of 1..16 threads with injected delays (also: object streams of 256..1300 objects, the filtered loader in child processes watched through their CPU clock, files decrypted at load); digest oracle against the sequential build; Miri on the rayon loader in the thorough tier",
        "The only place where thread completion order can reach the loaded document (the accumulator merged after the parallel phase) is enumerated exhaustively per file via the hook; real interleavings are sampled with delays and the distinct completion orders observed are reported; every digest is compared with the no-default-features build.",
        "Hook H1 is add-only and compiled only with --cfg lopdf_verif. Interleavings inside the parsing of a single object are sampled, not enumerated.",
    ),
    "C09": (
        "exploration", "DESIGN.md §4 C09",
        "runtime monitor: reference encoders generate inputs, plaintext equality oracle on lopdf's decoders, Length bookkeeping assertions; exhaustive sweeps of Paeth triples, Sub/Up/Avg pairs and ASCII85 final groups",
        "Plaintexts are encoded by independent reference encoders through every chain of 1..3 filters with every predictor geometry and both DecodeParms forms and must come back exactly from decompressed_content/get_plain_content/decompress; compress/decompress/set_content round trips keep Length == content length and never lengthen; decode_row is compared with the PNG definition on all 2^24 Paeth triples.",
        "Trusted: reference codecs (zlib/base64 cross-checked during development; ISO LZW example).",
    ),
    "C10": (
        "exploration", "DESIGN.md §4 C10",
        "runtime monitor: lock-step graph-renaming oracle over (document before, document after) renumber_objects_with(start)",
        "Random reference graphs (page ids out of page order, colliding old/new numbers, generations, shared/cyclic/dangling references, trailer references, bookmarks) are renumbered by the real code and a lock-step walk from both trailers checks a consistent injective renaming, equal referents, dangling-stays-dangling, dense numbering, max_id, page order and bookmark targets.",
        "Known finding: dangling references can start to resolve (listed in known_findings.json).",
    ),
    "C11": (
        "exploration", "DESIGN.md §4 C11",
        "runtime monitor: per-step before/after snapshot oracle (operation write sets, fresh ids, reference-freeness after deletion, exact prune set) plus position-keyed page/content/resource model, over seeded programs of editing calls",
        "Programs of up to 40 public editing calls with random arguments run on generated documents (some loaded from reference-writer files); after every step the state is compared with a snapshot taken before the call under the operation's write set and with the edit model (page list, page content, Count invariant, resources in effect).",
        "Trusted: model readers over the abstract document; delete/set aim at non-page-tree objects.",
    ),
    "C15": (
        "exploration", "DESIGN.md §4 C15",
        "runtime monitor: mapping-table reference model (last definition wins, range offset on the last UTF-16 unit, array index) vs Document::decode_text through get_font_encoding on rendered CMaps",
        "Random mapping tables with touching, overlapping and overriding definitions are rendered to CMap text with random sectioning/spelling and decoded by the real pipeline; every mapped code is decoded on its own so a failure names the code and the definition context.",
        "Trusted: the table model and renderer. Targets are kept well-formed UTF-16; code sets prefix-free.",
    ),
    "C16": (
        "exploration", "DESIGN.md §4 C16",
        "runtime monitor: exhaustive sweep of all Unicode scalar values through text_string/decode_text_string, exhaustive 5 x 256 table sweep against published tables, extraction oracle on generated pages",
        "All 1,112,064 scalar values and random strings round-trip through text_string/decode_text_string with the representation rule checked; each reachable one-byte encoding is swept over all 256 bytes and compared with tables generated from Python's codecs / Annex D; generated pages showing encoded text are extracted before and after save+load.",
        "Trusted: Python cp1252/mac_roman codecs and Annex D for the published cells; cells where sources differ accept either value.",
    ),
    "C18": (
        "exploration", "DESIGN.md §4 C18",
        "runtime monitor: independent civil-date arithmetic as reference for Object::from(date) strings and for instants/offsets read back by every backend; exhaustive offset sweep incl. chrono Local via TZ on fresh threads",
        "Every offset -23:59..+23:59 is enumerated for each offset-carrying backend at fixed instants, instants are sampled over years 0001..9999; each produced string must equal the reference and be read back by chrono, jiff and time to the same instant/offset; the specification's short forms are parsed by every backend.",
        "Trusted: civil-date reference (self-tested by a full calendar walk over years 1..9999). Instants stay two days inside jiff's Timestamp range.",
    ),
    "C17": (
        "exploration", "DESIGN.md §4 C17",
        "runtime monitor: bookmark-forest model vs the objects created by build_outline (link-consistency walker) and vs get_toc() before and after save+load",
        "Random bookmark forests with distinct Unicode titles and zero-page parents go through add_bookmark -> adjust_zero_pages -> build_outline -> get_toc and again after save_to + load_mem; the oracle walks First/Last/Next/Prev/Parent in lock-step with the model and compares the pre-order (title, level, page) list.",
        "Titles are pairwise distinct (quantifier); leaf bookmarks name real pages.",
    ),
    "C12": (
        "exploration", "DESIGN.md §4 C12",
        "runtime monitor: depth-first reference model of generated page trees compared with page_iter()/get_pages() inside isolated workers; process monitor for malformed variants",
        "Page trees of every shape up to the documented depth limit with shuffled object ids and direct/indirect Kids are enumerated by the real iterator and compared with the model's DFS order; malformed variants must terminate within the CPU budget and yield only Page dictionaries.",
        "Trusted: the tree model. Workers are watched for signals, panics, CPU time and allocations.",
    ),
    "C13": (
        "exploration", "DESIGN.md §4 C13, §2.1",
        "process-level runtime monitor (signals, panic hook, CPU time, allocator) around every public read-only query on typed-chaos object graphs and long-chain templates",
        "Isolated workers build Document values whose query-relevant keys are bound plausibly or chaotically (random kinds, dangling/self/cyclic references) plus chains and cycles up to 200,000 links, and call every public read-only query; the supervisor decides crash / panic / CPU bound / allocation per document.",
        "Says nothing about graphs not generated. CPU bound 5 s + 100 us per object for the whole bundle of queries.",
    ),
    "C05": (
        "exploration", "DESIGN.md §4 C05",
        "runtime monitor: before/after snapshot oracle around Document::encrypt / decrypt (in memory and through save_to + load_mem) over an enumerated security-handler configuration space; ciphertext != plaintext scan; wrong-password rejection with unchanged-document check",
        "Every handler version/key length/crypt-filter assignment is visited round-robin with sampled passwords and documents; decrypting with the user and with the owner password must restore every string and stream byte-for-byte and remove the encryption dictionary; nothing under a non-identity filter may stay in clear; wrong passwords are rejected without side effects.",
        "Trusted: the abstract document model; exemptions (Identity, XRef, Metadata without EncryptMetadata, Crypt overrides) computed per ISO 32000.",
    ),
    "C06": (
        "exploration", "DESIGN.md §4 C06",
        "runtime monitor: differential oracle against an independent implementation of ISO 32000 Algorithms 1-13 (own MD5/SHA-2/AES/RC4, Python-derived SASLprep), both directions, through the reference writer / strict reader",
        "Files encrypted by the reference handler must open in lopdf with the user and the owner password; files encrypted by lopdf must be authenticated and decrypted by the reference handler from the on-disk entries alone, Perms must pass Algorithm 13 and P must carry its reserved bits. lopdf's agreement with itself is never consulted.",
        "Trusted: reference primitives (RFC/FIPS vectors + openssl/hashlib cross-checks), reference security handler (hand-built openssl vectors), Python stringprep tables.",
    ),
    "C07": (
        "exploration", "DESIGN.md §4 C07",
        "runtime monitor: latest-wins sequential model over recorded revision histories (reference-writer files, every prefix loaded) + per-step invariants on IncrementalDocument saves checked with the strict reader",
        "Histories of 1..4 update revisions in every cross-reference style, and edit scripts replayed through IncrementalDocument with the result re-loaded after every step; oracle is a 15-line id->latest-object model plus byte-prefix, appended-part, Prev-link and prev-view checks.",
        "Trusted: reference writer / strict reader; raw CR in literal strings (C02's known finding) is kept out of this workload.",
    ),
    "C14": (
        "exploration", "DESIGN.md §4 C14",
        "runtime monitor: decode(encode(x)) == x oracle over seeded operation sequences + exhaustive byte-pair sweep + generated inline images",
        "Operation sequences over the documented operator alphabet with operands of every direct kind are pushed through the real Content::encode / Content::decode; all 65,536 byte pairs in each string/name position; inline images of every supported colour space re-encoded and re-decoded.",
        "Trusted: model equality code. Operator tokens beginning with true/false/null/BI are outside the quantifier.",
    ),
    "C19": (
        "fault_enumeration", "DESIGN.md §4 C19",
        "fault injection at the std::io::Write boundary: every byte position of the output x {persistent error, Ok(0), single failing call}, 5 chunking/EINTR policies; offline oracle over recorded sink calls",
        "For each generated document (plain + incremental, both xref formats) every failure position of the complete output is enumerated and each failure kind injected; save must return Err, delivered bytes must be the golden prefix, a later save must produce a file that loads to the same content; chunking/Interrupted policies must reproduce the golden bytes.",
        "Exhaustive per document over positions; documents themselves are sampled. Sink reports errors truthfully.",
    ),
}

NOT_YET = {
}


import subprocess
HOOK_COMMITS = subprocess.check_output(["git", "-C", "/repo", "log", "--format=%H", "--grep=^verif hook"]).decode().split()


def main():
    props = [json.loads(l) for l in open(os.path.join(VERIF, "properties.jsonl"))]
    checks = []
    na = []
    for p in props:
        pid = p["id"]
        if pid in CHECKS:
            cat, ref, tech, text, note = CHECKS[pid]
            checks.append({
                "property_id": pid,
                "quick_cmd": f"./check {pid} --tier quick",
                "thorough_cmd": f"./check {pid} --tier thorough",
                "evidence_file": f"/verif/evidence/{pid}.json",
                "replay_cmd_template": f"./check {pid} --replay {{path}}",
                "engine": "vh",
                "level_claimed": {"category": cat, "text": text, "design_ref": ref},
                "level_note": note,
                "technique": tech,
            })
        else:
            na.append({"property_id": pid, "reason": NOT_YET.get(pid, "monitor for this property is not built yet in this revision of /verif (see DESIGN.md §9 build order); nothing is claimed")})
    m = {
        "version": 1,
        "setup_cmd": "./setup.sh",
        "hooks": {
            "guard": "lopdf_verif",
            "enable": "RUSTFLAGS=\"--cfg lopdf_verif\" (set by ./check for every harness build; the harness depends on /repo by path, so every check rebuilds lopdf from the current working tree)",
            "baseline_off_cmd": "cd /repo && cargo test --workspace --no-fail-fast --offline",
            "source_commits": HOOK_COMMITS,
            "add_only": True,
        },
        "engines": [
            {"name": "vh", "path": "/verif/harness", "serves_properties": sorted(CHECKS.keys()),
             "kind_free_text": "Rust harness linking the real lopdf crate (two feature builds): seeded workload generators, independent reference implementations, process/panic/allocation monitors, evidence writer; driven by ./check"},
        ],
        "checks": checks,
        "notes": "Technique family: runtime monitoring and sanitizers. Exit 0 = held on everything observed (KNOWN-FINDING lines possible), 1 = VIOLATION line(s), 2 = harness error / inconclusive. known_findings.json lists genuine lopdf defects (known / fixed).",
        "not_applicable": na,
    }
    with open(os.path.join(VERIF, "MANIFEST.json"), "w") as f:
        json.dump(m, f, indent=1)
        f.write("\n")


if __name__ == "__main__":
    main()
