#!/usr/bin/env python3
"""Regenerates /verif/MANIFEST.json from the table below (kept in one place so the manifest
stays valid and consistent while checks are added)."""
import json
import os

VERIF = os.path.dirname(os.path.dirname(os.path.abspath(__file__)))

# id -> (category, design_ref, technique, level text, level note)
CHECKS = {
    "C01": (
        "exploration", "DESIGN.md §4 C01",
        "runtime monitor: reference-model equality oracle over observed save_to/load_mem executions (seeded documents + exhaustive byte-pair sweep), both feature builds",
        "Every generated abstract document is pushed through the real Document::save_to and Document::load_mem (twice, both xref formats, default and no-default-features builds) and the loaded objects/trailer/version are compared with the model by an independent structural oracle. Held = held on the documents of this run (counts in evidence); the lexical layer additionally sees all 65,536 byte pairs in every string/name/key position.",
        "Trusted: the harness' model/equality code and Rust std float formatting/parsing. Domain restrictions listed under assumptions in the evidence file.",
    ),
}

NOT_YET = {
}


def main():
    props = [json.loads(l) for l in open(os.path.join(VERIF, "properties.jsonl"))]
    checks = []
    na = []
    for p in props:
        pid = p["id"]
        if pid in CHECKS:
            cat, ref, tech, text, note = CHECKS[pid]
            checks.append({
                "property_id": pid,
                "quick_cmd": f"./check {pid} --tier quick",
                "thorough_cmd": f"./check {pid} --tier thorough",
                "evidence_file": f"/verif/evidence/{pid}.json",
                "replay_cmd_template": f"./check {pid} --replay {{path}}",
                "engine": "vh",
                "level_claimed": {"category": cat, "text": text, "design_ref": ref},
                "level_note": note,
                "technique": tech,
            })
        else:
            na.append({"property_id": pid, "reason": NOT_YET.get(pid, "monitor for this property is not built yet in this revision of /verif (see DESIGN.md §9 build order); nothing is claimed")})
    m = {
        "version": 1,
        "setup_cmd": "./setup.sh",
        "hooks": {
            "guard": "lopdf_verif",
            "enable": "RUSTFLAGS=\"--cfg lopdf_verif\" (set by ./check for every harness build; the harness depends on /repo by path, so every check rebuilds lopdf from the current working tree)",
            "baseline_off_cmd": "cd /repo && cargo test --workspace --no-fail-fast --offline",
            "source_commits": [],
            "add_only": True,
        },
        "engines": [
            {"name": "vh", "path": "/verif/harness", "serves_properties": sorted(CHECKS.keys()),
             "kind_free_text": "Rust harness linking the real lopdf crate (two feature builds): seeded workload generators, independent reference implementations, process/panic/allocation monitors, evidence writer; driven by ./check"},
        ],
        "checks": checks,
        "notes": "Technique family: runtime monitoring and sanitizers. Exit 0 = held on everything observed (KNOWN-FINDING lines possible), 1 = VIOLATION line(s), 2 = harness error / inconclusive. known_findings.json lists genuine lopdf defects (known / fixed).",
        "not_applicable": na,
    }
    with open(os.path.join(VERIF, "MANIFEST.json"), "w") as f:
        json.dump(m, f, indent=1)
        f.write("\n")


if __name__ == "__main__":
    main()
