#!/bin/sh
# usage: tools/confirm_seed.sh <worktree dir> <dest name>
# Confirms an independently written seeded change in its scratch worktree: (1) with the change the crate builds and the
# existing suite passes (annotation_count always fails in this sandbox), (2) the demonstration fails with the change,
# (3) the demonstration passes without it. Then stores patch.diff, demo.rs, meta.json under /verif/seeded/<dest name>/.
W=$1; N=$2
cd "$W" || exit 2
git checkout -q -- src 2>/dev/null; git apply SEED/patch.diff || { echo "patch does not apply"; exit 2; }
cp SEED/demo.rs tests/seed_demo.rs
suite=$(cargo test --offline --no-fail-fast 2>&1 | grep -E "^test result|^test .* FAILED" )
failed=$(printf '%s\n' "$suite" | grep "FAILED$" | grep -v "annotation_count" | grep -v "^test result" | sed 's/ \.\.\. FAILED//' | tr '\n' ' ')
echo "with change: failing tests (besides annotation_count): $failed"
with=$(cargo test --offline --test seed_demo 2>&1 | grep -E "^test result")
git checkout -q -- src
without=$(cargo test --offline --test seed_demo 2>&1 | grep -E "^test result")
rm -f tests/seed_demo.rs
git apply SEED/patch.diff
echo "demo with change:    $with"
echo "demo without change: $without"
mkdir -p /verif/seeded/$N && cp SEED/patch.diff SEED/demo.rs SEED/meta.json /verif/seeded/$N/
