#!/usr/bin/env python3
"""Validate MANIFEST.json and every evidence file against the schemas (uses the tooling venv)."""
import glob, json, sys
import jsonschema
ok = True
m = json.load(open('/verif/MANIFEST.json'))
jsonschema.validate(m, json.load(open('/root/.vp/MANIFEST.schema.json')))
es = json.load(open('/root/.vp/EVIDENCE.schema.json'))
for c in m['checks']:
    p = c['evidence_file']
    try:
        jsonschema.validate(json.load(open(p)), es)
        print('ok', p)
    except Exception as e:
        ok = False
        print('BAD', p, str(e)[:300])
print('manifest ok; claimed', len(m['checks']), 'not_applicable', len(m.get('not_applicable', [])))
sys.exit(0 if ok else 1)
