#!/bin/sh
# Build both harness binaries offline from files on disk and self-test the reference code.
set -e
cd "$(dirname "$0")"
export CARGO_NET_OFFLINE=true
./check --build
./target/par/release/vh selftest
