//! C04, unoptimised-build stage: parse one nesting template on a thread with the default 2 MiB stack of spawned
//! (and rayon pool) threads. usage: dbg_c04 <kind> <depth>; prints "returned" when the call came back.
//! kinds: cd / ca = Content::decode with a dictionary / array operand nested <depth> levels,
//!        fd / fa = Document::load_mem of a file whose object 3 is such a dictionary / array.
//! repetition kinds (<depth> is a count): eof = a file with <count> "%%EOF" comment lines in front of its real tail,
//!        cmt = <count> comment lines in front of object 3, par = object 3 is a literal string of <count> nested
//!        parentheses, cpar = Content::decode of such a string operand.
fn nested(depth: usize, dict: bool) -> String {
    let mut s = String::new();
    for _ in 0..depth {
        s.push_str(if dict { "<</A" } else { "[" });
    }
    s.push_str(" 1 ");
    for _ in 0..depth {
        s.push_str(if dict { ">>" } else { "]" });
    }
    s
}

fn file(depth: usize, dict: bool) -> Vec<u8> {
    file_with(&nested(depth, dict), 0, 0)
}

fn parens(count: usize) -> String {
    format!("{}x{}", "(".repeat(count), ")".repeat(count))
}

fn file_with(object3: &str, comment_lines: usize, eof_lines: usize) -> Vec<u8> {
    let mut out = Vec::new();
    out.extend_from_slice(b"%PDF-1.4\n");
    for _ in 0..eof_lines {
        out.extend_from_slice(b"%%EOF\n");
    }
    let o1 = out.len();
    out.extend_from_slice(b"1 0 obj\n<</Type/Catalog/Pages 2 0 R>>\nendobj\n");
    let o2 = out.len();
    out.extend_from_slice(b"2 0 obj\n<</Type/Pages/Kids[]/Count 0>>\nendobj\n");
    for _ in 0..comment_lines {
        out.extend_from_slice(b"% a comment\n");
    }
    let o3 = out.len();
    out.extend_from_slice(format!("3 0 obj\n{}\nendobj\n", object3).as_bytes());
    let x = out.len();
    out.extend_from_slice(
        format!("xref\n0 4\n0000000000 65535 f \n{:010} 00000 n \n{:010} 00000 n \n{:010} 00000 n \ntrailer\n<</Size 4/Root 1 0 R>>\nstartxref\n{}\n%%EOF\n", o1, o2, o3, x).as_bytes(),
    );
    out
}

fn main() {
    let args: Vec<String> = std::env::args().collect();
    let kind = args.get(1).cloned().unwrap_or_default();
    let depth: usize = args.get(2).and_then(|d| d.parse().ok()).unwrap_or(8);
    let h = std::thread::Builder::new()
        .stack_size(2 << 20)
        .spawn(move || match kind.as_str() {
            "cd" | "ca" => {
                let s = format!("{} BDC", nested(depth, kind == "cd"));
                let _ = lopdf::content::Content::decode(s.as_bytes());
            }
            "cpar" => {
                let s = format!("{} Tj", parens(depth));
                let _ = lopdf::content::Content::decode(s.as_bytes());
            }
            "eof" => {
                let _ = lopdf::Document::load_mem(&file_with("(x)", 0, depth));
            }
            "cmt" => {
                let _ = lopdf::Document::load_mem(&file_with("(x)", depth, 0));
            }
            "par" => {
                let _ = lopdf::Document::load_mem(&file_with(&parens(depth), 0, 0));
            }
            _ => {
                let _ = lopdf::Document::load_mem(&file(depth, kind == "fd"));
            }
        })
        .expect("spawn");
    let _ = h.join();
    println!("returned");
}
